#!/usr/bin/env python3
# usage: diff2mutant.py <diff> <id> <PROP> <RULE> <note>   — maintenance helper.
# Turns a diff (e.g. a seeded change) into mutants/<id>.json as whole-file replacements of the touched files.
import json, subprocess, sys, tempfile, os
diff, ident, prop, rule, note = sys.argv[1:6]
wt = tempfile.mkdtemp(prefix='wt-d2m-'); os.rmdir(wt)
subprocess.check_call(['git','-C','/repo','worktree','add','--detach',wt,'HEAD','-q'])
try:
    subprocess.check_call(['git','apply',os.path.abspath(diff)],cwd=wt)
    files = subprocess.check_output(['git','diff','--name-only'],cwd=wt,text=True).split()
    hunks=[{"file":f,"old":open('/repo/'+f).read(),"new":open(wt+'/'+f).read()} for f in files]
finally:
    subprocess.call(['git','-C','/repo','worktree','remove','--force',wt])
d={"id":ident,"property":prop,"rule":rule,"file":hunks[0]["file"],"old":hunks[0]["old"],"new":hunks[0]["new"],"note":note}
if len(hunks)>1: d["more"]=hunks[1:]
json.dump(d,open(f'/verif/mutants/{ident}.json','w'),indent=1)
print('wrote',ident)
