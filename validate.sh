#!/bin/sh
# validates MANIFEST.json and every evidence file against the schemas
python3-vt - <<'PY'
import json,jsonschema,glob,sys
m=json.load(open('/verif/MANIFEST.json'))
jsonschema.validate(m, json.load(open('/root/.vp/MANIFEST.schema.json')))
es=json.load(open('/root/.vp/EVIDENCE.schema.json'))
bad=0
for c in m['checks']:
    try:
        jsonschema.validate(json.load(open('/verif/'+c['evidence_file'])), es)
    except Exception as e:
        bad+=1; print('BAD', c['evidence_file'], str(e)[:200])
claimed={c['property_id'] for c in m['checks']}; na={c['property_id'] for c in m.get('not_applicable',[])}
allp={json.loads(l)['id'] for l in open('/verif/properties.jsonl')}
print('claimed',len(claimed),'na',len(na),'unlisted',sorted(allp-claimed-na),'bad',bad)
PY
