// p2pverif decides the go-p2p properties C01–C20 by static analysis of /repo.
package main

import (
	"encoding/json"
	"flag"
	"fmt"
	"os"
	"os/exec"
	"path/filepath"
	"sort"
	"strconv"
	"strings"
	"sync"
	"time"

	"p2pverif/core"
	"p2pverif/rules"
)

type mutant struct {
	ID       string `json:"id"`
	Property string `json:"property"`
	Rule     string `json:"rule"` // rule expected to fire (prefix match)
	File     string `json:"file"` // repo-relative
	Old      string `json:"old"`
	New      string `json:"new"`
	Note     string `json:"note"`
	// More: further edits (possibly in other files) applied together with the first
	More []struct {
		File string `json:"file"`
		Old  string `json:"old"`
		New  string `json:"new"`
	} `json:"more"`
}

func main() {
	t0 := time.Now()
	prop := flag.String("property", "", "property id (C01..C20)")
	tier := flag.String("tier", "quick", "quick|thorough")
	repo := flag.String("repo", "/repo", "repository root")
	verif := flag.String("verif", "/verif", "verif dir (evidence, known findings)")
	dump := flag.String("dump", "", "debug: dump SSA of function pkgrel:Name")
	mutantFile := flag.String("mutant", "", "internal: analyse the tree with this mutant (JSON) overlaid; prints FIRED/SILENT")
	goarch := flag.String("goarch", "", "GOARCH for the load")
	flag.Parse()

	seed := int64(0)
	if s := os.Getenv("VERIF_SEED"); s != "" {
		if v, err := strconv.ParseInt(s, 10, 64); err == nil {
			seed = v
		}
	}
	if t := os.Getenv("VERIF_TIER"); t != "" && *tier == "" {
		*tier = t
	}
	var overlay map[string][]byte
	var mu mutant
	if *mutantFile != "" {
		b, err := os.ReadFile(*mutantFile)
		if err != nil {
			fmt.Println("MUTANT-ERROR", err)
			os.Exit(3)
		}
		if err := json.Unmarshal(b, &mu); err != nil {
			fmt.Println("MUTANT-ERROR", err)
			os.Exit(3)
		}
		path := filepath.Join(*repo, mu.File)
		src, err := os.ReadFile(path)
		if err != nil {
			fmt.Println("MUTANT-SKIP", mu.ID, err)
			os.Exit(4)
		}
		if strings.Count(string(src), mu.Old) != 1 {
			fmt.Printf("MUTANT-SKIP %s: old text occurs %d times in %s\n", mu.ID, strings.Count(string(src), mu.Old), mu.File)
			os.Exit(4)
		}
		overlay = map[string][]byte{path: []byte(strings.Replace(string(src), mu.Old, mu.New, 1))}
		for _, e := range mu.More {
			f := e.File
			if f == "" {
				f = mu.File
			}
			pth := filepath.Join(*repo, f)
			cur, ok := overlay[pth]
			if !ok {
				cur, err = os.ReadFile(pth)
				if err != nil {
					fmt.Println("MUTANT-SKIP", mu.ID, err)
					os.Exit(4)
				}
			}
			if strings.Count(string(cur), e.Old) != 1 {
				fmt.Printf("MUTANT-SKIP %s: additional old text occurs %d times in %s\n", mu.ID, strings.Count(string(cur), e.Old), f)
				os.Exit(4)
			}
			overlay[pth] = []byte(strings.Replace(string(cur), e.Old, e.New, 1))
		}
		*prop = mu.Property
	}
	p, err := core.Load(*repo, overlay, *goarch)
	if err != nil {
		if *mutantFile != "" {
			fmt.Println("MUTANT-NOCOMPILE", mu.ID, err)
			os.Exit(5)
		}
		fmt.Printf("CHECK-FAILURE property=%s load: %v\n", *prop, err)
		fmt.Printf("VIOLATION property=%s replay=evidence/violations/%s-load.json\n", *prop, *prop)
		_ = os.MkdirAll(filepath.Join(*verif, "evidence", "violations"), 0o755)
		_ = os.WriteFile(filepath.Join(*verif, "evidence", "violations", *prop+"-load.json"), []byte(fmt.Sprintf("{\"failure\":%q}", err.Error())), 0o644)
		os.Exit(1)
	}
	if *dump != "" {
		i := strings.LastIndex(*dump, ":")
		fn := p.Func((*dump)[:i], (*dump)[i+1:])
		if fn == nil {
			fmt.Println("unresolved", *dump)
			os.Exit(2)
		}
		for _, f := range core.WithAnons(fn) {
			f.WriteTo(os.Stdout)
		}
		return
	}
	rule, ok := rules.All[*prop]
	if !ok {
		fmt.Printf("unknown property %q\n", *prop)
		os.Exit(2)
	}
	r := core.NewReport(p, *prop, *tier, seed)
	r.Start = t0
	func() {
		defer func() {
			if e := recover(); e != nil {
				r.Fail("analyser panic: %v", e)
				if os.Getenv("P2PVERIF_DEBUG") != "" {
					panic(e)
				}
			}
		}()
		rule(r)
	}()
	if *mutantFile == "" && *tier == "thorough" {
		selfValidate(r, *repo, *verif, *goarch)
	}
	if *mutantFile != "" {
		fired := false
		knownKeys := map[string]bool{}
		if fs, err := core.LoadFindings(filepath.Join(*verif, "known_findings.json")); err == nil {
			for _, f := range fs {
				if f.Status == "known" && f.Property == *prop {
					knownKeys[f.Rule+" | "+f.Construct] = true
				}
			}
		}
		for _, o := range r.Obls {
			if knownKeys[o.Key()] {
				continue
			}
			if o.Status != core.Discharged && strings.HasPrefix(o.Rule, mu.Rule) {
				fired = true
				fmt.Printf("MUTANT-FIRED %s %s [%s] %s\n", mu.ID, o.Rule, o.Construct, o.Detail)
			}
		}
		if !fired {
			for _, f := range r.Failures {
				fmt.Printf("MUTANT-FAILURE %s %s\n", mu.ID, f)
			}
			fmt.Printf("MUTANT-SILENT %s\n", mu.ID)
			os.Exit(6)
		}
		os.Exit(0)
	}
	findings, err := core.LoadFindings(filepath.Join(*verif, "known_findings.json"))
	if err != nil {
		r.Fail("cannot read known_findings.json: %v", err)
	}
	os.Exit(r.Finish(*verif, findings, false))
}

// selfValidate runs the property's mutant catalogue: each mutant is overlaid
// on the current tree in a child process (no scratch copy on disk), must still
// type-check, and the named rule must fire.
func selfValidate(r *core.Report, repo, verif, goarch string) {
	files, _ := filepath.Glob(filepath.Join(verif, "mutants", r.Property+"-*.json"))
	sort.Strings(files)
	// behaviour-preserving variants that must stay silent
	negs, _ := filepath.Glob(filepath.Join(verif, "negatives", r.Property+"-*.json"))
	sort.Strings(negs)
	isNeg := map[string]bool{}
	for _, f := range negs {
		isNeg[f] = true
	}
	files = append(files, negs...)
	self, err := os.Executable()
	if err != nil {
		r.Fail("self-validation: %v", err)
		return
	}
	type res struct {
		ID, Outcome, Detail string
	}
	results := make([]res, len(files))
	sem := make(chan struct{}, 8) // each child needs about 1 GB and one core for most of its run
	var wg sync.WaitGroup
	for i, f := range files {
		wg.Add(1)
		go func(i int, f string) {
			defer wg.Done()
			sem <- struct{}{}
			defer func() { <-sem }()
			cmd := exec.Command(self, "-mutant", f, "-repo", repo, "-verif", verif, "-goarch", goarch)
			out, _ := cmd.CombinedOutput()
			code := cmd.ProcessState.ExitCode()
			id := strings.TrimSuffix(filepath.Base(f), ".json")
			lines := strings.Split(strings.TrimSpace(string(out)), "\n")
			first := ""
			for _, l := range lines {
				if strings.HasPrefix(l, "MUTANT-") {
					first = l
					break
				}
			}
			if first == "" && len(lines) > 0 {
				first = lines[len(lines)-1]
			}
			oc := map[int]string{0: "fired", 4: "skipped", 5: "nocompile", 6: "silent"}[code]
			if oc == "" {
				oc = fmt.Sprintf("error(%d)", code)
			}
			if isNeg[f] {
				switch oc {
				case "silent":
					oc = "silent-as-required"
				case "fired":
					oc = "false-alarm"
				}
			}
			results[i] = res{id, oc, first}
		}(i, f)
	}
	wg.Wait()
	fired, skipped, quiet := 0, 0, 0
	var sample []any
	for _, x := range results {
		switch x.Outcome {
		case "silent-as-required":
			quiet++
		case "false-alarm":
			r.Fail("self-validation: behaviour-preserving variant %s was reported (false alarm): %s", x.ID, x.Detail)
		case "fired":
			fired++
		case "skipped", "nocompile":
			skipped++
		default:
			r.Fail("self-validation: mutant %s not detected (%s): %s", x.ID, x.Outcome, x.Detail)
		}
		sample = append(sample, map[string]string{"mutant": x.ID, "outcome": x.Outcome, "detail": x.Detail})
	}
	if len(files) > 0 && skipped*2 > len(files) {
		r.Fail("self-validation: %d of %d mutants no longer apply to the tree", skipped, len(files))
	}
	r.Extra["selftest"] = map[string]any{"mutants": len(files) - len(negs), "fired": fired, "skipped": skipped, "behaviour_preserving_variants": len(negs), "silent_as_required": quiet, "results": sample}
}
