package core

import (
	"go/token"
	"go/types"

	"golang.org/x/tools/go/ssa"
)

// ChanKind classifies the channel operand of a blocking operation.
type ChanRef struct {
	Kind  string     // "ctx", "field", "other"
	Field *types.Var // for Kind=="field"
	Base  ssa.Value  // struct the field belongs to (for field), ctx value (for ctx)
	V     ssa.Value
}

// ClassifyChan resolves where a channel value comes from.
func ClassifyChan(v ssa.Value) ChanRef {
	v0 := v
	v = Peel(v)
	// ChangeType from chan to <-chan
	if c, ok := v.(*ssa.Call); ok && c.Call.IsInvoke() && c.Call.Method.Name() == "Done" && isContext(c.Call.Value.Type()) {
		return ChanRef{Kind: "ctx", Base: c.Call.Value, V: v0}
	}
	if f, base := FieldRead(v); f != nil {
		return ChanRef{Kind: "field", Field: f, Base: base, V: v0}
	}
	return ChanRef{Kind: "other", V: v0}
}

func isContext(t types.Type) bool {
	n, ok := t.(*types.Named)
	return ok && n.Obj().Pkg() != nil && n.Obj().Pkg().Path() == "context" && n.Obj().Name() == "Context"
}

func IsContextType(t types.Type) bool { return isContext(t) }

// BlockingOp is a potentially blocking channel operation.
type BlockingOp struct {
	Instr  ssa.Instruction
	Kind   string // "select", "recv", "send"
	States []SelState
}

type SelState struct {
	Dir  types.ChanDir
	Chan ChanRef
	Idx  int
}

// BlockingOps enumerates blocking selects, bare receives and bare sends.
func BlockingOps(fn *ssa.Function) []BlockingOp {
	var out []BlockingOp
	for _, in := range AllInstrs(fn) {
		switch x := in.(type) {
		case *ssa.Select:
			if !x.Blocking {
				continue
			}
			op := BlockingOp{Instr: in, Kind: "select"}
			for i, st := range x.States {
				op.States = append(op.States, SelState{Dir: st.Dir, Chan: ClassifyChan(st.Chan), Idx: i})
			}
			out = append(out, op)
		case *ssa.UnOp:
			if x.Op == token.ARROW {
				out = append(out, BlockingOp{Instr: in, Kind: "recv", States: []SelState{{Dir: types.RecvOnly, Chan: ClassifyChan(x.X)}}})
			}
		case *ssa.Send:
			out = append(out, BlockingOp{Instr: in, Kind: "send", States: []SelState{{Dir: types.SendOnly, Chan: ClassifyChan(x.Chan)}}})
		}
	}
	return out
}

// AllSelects enumerates all selects (blocking or not).
func AllSelects(fn *ssa.Function) []*ssa.Select {
	var out []*ssa.Select
	for _, in := range AllInstrs(fn) {
		if s, ok := in.(*ssa.Select); ok {
			out = append(out, s)
		}
	}
	return out
}

// SelectCaseBlock returns the block executed when the select chose state idx:
// go/ssa lowers the dispatch to a chain of `index == k` tests.
func SelectCaseBlock(sel *ssa.Select, idx int) *ssa.BasicBlock {
	// find Extract #0
	var index ssa.Value
	for _, r := range *sel.Referrers() {
		if e, ok := r.(*ssa.Extract); ok && e.Index == 0 {
			index = e
		}
	}
	if index == nil {
		return nil
	}
	for _, r := range *index.Referrers() {
		b, ok := r.(*ssa.BinOp)
		if !ok || b.Op != token.EQL {
			continue
		}
		k, ok := ConstInt(b.Y)
		if !ok || int(k) != idx {
			continue
		}
		for _, rr := range *b.Referrers() {
			if iff, ok := rr.(*ssa.If); ok {
				return iff.Block().Succs[0]
			}
		}
	}
	return nil
}

// IsSelectNoCasePanic recognises the compiler-synthesised
// panic("blocking select matched no case").
func IsSelectNoCasePanic(p *ssa.Panic) bool {
	mi, ok := p.X.(*ssa.MakeInterface)
	if !ok {
		return false
	}
	c, ok := mi.X.(*ssa.Const)
	if !ok || c.Value == nil {
		return false
	}
	return c.Value.ExactString() == `"blocking select matched no case"` && !p.Pos().IsValid()
}
