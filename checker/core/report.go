package core

import (
	"crypto/sha256"
	"encoding/hex"
	"encoding/json"
	"fmt"
	"os"
	"path/filepath"
	"sort"
	"strings"
	"time"
)

type Status string

const (
	Discharged Status = "discharged"
	Violated   Status = "violated"
	Undecided  Status = "undecided"
)

// Obligation is one rule instance at one construct. Key = Rule + Construct
// (never file:line).
type Obligation struct {
	Rule       string `json:"rule"`
	Construct  string `json:"construct"`
	Pos        string `json:"pos"`
	Status     Status `json:"status"`
	Detail     string `json:"detail"`
	NonTrivial bool   `json:"nontrivial"`
}

func (o *Obligation) Key() string { return o.Rule + " | " + o.Construct }

type Finding struct {
	Property  string `json:"property"`
	Rule      string `json:"rule"`
	Construct string `json:"construct"`
	Status    string `json:"status"` // "known" or "fixed"
	What      string `json:"what"`
	Commit    string `json:"commit,omitempty"`
	Repro     string `json:"repro,omitempty"`
}

type Report struct {
	Property    string
	Tier        string
	Seed        int64
	Start       time.Time
	P           *Prog
	Obls        []*Obligation
	RuleMin     map[string]int // minimum instance counts per rule
	RuleDoc     map[string]string
	Funcs       map[string]bool // functions analysed
	Assumptions []string
	Trusted     []string
	Explanation string
	Extra       map[string]any
	Failures    []string // infrastructure failures (unresolved anchors, …)
	ordinals    map[string]int
}

func NewReport(p *Prog, prop, tier string, seed int64) *Report {
	return &Report{Property: prop, Tier: tier, Seed: seed, Start: time.Now(), P: p,
		RuleMin: map[string]int{}, RuleDoc: map[string]string{}, Funcs: map[string]bool{},
		Extra: map[string]any{}, ordinals: map[string]int{}}
}

// Rule declares a rule, its one-line description and the minimum number of
// instances confirmed by hand on the pinned tree.
func (r *Report) Rule(id, doc string, min int) {
	r.RuleMin[id] = min
	r.RuleDoc[id] = doc
}

func (r *Report) Analysed(fn fmt.Stringer) {
	if fn != nil {
		r.Funcs[strings.ReplaceAll(fn.String(), ModPath, "p2p")] = true
	}
}

func (r *Report) add(rule, construct, pos string, st Status, detail string, nontrivial bool) *Obligation {
	construct = strings.ReplaceAll(construct, ModPath, "p2p")
	k := rule + " | " + construct
	r.ordinals[k]++
	if n := r.ordinals[k]; n > 1 {
		construct = fmt.Sprintf("%s #%d", construct, n)
	}
	o := &Obligation{Rule: rule, Construct: construct, Pos: pos, Status: st, Detail: detail, NonTrivial: nontrivial}
	r.Obls = append(r.Obls, o)
	return o
}

// OK records a discharged obligation that needed an argument.
func (r *Report) OK(rule, construct, pos, why string) {
	r.add(rule, construct, pos, Discharged, why, true)
}

// Trivial records a discharged obligation that needed no argument.
func (r *Report) Trivial(rule, construct, pos, why string) {
	r.add(rule, construct, pos, Discharged, why, false)
}

func (r *Report) Violation(rule, construct, pos, what string) {
	r.add(rule, construct, pos, Violated, what, true)
}

func (r *Report) Undecided(rule, construct, pos, what string) {
	r.add(rule, construct, pos, Undecided, what, true)
}

// Check is shorthand: ok → OK(why) else Violation(what).
func (r *Report) Check(ok bool, rule, construct, pos, why, what string) {
	if ok {
		r.OK(rule, construct, pos, why)
	} else {
		r.Violation(rule, construct, pos, what)
	}
}

// Fail records an infrastructure failure (unresolved anchor, unmodelled
// construct): the check fails, it never passes silently.
func (r *Report) Fail(format string, a ...any) {
	r.Failures = append(r.Failures, fmt.Sprintf(format, a...))
}

// LoadFindings reads the committed known-findings file.
func LoadFindings(path string) ([]Finding, error) {
	b, err := os.ReadFile(path)
	if err != nil {
		return nil, err
	}
	var fs struct {
		Findings []Finding `json:"findings"`
	}
	if err := json.Unmarshal(b, &fs); err != nil {
		return nil, err
	}
	return fs.Findings, nil
}

// Finish prints the verdict lines, writes the evidence file and returns the
// process exit code.
func (r *Report) Finish(verifDir string, findings []Finding, quiet bool) int {
	known := map[string]Finding{}
	for _, f := range findings {
		if f.Property == r.Property && f.Status == "known" {
			known[f.Rule+" | "+f.Construct] = f
		}
	}
	// stable order
	sort.SliceStable(r.Obls, func(i, j int) bool {
		if r.Obls[i].Rule != r.Obls[j].Rule {
			return r.Obls[i].Rule < r.Obls[j].Rule
		}
		return r.Obls[i].Construct < r.Obls[j].Construct
	})
	perRule := map[string]int{}
	nontrivial := map[string]bool{}
	discharged := 0
	var viols, knownHits, undec []*Obligation
	for _, o := range r.Obls {
		perRule[o.Rule]++
		if o.NonTrivial {
			nontrivial[o.Key()] = true
		}
		switch o.Status {
		case Discharged:
			discharged++
		case Violated:
			if _, ok := known[o.Key()]; ok {
				knownHits = append(knownHits, o)
			} else {
				viols = append(viols, o)
			}
		case Undecided:
			undec = append(undec, o)
		}
	}
	for rule, min := range r.RuleMin {
		if perRule[rule] < min {
			r.Fail("rule %s matched %d instance(s), fewer than the %d confirmed on the pinned tree (vacuous or stale rule)", rule, perRule[rule], min)
		}
	}
	for _, o := range undec {
		r.Fail("undecided: %s at %s: %s", o.Key(), o.Pos, o.Detail)
	}
	exit := 0
	vdir := filepath.Join(verifDir, "evidence", "violations")
	var vfiles []string
	for _, o := range knownHits {
		fmt.Printf("KNOWN-FINDING: property=%s %s [%s] %s (%s)\n", r.Property, o.Rule, o.Construct, known[o.Key()].What, o.Pos)
	}
	for _, o := range viols {
		h := sha256.Sum256([]byte(r.Property + o.Key()))
		name := fmt.Sprintf("%s-%s.json", r.Property, hex.EncodeToString(h[:6]))
		_ = os.MkdirAll(vdir, 0o755)
		path := filepath.Join(vdir, name)
		b, _ := json.MarshalIndent(map[string]any{"property": r.Property, "rule": o.Rule, "rule_doc": r.RuleDoc[o.Rule],
			"construct": o.Construct, "pos": o.Pos, "what": o.Detail, "tier": r.Tier}, "", " ")
		_ = os.WriteFile(path, b, 0o644)
		vfiles = append(vfiles, path)
		fmt.Printf("%s: %s: [%s] %s\n", o.Pos, o.Rule, o.Construct, o.Detail)
		fmt.Printf("VIOLATION property=%s replay=%s\n", r.Property, filepath.Join("evidence", "violations", name))
		exit = 1
	}
	for _, f := range r.Failures {
		h := sha256.Sum256([]byte(r.Property + f))
		name := fmt.Sprintf("%s-fail-%s.json", r.Property, hex.EncodeToString(h[:6]))
		_ = os.MkdirAll(vdir, 0o755)
		b, _ := json.MarshalIndent(map[string]any{"property": r.Property, "failure": f}, "", " ")
		_ = os.WriteFile(filepath.Join(vdir, name), b, 0o644)
		fmt.Printf("CHECK-FAILURE property=%s %s\n", r.Property, f)
		fmt.Printf("VIOLATION property=%s replay=%s\n", r.Property, filepath.Join("evidence", "violations", name))
		exit = 1
	}
	// samples
	var samples []any
	perRuleSample := map[string]int{}
	for _, o := range r.Obls {
		if o.Status == Discharged && perRuleSample[o.Rule] >= 3 {
			continue
		}
		perRuleSample[o.Rule]++
		samples = append(samples, o)
	}
	var index []string
	for _, o := range r.Obls {
		index = append(index, fmt.Sprintf("%s | %s | %v", o.Rule, o.Construct, o.Status))
	}
	sort.Strings(index)
	rules := []string{}
	for id := range r.RuleDoc {
		rules = append(rules, id)
	}
	sort.Strings(rules)
	ruleInfo := []map[string]any{}
	for _, id := range rules {
		ruleInfo = append(ruleInfo, map[string]any{"id": id, "doc": r.RuleDoc[id], "instances": perRule[id], "min_instances": r.RuleMin[id]})
	}
	funcs := make([]string, 0, len(r.Funcs))
	for f := range r.Funcs {
		funcs = append(funcs, f)
	}
	sort.Strings(funcs)
	cov := map[string]any{
		"explanation":            r.Explanation,
		"obligations":            len(r.Obls),
		"discharged":             discharged,
		"evaluations":            len(r.Obls),
		"distinct_nontrivial":    len(nontrivial),
		"rule":                   "one obligation per (rule, construct) instance enumerated from the SSA of /repo's current source; non-trivial = its discharge needed an argument (a guard found, a path cut, an origin traced, a table entry) rather than 'no such construct here'; distinct = distinct rule+construct keys",
		"samples":                samples,
		"obligation_index":       index,
		"exhaustive":             true,
		"rules":                  ruleInfo,
		"functions_analysed":     funcs,
		"n_functions":            len(funcs),
		"known_findings":         len(knownHits),
		"packages_loaded":        len(r.P.Pkgs),
		"module_functions":       len(r.P.ModFuncs),
		"functions_that_recover": r.P.Recovering,
		"checker_cmd":            fmt.Sprintf("./check %s %s", r.Property, r.Tier),
		"trusted_base":           r.Trusted,
	}
	for k, v := range r.Extra {
		cov[k] = v
	}
	ev := map[string]any{
		"property_id": r.Property,
		"tier":        r.Tier,
		"seed":        r.Seed,
		"level":       "other",
		"coverage":    cov,
		"assumptions": r.Assumptions,
		"wall_s":      time.Since(r.Start).Seconds(),
		"violations":  len(viols) + len(r.Failures),
	}
	b, _ := json.MarshalIndent(ev, "", " ")
	_ = os.MkdirAll(filepath.Join(verifDir, "evidence"), 0o755)
	if err := os.WriteFile(filepath.Join(verifDir, "evidence", r.Property+".json"), b, 0o644); err != nil {
		fmt.Printf("CHECK-FAILURE property=%s cannot write evidence: %v\n", r.Property, err)
		exit = 1
	}
	if !quiet {
		fmt.Printf("%s %s: %d obligations (%d discharged, %d known findings, %d violations, %d failures) over %d functions in %.1fs\n",
			r.Property, r.Tier, len(r.Obls), discharged, len(knownHits), len(viols), len(r.Failures), len(funcs), time.Since(r.Start).Seconds())
	}
	return exit
}
