package core

import (
	"golang.org/x/tools/go/callgraph"
	"golang.org/x/tools/go/ssa"
)

// normFn maps instantiations and wrappers back to the generic/source body.
func normFn(f *ssa.Function) *ssa.Function {
	if f == nil {
		return nil
	}
	if o := f.Origin(); o != nil {
		return o
	}
	return f
}

// Callees returns the module functions fn may transfer control to or start:
// static callees, function literals it creates, bound methods, and the CHA/VTA
// targets of its dynamic calls (restricted to module functions).
func (p *Prog) Callees(fn *ssa.Function, g *callgraph.Graph) []*ssa.Function {
	seen := map[*ssa.Function]bool{}
	var out []*ssa.Function
	var scan func(f *ssa.Function)
	add := func(f *ssa.Function) {
		f = normFn(f)
		if f == nil || seen[f] {
			return
		}
		seen[f] = true
		// look through synthetic wrappers (bound methods, thunks, instantiation wrappers)
		if f.Synthetic != "" && f.Blocks != nil && !p.isSourceFn(f) {
			scan(f)
			return
		}
		if p.InModule(f) {
			out = append(out, f)
		}
	}
	scan = func(fn *ssa.Function) {
		for _, in := range AllInstrs(fn) {
			switch x := in.(type) {
			case *ssa.MakeClosure:
				if f, ok := x.Fn.(*ssa.Function); ok {
					add(f)
				}
			case ssa.CallInstruction:
				if f := x.Common().StaticCallee(); f != nil {
					add(f)
				}
			}
			for _, op := range in.Operands(nil) {
				if op == nil || *op == nil {
					continue
				}
				if f, ok := (*op).(*ssa.Function); ok {
					add(f)
				}
			}
		}
		if g != nil {
			if n := g.Nodes[fn]; n != nil {
				for _, e := range n.Out {
					add(e.Callee.Func)
				}
			}
		}
	}
	seen[fn] = true
	scan(fn)
	return out
}

func (p *Prog) isSourceFn(f *ssa.Function) bool {
	return f.Syntax() != nil
}

// ReachableFuncs is the forward closure of roots over Callees.
func (p *Prog) ReachableFuncs(roots []*ssa.Function, g *callgraph.Graph) map[*ssa.Function]bool {
	seen := map[*ssa.Function]bool{}
	var walk func(f *ssa.Function)
	walk = func(f *ssa.Function) {
		f = normFn(f)
		if f == nil || seen[f] {
			return
		}
		seen[f] = true
		for _, c := range p.Callees(f, g) {
			walk(c)
		}
	}
	for _, r := range roots {
		walk(r)
	}
	return seen
}

// CallersOf lists (caller, call instruction) pairs of static calls to fn in
// the module.
func (p *Prog) StaticCallSites(fn *ssa.Function) []ssa.CallInstruction {
	if p.callSites == nil {
		p.callSites = map[*ssa.Function][]ssa.CallInstruction{}
		for _, f := range p.ModFuncs {
			for _, in := range AllInstrs(f) {
				if ci, ok := in.(ssa.CallInstruction); ok {
					if c := StaticCallee(ci.Common()); c != nil {
						p.callSites[c] = append(p.callSites[c], ci)
					}
				}
			}
		}
	}
	return p.callSites[fn]
}
