package core

import (
	"go/constant"
	"go/token"

	"golang.org/x/tools/go/ssa"
)

// PathEval evaluates SSA values to sets of possible constants under a path
// restriction: only CFG edges whose source terminator is in Reached and which
// are not Cut are considered live when resolving phi nodes.
type PathEval struct {
	Reached map[ssa.Instruction]bool
	Cut     CutFunc
}

// Consts returns the possible constant values of v, or ok=false when some
// contribution is not a compile-time constant.
func (e *PathEval) Consts(v ssa.Value) (vals []constant.Value, ok bool) {
	seen := map[ssa.Value]bool{}
	var ev func(v ssa.Value) ([]constant.Value, bool)
	// infeasible: control reaches `to` from `from` only through a branch edge whose condition has,
	// on the live paths, only the opposite constant value
	decided := func(q *ssa.BasicBlock, k int) bool {
		iff, ok := q.Instrs[len(q.Instrs)-1].(*ssa.If)
		if !ok || len(q.Succs) != 2 || q.Succs[0] == q.Succs[1] {
			return false
		}
		vs, ok := ev(iff.Cond)
		if !ok || len(vs) == 0 {
			return false
		}
		for _, c := range vs {
			if c.Kind() != constant.Bool {
				return false
			}
			if constant.BoolVal(c) == (k == 0) {
				return false // this edge can be taken
			}
		}
		return true
	}
	infeasible := func(from, to *ssa.BasicBlock) bool {
		for k, sx := range from.Succs {
			if sx == to && decided(from, k) {
				return true
			}
		}
		if len(from.Preds) == 1 {
			q := from.Preds[0]
			for k, sx := range q.Succs {
				if sx == from && decided(q, k) {
					return true
				}
			}
		}
		return false
	}
	ev = func(v ssa.Value) ([]constant.Value, bool) {
		if seen[v] {
			return nil, true
		}
		seen[v] = true
		defer delete(seen, v)
		switch x := v.(type) {
		case *ssa.Const:
			if x.Value == nil {
				return nil, false
			}
			return []constant.Value{x.Value}, true
		case *ssa.Phi:
			var out []constant.Value
			b := x.Block()
			for i, edge := range x.Edges {
				pred := b.Preds[i]
				term := pred.Instrs[len(pred.Instrs)-1]
				if e.Reached != nil && !e.Reached[term] {
					continue
				}
				if e.Cut != nil {
					si := -1
					for k, s := range pred.Succs {
						if s == b {
							// with duplicate successors pick the first not cut
							if si < 0 || e.Cut(pred, si) {
								si = k
							}
						}
					}
					if si >= 0 && e.Cut(pred, si) {
						continue
					}
				}
				// the edge may be controlled by a branch whose condition is decided on the live paths
				// (ok := true; if n < 0 { ok = false } with n = -1 here): skip infeasible edges
				if infeasible(pred, b) {
					continue
				}
				vs, ok := ev(edge)
				if !ok {
					return nil, false
				}
				out = append(out, vs...)
			}
			return out, true
		case *ssa.Convert:
			return ev(x.X)
		case *ssa.ChangeType:
			return ev(x.X)
		case *ssa.UnOp:
			if x.Op == token.NOT {
				vs, ok := ev(x.X)
				if !ok {
					return nil, false
				}
				var out []constant.Value
				for _, c := range vs {
					if c.Kind() != constant.Bool {
						return nil, false
					}
					out = append(out, constant.MakeBool(!constant.BoolVal(c)))
				}
				return out, true
			}
			if x.Op == token.SUB {
				vs, ok := ev(x.X)
				if !ok {
					return nil, false
				}
				var out []constant.Value
				for _, c := range vs {
					out = append(out, constant.UnaryOp(token.SUB, c, 0))
				}
				return out, true
			}
		case *ssa.BinOp:
			xs, ok1 := ev(x.X)
			ys, ok2 := ev(x.Y)
			if !ok1 || !ok2 {
				return nil, false
			}
			var out []constant.Value
			for _, a := range xs {
				for _, b := range ys {
					switch x.Op {
					case token.EQL, token.NEQ, token.LSS, token.LEQ, token.GTR, token.GEQ:
						if a.Kind() != b.Kind() {
							return nil, false
						}
						out = append(out, constant.MakeBool(constant.Compare(a, x.Op, b)))
					case token.ADD, token.SUB, token.MUL:
						if a.Kind() != constant.Int || b.Kind() != constant.Int {
							return nil, false
						}
						out = append(out, constant.BinaryOp(a, x.Op, b))
					default:
						return nil, false
					}
				}
			}
			return out, true
		}
		return nil, false
	}
	return ev(v)
}

// AlwaysBool reports whether v evaluates to the constant want on every live path.
func (e *PathEval) AlwaysBool(v ssa.Value, want bool) bool {
	vs, ok := e.Consts(v)
	if !ok || len(vs) == 0 {
		return false
	}
	for _, c := range vs {
		if c.Kind() != constant.Bool || constant.BoolVal(c) != want {
			return false
		}
	}
	return true
}

// AlwaysNegative reports whether v evaluates to negative integer constants on
// every live path.
func (e *PathEval) AlwaysNegative(v ssa.Value) bool {
	vs, ok := e.Consts(v)
	if !ok || len(vs) == 0 {
		return false
	}
	for _, c := range vs {
		if c.Kind() != constant.Int || constant.Sign(c) >= 0 {
			return false
		}
	}
	return true
}

// Leaves returns the non-phi values v may take on live paths.
func (e *PathEval) Leaves(v ssa.Value) []ssa.Value {
	seen := map[ssa.Value]bool{}
	var out []ssa.Value
	var ev func(v ssa.Value)
	ev = func(v ssa.Value) {
		if seen[v] {
			return
		}
		seen[v] = true
		x, ok := v.(*ssa.Phi)
		if !ok {
			out = append(out, v)
			return
		}
		b := x.Block()
		for i, edge := range x.Edges {
			pred := b.Preds[i]
			term := pred.Instrs[len(pred.Instrs)-1]
			if e.Reached != nil && !e.Reached[term] {
				continue
			}
			if e.Cut != nil {
				live := false
				for k, s := range pred.Succs {
					if s == b && !e.Cut(pred, k) {
						live = true
					}
				}
				if !live {
					continue
				}
			}
			ev(edge)
		}
	}
	ev(v)
	return out
}
