package core

import (
	"fmt"
	"go/constant"
	"go/token"
	"go/types"
	"sort"
	"strings"

	"golang.org/x/tools/go/ssa"
)

// A small abstract interpreter over go/ssa for typestate extraction: it runs
// the methods of one receiver type on an abstract state in which a few
// receiver fields carry concrete small values (booleans, small integers,
// set/unset) and everything else is Unknown. Branches on Unknown conditions and
// calls in the Fallible table fork. It interprets SSA; it never executes the
// program under analysis.

type AKind int

const (
	AUnknown AKind = iota
	AInt
	ABool
	ANil
	ANonNil
	ARecv     // the receiver object
	AFieldPtr // address of a tracked (or untracked) receiver field; S = field path
	ATuple
)

type AVal struct {
	K AKind
	I int64
	B bool
	S string
	T []AVal
}

func (v AVal) String() string {
	switch v.K {
	case AInt:
		return fmt.Sprint(v.I)
	case ABool:
		return fmt.Sprint(v.B)
	case ANil:
		return "nil"
	case ANonNil:
		return "nonnil"
	case ARecv:
		return "recv"
	case AFieldPtr:
		return "&" + v.S
	case ATuple:
		return fmt.Sprint(v.T)
	}
	return "?"
}

type AState map[string]AVal

func (s AState) clone() AState {
	o := AState{}
	for k, v := range s {
		o[k] = v
	}
	return o
}

func (s AState) Key() string {
	var ks []string
	for k := range s {
		ks = append(ks, k)
	}
	sort.Strings(ks)
	var b strings.Builder
	for _, k := range ks {
		fmt.Fprintf(&b, "%s=%s ", k, s[k])
	}
	return b.String()
}

type Outcome struct {
	Labels  []string // fork decisions, in order
	Rets    []AVal
	Panic   bool
	State   AState
	Effects []string // "field=value" stores to tracked fields, in order
	Reads   []string // tracked fields read (including untracked-value reads of tracked paths)
	Calls   []string // names of notable calls executed on this path
}

type Interp struct {
	P        *Prog
	RecvType *types.Named
	Tracked  map[string]bool // field paths whose values are kept (e.g. "hsIndex", "msgCache[1]")
	// Fallible: callee name -> fork into ok/fail. ok gives a NonNil/Unknown value with nil error.
	Fallible map[string]bool
	// BoolFork: callee name -> fork into true/false
	BoolFork map[string]bool
	// Hook may give the abstract result of a call; handled=false to fall through.
	Hook func(it *Interp, call *ssa.CallCommon, args []AVal) (AVal, bool)
	// IntCap: integers at or above this value are merged into the cap (the "post" class)
	IntCap map[string]int64
	// NilTracked: tracked interface/pointer fields kept only as nil / non-nil; a method call on a nil
	// one, or passing a nil one to a module function that invokes a method on that parameter in its
	// entry block, is a panic outcome
	NilTracked map[string]bool
	// Notable: callee names recorded on the path
	Notable map[string]bool
	Err     error
	steps   int
}

type frame struct {
	fn   *ssa.Function
	vals map[ssa.Value]AVal
}

type path struct {
	state   AState
	labels  []string
	effects []string
	reads   []string
	calls   []string
}

func (p *path) fork() *path {
	return &path{state: p.state.clone(), labels: append([]string{}, p.labels...), effects: append([]string{}, p.effects...), reads: append([]string{}, p.reads...), calls: append([]string{}, p.calls...)}
}

// Run interprets fn with the receiver as first argument and the given abstract arguments.
func (it *Interp) Run(fn *ssa.Function, st AState, args []AVal) []Outcome {
	it.steps = 0
	var outs []Outcome
	p := &path{state: st.clone()}
	full := append([]AVal{{K: ARecv}}, args...)
	it.call(fn, full, p, 0, func(p *path, rets []AVal, panicked bool) {
		outs = append(outs, Outcome{Labels: p.labels, Rets: rets, Panic: panicked, State: p.state, Effects: p.effects, Reads: p.reads, Calls: p.calls})
	})
	return outs
}

type cont func(p *path, rets []AVal, panicked bool)

func (it *Interp) fail(format string, a ...any) {
	if it.Err == nil {
		it.Err = fmt.Errorf(format, a...)
	}
}

func (it *Interp) call(fn *ssa.Function, args []AVal, p *path, depth int, k cont) {
	if depth > 6 {
		it.fail("inlining depth exceeded at %s", fn)
		return
	}
	if fn.Blocks == nil {
		it.fail("no body for %s", fn)
		return
	}
	fr := &frame{fn: fn, vals: map[ssa.Value]AVal{}}
	for i, prm := range fn.Params {
		if i < len(args) {
			fr.vals[prm] = args[i]
		}
	}
	it.block(fr, fn.Blocks[0], nil, 0, p, depth, k)
}

func (it *Interp) get(fr *frame, v ssa.Value) AVal {
	if c, ok := v.(*ssa.Const); ok {
		if c.Value == nil {
			return AVal{K: ANil}
		}
		switch c.Value.Kind() {
		case constant.Int:
			if i, ok := constant.Int64Val(c.Value); ok {
				return AVal{K: AInt, I: i}
			}
		case constant.Bool:
			return AVal{K: ABool, B: constant.BoolVal(c.Value)}
		}
		return AVal{}
	}
	if a, ok := fr.vals[v]; ok {
		return a
	}
	return AVal{}
}

// markCap: an integer read from a capped field at its cap stands for "cap or more": comparisons that
// the cap cannot decide are unknown (both branches are explored).
func (it *Interp) markCap(field string, v AVal) AVal {
	if c, ok := it.IntCap[field]; ok && v.K == AInt && v.I >= c {
		v.S = "atleast"
	}
	return v
}

func (it *Interp) capInt(field string, i int64) int64 {
	if c, ok := it.IntCap[field]; ok && i >= c {
		return c
	}
	return i
}

func (it *Interp) block(fr *frame, b *ssa.BasicBlock, prev *ssa.BasicBlock, start int, p *path, depth int, k cont) {
	for idx := start; idx < len(b.Instrs); idx++ {
		it.steps++
		if it.steps > 200000 {
			it.fail("step limit exceeded in %s", fr.fn)
			return
		}
		in := b.Instrs[idx]
		switch x := in.(type) {
		case *ssa.Phi:
			for i, pr := range b.Preds {
				if pr == prev {
					fr.vals[x] = it.get(fr, x.Edges[i])
				}
			}
		case *ssa.DebugRef:
		case *ssa.FieldAddr:
			base := it.get(fr, x.X)
			name := fieldNameOf(x)
			switch base.K {
			case ARecv:
				fr.vals[x] = AVal{K: AFieldPtr, S: name}
			case AFieldPtr:
				fr.vals[x] = AVal{K: AFieldPtr, S: base.S + "." + name}
			default:
				fr.vals[x] = AVal{}
			}
		case *ssa.IndexAddr:
			base := it.get(fr, x.X)
			idxv := it.get(fr, x.Index)
			if base.K == AFieldPtr && idxv.K == AInt {
				fr.vals[x] = AVal{K: AFieldPtr, S: fmt.Sprintf("%s[%d]", base.S, idxv.I)}
			} else if base.K == AFieldPtr {
				it.fail("%s: tracked array %s indexed by a non-constant", fr.fn, base.S)
				return
			} else {
				fr.vals[x] = AVal{}
			}
		case *ssa.UnOp:
			a := it.get(fr, x.X)
			switch x.Op {
			case token.MUL:
				if a.K == AFieldPtr {
					p.reads = append(p.reads, a.S)
					if v, ok := p.state[a.S]; ok {
						fr.vals[x] = it.markCap(a.S, v)
					} else if it.Tracked[a.S] {
						fr.vals[x] = AVal{}
					} else {
						fr.vals[x] = AVal{}
					}
				} else {
					fr.vals[x] = AVal{}
				}
			case token.NOT:
				if a.K == ABool {
					fr.vals[x] = AVal{K: ABool, B: !a.B}
				} else {
					fr.vals[x] = AVal{}
				}
			default:
				fr.vals[x] = AVal{}
			}
		case *ssa.BinOp:
			fr.vals[x] = binop(x.Op, it.get(fr, x.X), it.get(fr, x.Y))
		case *ssa.Convert:
			fr.vals[x] = it.get(fr, x.X)
		case *ssa.ChangeType:
			fr.vals[x] = it.get(fr, x.X)
		case *ssa.MakeInterface:
			v := it.get(fr, x.X)
			if v.K == AUnknown {
				v = AVal{K: ANonNil}
			}
			fr.vals[x] = v
		case *ssa.Extract:
			t := it.get(fr, x.Tuple)
			if t.K == ATuple && x.Index < len(t.T) {
				fr.vals[x] = t.T[x.Index]
			} else {
				fr.vals[x] = AVal{}
			}
		case *ssa.Store:
			addr := it.get(fr, x.Addr)
			if addr.K == AFieldPtr {
				v := it.get(fr, x.Val)
				if it.Tracked[addr.S] {
					if it.NilTracked[addr.S] && v.K != ANil {
						v = AVal{K: ANonNil}
					}
					if v.K == AInt {
						v.I = it.capInt(addr.S, v.I)
					}
					if strings.HasPrefix(addr.S, "msgCache[") {
						// set/unset abstraction
						v = AVal{K: ABool, B: v.K != ANil}
					}
					p.state[addr.S] = v
					p.effects = append(p.effects, addr.S+"="+v.String())
				} else if it.trackedPrefix(addr.S) {
					it.fail("%s: store to an unmodelled part of tracked field %s", fr.fn, addr.S)
					return
				}
			}
		case *ssa.Alloc, *ssa.MakeSlice, *ssa.MakeMap, *ssa.MakeChan, *ssa.MakeClosure:
			fr.vals[in.(ssa.Value)] = AVal{K: ANonNil}
		case *ssa.Slice, *ssa.Index, *ssa.Lookup, *ssa.Field, *ssa.TypeAssert, *ssa.ChangeInterface, *ssa.Range, *ssa.Next, *ssa.SliceToArrayPointer:
			fr.vals[in.(ssa.Value)] = AVal{}
		case *ssa.Call:
			rest := idx + 1
			it.doCall(fr, x, p, depth, func(p2 *path, res AVal, panicked bool) {
				if panicked {
					k(p2, nil, true)
					return
				}
				// continue this block with a private copy of the frame values
				fr2 := &frame{fn: fr.fn, vals: map[ssa.Value]AVal{}}
				for kk, vv := range fr.vals {
					fr2.vals[kk] = vv
				}
				fr2.vals[x] = res
				it.block(fr2, b, prev, rest, p2, depth, k)
			})
			return
		case *ssa.Defer, *ssa.RunDefers, *ssa.Go, *ssa.Send, *ssa.MapUpdate:
			// no effect on tracked state (checked by the field-writer rule)
		case *ssa.If:
			c := it.get(fr, x.Cond)
			if c.K == ABool {
				succ := b.Succs[1]
				if c.B {
					succ = b.Succs[0]
				}
				it.block(fr, succ, b, 0, p, depth, k)
				return
			}
			for i, succ := range b.Succs {
				p2 := p.fork()
				fr2 := &frame{fn: fr.fn, vals: map[ssa.Value]AVal{}}
				for kk, vv := range fr.vals {
					fr2.vals[kk] = vv
				}
				// refine: the condition value is now known on this edge
				fr2.vals[x.Cond] = AVal{K: ABool, B: i == 0}
				it.block(fr2, succ, b, 0, p2, depth, k)
			}
			return
		case *ssa.Jump:
			it.block(fr, b.Succs[0], b, 0, p, depth, k)
			return
		case *ssa.Return:
			var rets []AVal
			for _, r := range x.Results {
				rets = append(rets, it.get(fr, r))
			}
			k(p, rets, false)
			return
		case *ssa.Panic:
			k(p, nil, true)
			return
		default:
			it.fail("%s: unmodelled instruction %T", fr.fn, in)
			return
		}
	}
}

func (it *Interp) trackedPrefix(s string) bool {
	for t := range it.Tracked {
		if strings.HasPrefix(t, s) || strings.HasPrefix(s, t) {
			return true
		}
	}
	return false
}

func fieldNameOf(fa *ssa.FieldAddr) string {
	t := fa.X.Type()
	if p, ok := t.Underlying().(*types.Pointer); ok {
		t = p.Elem()
	}
	if st, ok := t.Underlying().(*types.Struct); ok {
		return st.Field(fa.Field).Name()
	}
	return "?"
}

func binop(op token.Token, a, b AVal) AVal {
	if a.K == AInt && b.K == AInt && (a.S == "atleast" || b.S == "atleast") {
		// a stands for [a.I, +inf) (or b does): decide only what the lower bound decides
		if a.S == "atleast" && b.S == "atleast" {
			return AVal{}
		}
		flip := map[token.Token]token.Token{token.LSS: token.GTR, token.GTR: token.LSS, token.LEQ: token.GEQ, token.GEQ: token.LEQ, token.EQL: token.EQL, token.NEQ: token.NEQ}
		lo, k := a.I, b.I
		if b.S == "atleast" {
			lo, k = b.I, a.I
			if f, ok := flip[op]; ok {
				op = f
			} else if op != token.ADD {
				return AVal{}
			}
		}
		switch op { // [lo, inf) op k
		case token.GTR:
			if k < lo {
				return AVal{K: ABool, B: true}
			}
		case token.GEQ:
			if k <= lo {
				return AVal{K: ABool, B: true}
			}
		case token.LSS:
			if k <= lo {
				return AVal{K: ABool, B: false}
			}
		case token.LEQ:
			if k < lo {
				return AVal{K: ABool, B: false}
			}
		case token.EQL:
			if k < lo {
				return AVal{K: ABool, B: false}
			}
		case token.NEQ:
			if k < lo {
				return AVal{K: ABool, B: true}
			}
		case token.ADD:
			return AVal{K: AInt, I: a.I + b.I, S: "atleast"}
		}
		return AVal{}
	}
	if a.K == AInt && b.K == AInt {
		switch op {
		case token.ADD:
			return AVal{K: AInt, I: a.I + b.I}
		case token.SUB:
			return AVal{K: AInt, I: a.I - b.I}
		case token.REM:
			if b.I != 0 {
				return AVal{K: AInt, I: a.I % b.I}
			}
		case token.EQL:
			return AVal{K: ABool, B: a.I == b.I}
		case token.NEQ:
			return AVal{K: ABool, B: a.I != b.I}
		case token.LSS:
			return AVal{K: ABool, B: a.I < b.I}
		case token.LEQ:
			return AVal{K: ABool, B: a.I <= b.I}
		case token.GTR:
			return AVal{K: ABool, B: a.I > b.I}
		case token.GEQ:
			return AVal{K: ABool, B: a.I >= b.I}
		}
		return AVal{}
	}
	if a.K == ABool && b.K == ABool {
		switch op {
		case token.EQL:
			return AVal{K: ABool, B: a.B == b.B}
		case token.NEQ:
			return AVal{K: ABool, B: a.B != b.B}
		}
	}
	isNilish := func(v AVal) bool { return v.K == ANil || v.K == ANonNil }
	if isNilish(a) && isNilish(b) && (a.K == ANil || b.K == ANil) {
		eq := a.K == b.K
		switch op {
		case token.EQL:
			return AVal{K: ABool, B: eq}
		case token.NEQ:
			return AVal{K: ABool, B: !eq}
		}
	}
	// set/unset abstraction of tracked slots compared with nil
	if a.K == ABool && b.K == ANil {
		switch op {
		case token.EQL:
			return AVal{K: ABool, B: !a.B}
		case token.NEQ:
			return AVal{K: ABool, B: a.B}
		}
	}
	return AVal{}
}

func (it *Interp) doCall(fr *frame, call *ssa.Call, p *path, depth int, k func(p *path, res AVal, panicked bool)) {
	cc := call.Common()
	var args []AVal
	for _, a := range cc.Args {
		args = append(args, it.get(fr, a))
	}
	name := CalleeName(cc)
	short := name
	if i := strings.LastIndex(short, "."); i >= 0 {
		short = short[i+1:]
	}
	if cc.IsInvoke() {
		short = cc.Method.Name()
	}
	nres := cc.Signature().Results().Len()
	mk := func(vals ...AVal) AVal {
		if nres == 1 {
			return vals[0]
		}
		return AVal{K: ATuple, T: vals}
	}
	if it.Notable[short] {
		p.calls = append(p.calls, short)
	}
	if it.Hook != nil {
		if v, ok := it.Hook(it, cc, args); ok {
			k(p, v, false)
			return
		}
	}
	// atomics on tracked fields
	if strings.HasPrefix(name, "sync/atomic.Load") && len(args) == 1 && args[0].K == AFieldPtr {
		p.reads = append(p.reads, args[0].S)
		k(p, it.markCap(args[0].S, p.state[args[0].S]), false)
		return
	}
	if strings.HasPrefix(name, "sync/atomic.Add") && len(args) == 2 && args[0].K == AFieldPtr {
		cur := p.state[args[0].S]
		if cur.K == AInt && args[1].K == AInt {
			nv := AVal{K: AInt, I: it.capInt(args[0].S, cur.I+args[1].I)}
			p.state[args[0].S] = nv
			p.effects = append(p.effects, args[0].S+"="+nv.String())
			k(p, nv, false)
			return
		}
		it.fail("%s: atomic add on %s with unknown operands", fr.fn, args[0].S)
		return
	}
	if len(it.NilTracked) > 0 {
		if cc.IsInvoke() && it.get(fr, cc.Value).K == ANil {
			p.labels = append(p.labels, "nil."+short)
			k(p, AVal{}, true)
			return
		}
		if callee := StaticCallee(cc); callee != nil && callee.Blocks != nil && it.P.InModule(callee) {
			for i, a := range args {
				if a.K != ANil || i >= len(callee.Params) {
					continue
				}
				for _, in := range callee.Blocks[0].Instrs {
					if c2, ok := in.(ssa.CallInstruction); ok && c2.Common().IsInvoke() && c2.Common().Value == ssa.Value(callee.Params[i]) {
						p.labels = append(p.labels, "nil-arg."+short)
						k(p, AVal{}, true)
						return
					}
				}
			}
		}
	}
	if it.Fallible[short] {
		errIdx := nres - 1
		for _, okPath := range []bool{true, false} {
			p2 := p.fork()
			vals := make([]AVal, nres)
			for i := range vals {
				if okPath {
					vals[i] = AVal{K: ANonNil}
				} else {
					vals[i] = AVal{K: ANil}
				}
			}
			if okPath {
				vals[errIdx] = AVal{K: ANil}
				p2.labels = append(p2.labels, short+":ok")
			} else {
				vals[errIdx] = AVal{K: ANonNil}
				p2.labels = append(p2.labels, short+":fail")
			}
			k(p2, mk(vals...), false)
		}
		return
	}
	if it.BoolFork[short] {
		for _, b := range []bool{true, false} {
			p2 := p.fork()
			p2.labels = append(p2.labels, fmt.Sprintf("%s:%v", short, b))
			k(p2, AVal{K: ABool, B: b}, false)
		}
		return
	}
	// inline methods of the receiver type called on the receiver
	if callee := StaticCallee(cc); callee != nil && it.P.InModule(callee) && len(args) > 0 && args[0].K == ARecv && callee.Signature.Recv() != nil {
		it.call(callee, args, p, depth+1, func(p2 *path, rets []AVal, panicked bool) {
			if panicked {
				k(p2, AVal{}, true)
				return
			}
			if len(rets) == 1 {
				k(p2, rets[0], false)
			} else {
				k(p2, AVal{K: ATuple, T: rets}, false)
			}
		})
		return
	}
	// a call that receives the address of a tracked field could write it: refuse
	for _, a := range args {
		if a.K == AFieldPtr && it.trackedPrefix(a.S) {
			// reads through pointers are fine for known read-only callees; be strict otherwise
			if !readOnlyCallee[short] {
				it.fail("%s: address of tracked field %s passed to %s", fr.fn, a.S, name)
				return
			}
		}
	}
	// error constructors: errors.New / fmt.Errorf / errors.Errorf are never nil; errors.Wrap* is nil
	// exactly when the wrapped error is
	if nres == 1 {
		if nonNilCtors[name] {
			k(p, AVal{K: ANonNil}, false)
			return
		}
		switch name {
		case "github.com/pkg/errors.Wrapf", "github.com/pkg/errors.Wrap", "github.com/pkg/errors.WithStack", "github.com/pkg/errors.WithMessage", "github.com/pkg/errors.WithMessagef":
			if len(args) > 0 && (args[0].K == ANil || args[0].K == ANonNil) {
				k(p, AVal{K: args[0].K}, false)
				return
			}
		}
	}
	// opaque call
	vals := make([]AVal, nres)
	if nres == 0 {
		k(p, AVal{}, false)
		return
	}
	k(p, mk(vals...), false)
}

var readOnlyCallee = map[string]bool{"readInitDone": true, "verify": true, "Verify": true, "IsZero": true}
