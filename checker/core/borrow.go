package core

import (
	"fmt"
	"go/token"
	"go/types"
	"os"
	"strings"

	"golang.org/x/tools/go/ssa"
)

// Borrow analysis (E3): a byte buffer that a function merely borrows (the
// elements of Tell's IOVec, the Payload of a message handed to a receive
// callback) must not be written, and no alias of it may outlive the call.
//
// Forward alias propagation over SSA: an alias is a value that shares the
// borrowed bytes (a reslice, an element of a vector of aliases, a struct or
// vector that contains one). Copies cut the alias: append(dst []byte, a...),
// copy(dst, a), string(a), and calls whose summary says so.

type BorrowEvent struct {
	Kind string // "write", "escape", "unknown-call"
	Fn   *ssa.Function
	In   ssa.Instruction
	What string
}

type Borrow struct {
	P *Prog
	// NoRetain: external callees audited as "reads its byte arguments during the call and
	// keeps no reference afterwards" (one line of reason each).
	NoRetain     map[string]string
	NoRetainUsed map[string]int
	// SyncHandOff: module functions that hand a message to a callback and return only
	// after it finished (the hubs): passing an alias is a loan, not an escape.
	SyncHandOff map[*ssa.Function]bool
	memo        map[borrowKey]*borrowSummary
	Visited     map[*ssa.Function]bool
	// resIdx: for calls to module functions, which results alias the buffer (nil = all)
	resIdx map[*ssa.Call]map[int]bool
}

type borrowKey struct {
	fn  *ssa.Function
	idx int
}

type borrowSummary struct {
	events      []BorrowEvent
	resultAlias map[int]bool
	done        bool
}

func NewBorrow(p *Prog) *Borrow {
	return &Borrow{P: p, NoRetain: map[string]string{}, NoRetainUsed: map[string]int{}, SyncHandOff: map[*ssa.Function]bool{}, memo: map[borrowKey]*borrowSummary{}, Visited: map[*ssa.Function]bool{}, resIdx: map[*ssa.Call]map[int]bool{}}
}

func isByteSlice(t types.Type) bool {
	s, ok := t.Underlying().(*types.Slice)
	if !ok {
		return false
	}
	b, ok := s.Elem().Underlying().(*types.Basic)
	return ok && b.Kind() == types.Byte
}

// AnalyseParam: fn's parameter idx is (or contains) a borrowed buffer.
func (b *Borrow) AnalyseParam(fn *ssa.Function, idx int) []BorrowEvent {
	return b.summary(fn, idx).events
}

func (b *Borrow) summary(fn *ssa.Function, idx int) *borrowSummary {
	k := borrowKey{fn, idx}
	if s, ok := b.memo[k]; ok {
		return s
	}
	s := &borrowSummary{resultAlias: map[int]bool{}}
	b.memo[k] = s
	if fn.Blocks == nil || idx >= len(fn.Params) {
		s.done = true
		return s
	}
	b.Visited[fn] = true
	seeds := map[ssa.Value]bool{fn.Params[idx]: true}
	b.run(fn, seeds, s)
	s.done = true
	return s
}

// AnalyseSeeds: arbitrary seed values inside fn (e.g. the Payload field of a callback's message).
func (b *Borrow) AnalyseSeeds(fn *ssa.Function, seeds map[ssa.Value]bool) []BorrowEvent {
	s := &borrowSummary{resultAlias: map[int]bool{}}
	b.Visited[fn] = true
	b.run(fn, seeds, s)
	return s.events
}

func (b *Borrow) run(fn *ssa.Function, seeds map[ssa.Value]bool, s *borrowSummary) {
	alias := map[ssa.Value]bool{}
	cells := map[ssa.Value]bool{} // local cells (Alloc) that hold an alias
	for v := range seeds {
		alias[v] = true
	}
	add := func(v ssa.Value) bool {
		if v == nil || alias[v] {
			return false
		}
		alias[v] = true
		return true
	}
	ev := func(kind string, in ssa.Instruction, what string) {
		s.events = append(s.events, BorrowEvent{kind, fn, in, what})
	}
	localCell := func(addr ssa.Value) *ssa.Alloc {
		// an address inside a local (non-escaping is not checked here; escaping of the cell
		// itself shows up when the cell or a load of it reaches a sink)
		for {
			switch x := addr.(type) {
			case *ssa.Alloc:
				return x
			case *ssa.FieldAddr:
				addr = x.X
			case *ssa.IndexAddr:
				addr = x.X
			default:
				return nil
			}
		}
	}
	instrs := AllInstrs(fn)
	for changed := true; changed; {
		changed = false
		for _, in := range instrs {
			switch x := in.(type) {
			case *ssa.Phi:
				for _, e := range x.Edges {
					if alias[e] && add(x) {
						changed = true
					}
				}
			case *ssa.Slice:
				if alias[x.X] && add(x) {
					changed = true
				}
			case *ssa.ChangeType:
				if alias[x.X] && add(x) {
					changed = true
				}
			case *ssa.MakeInterface:
				if alias[x.X] && add(x) {
					changed = true
				}
			case *ssa.ChangeInterface:
				if alias[x.X] && add(x) {
					changed = true
				}
			case *ssa.TypeAssert:
				if alias[x.X] && add(x) {
					changed = true
				}
			case *ssa.Convert:
				// []byte <-> named byte slices keep the alias; string(b) copies
				if alias[x.X] && isByteSlice(x.Type()) && add(x) {
					changed = true
				}
			case *ssa.IndexAddr:
				// address of an element of a vector of aliases
				if alias[x.X] && add(x) {
					changed = true
				}
			case *ssa.Index:
				if alias[x.X] && add(x) {
					changed = true
				}
			case *ssa.Field:
				if alias[x.X] && (isByteSlice(x.Type()) || !isAddrLike(x.Type())) && carriesBytes(x.Type()) && add(x) {
					changed = true
				}
			case *ssa.FieldAddr:
				if (alias[x.X] || cells[x.X]) && carriesBytes(derefT(x.Type())) {
					if cells[x.X] {
						if !cells[x] {
							cells[x] = true
							changed = true
						}
					} else if add(x) {
						changed = true
					}
				}
			case *ssa.UnOp:
				if x.Op == token.MUL {
					if (alias[x.X] || cells[x.X]) && carriesBytes(x.Type()) && add(x) {
						changed = true
					}
				}
			case *ssa.Range:
				if alias[x.X] && add(x) {
					changed = true
				}
			case *ssa.Next:
				if alias[x.Iter] && add(x) {
					changed = true
				}
			case *ssa.Extract:
				if alias[x.Tuple] && carriesBytes(x.Type()) {
					if c, ok := x.Tuple.(*ssa.Call); ok {
						if idx, ok := b.resIdx[c]; ok && !idx[x.Index] {
							continue
						}
						if _, ok := b.resIdx[c]; !ok && isErrorType(x.Type()) {
							continue
						}
					}
					if add(x) {
						changed = true
					}
				}
			case *ssa.Store:
				if !alias[x.Val] {
					continue
				}
				if c := localCell(x.Addr); c != nil {
					if !cells[c] {
						cells[c] = true
						changed = true
					}
					if !cells[x.Addr] {
						cells[x.Addr] = true
						changed = true
					}
				}
			case *ssa.MakeClosure:
				for i, bnd := range x.Bindings {
					if !alias[bnd] && !cells[bnd] {
						continue
					}
					// the literal sees the alias through its free variable: analyse it there
					lit, _ := x.Fn.(*ssa.Function)
					if lit == nil || i >= len(lit.FreeVars) {
						continue
					}
					key := borrowKey{lit, -1 - i}
					if _, ok := b.memo[key]; ok {
						continue
					}
					sub := &borrowSummary{resultAlias: map[int]bool{}}
					b.memo[key] = sub
					b.Visited[lit] = true
					seedsL := map[ssa.Value]bool{}
					if cells[bnd] {
						// the free variable is the address of the cell: loads of it are aliases
						for _, ref := range *lit.FreeVars[i].Referrers() {
							if u, ok := ref.(*ssa.UnOp); ok && u.Op == token.MUL {
								seedsL[u] = true
							}
						}
					} else {
						seedsL[lit.FreeVars[i]] = true
					}
					b.run(lit, seedsL, sub)
					s.events = append(s.events, sub.events...)
					changed = true
				}
			case *ssa.Call:
				if b.callAliases(fn, x, alias, cells, s, ev) && add(x) {
					changed = true
				}
			}
		}
	}
	// sinks
	reported := map[ssa.Instruction]bool{}
	for _, in := range instrs {
		if reported[in] {
			continue
		}
		switch x := in.(type) {
		case *ssa.Store:
			// write THROUGH an alias: *(&alias[i]) = v
			if ia, ok := x.Addr.(*ssa.IndexAddr); ok && alias[ia.X] && isByteSlice(ia.X.Type()) {
				ev("write", in, "a byte of the borrowed buffer is overwritten")
			}
			if !alias[x.Val] {
				continue
			}
			if localCell(x.Addr) != nil {
				continue
			}
			ev("escape", in, "an alias of the borrowed buffer is stored in memory that outlives the call ("+describeAddr(x.Addr)+")")
		case *ssa.MapUpdate:
			if alias[x.Value] || alias[x.Key] {
				ev("escape", in, "an alias of the borrowed buffer is stored in a map")
			}
		case *ssa.Send:
			if alias[x.X] {
				ev("escape", in, "an alias of the borrowed buffer is sent on a channel")
			}
		case *ssa.Select:
			for _, st := range x.States {
				if st.Dir == types.SendOnly && alias[st.Send] {
					ev("escape", in, "an alias of the borrowed buffer is sent on a channel")
				}
			}
		case *ssa.Go:
			for _, a := range x.Call.Args {
				if alias[a] {
					ev("escape", in, "an alias of the borrowed buffer is passed to a goroutine that is not joined")
				}
			}
			if mc, ok := x.Call.Value.(*ssa.MakeClosure); ok {
				for _, bnd := range mc.Bindings {
					if alias[bnd] || cells[bnd] {
						ev("escape", in, "a goroutine that is not joined captures an alias of the borrowed buffer")
					}
				}
			}
		case *ssa.Return:
			for i, res := range x.Results {
				if alias[res] {
					s.resultAlias[i] = true
					if os.Getenv("P2PVERIF_BORROW_DEBUG") != "" {
						fmt.Fprintf(os.Stderr, "borrow: %s returns alias %s = %s\n", FnName(fn), res.Name(), res)
					}
				}
			}
		}
	}
}

func derefT(t types.Type) types.Type {
	if p, ok := t.Underlying().(*types.Pointer); ok {
		return p.Elem()
	}
	return t
}

func isAddrLike(t types.Type) bool { return false }

// carriesBytes: a type whose values can contain a []byte (byte slices, vectors of them,
// structs with such fields, interfaces).
func carriesBytes(t types.Type) bool {
	return carriesBytesD(t, 0)
}

func carriesBytesD(t types.Type, d int) bool {
	if d > 4 {
		return false
	}
	switch u := t.Underlying().(type) {
	case *types.Slice:
		if isByteSlice(t) {
			return true
		}
		return carriesBytesD(u.Elem(), d+1)
	case *types.Array:
		return carriesBytesD(u.Elem(), d+1)
	case *types.Struct:
		for i := 0; i < u.NumFields(); i++ {
			if carriesBytesD(u.Field(i).Type(), d+1) {
				return true
			}
		}
	case *types.Pointer:
		return carriesBytesD(u.Elem(), d+1)
	case *types.Interface:
		return true
	case *types.Tuple:
		for i := 0; i < u.Len(); i++ {
			if carriesBytesD(u.At(i).Type(), d+1) {
				return true
			}
		}
	}
	return false
}

func describeAddr(a ssa.Value) string {
	switch x := a.(type) {
	case *ssa.FieldAddr:
		f, _ := FieldOfAddr(x)
		if f != nil {
			return "field " + f.Name()
		}
	case *ssa.IndexAddr:
		return "an element of a shared slice"
	case *ssa.Global:
		return "global " + x.Name()
	}
	return "heap"
}

// callAliases handles a call that receives aliases; returns true when the call's result aliases the buffer.
func (b *Borrow) callAliases(fn *ssa.Function, c *ssa.Call, alias, cells map[ssa.Value]bool, s *borrowSummary, ev func(string, ssa.Instruction, string)) bool {
	cc := c.Common()
	var idxs []int
	for i, a := range cc.Args {
		if alias[a] || cells[a] {
			idxs = append(idxs, i)
		}
	}
	recvAlias := cc.IsInvoke() && alias[cc.Value]
	if len(idxs) == 0 && !recvAlias {
		return false
	}
	name := CalleeName(cc)
	// a callback literal passed alongside the borrowed bytes may be handed them by the callee
	// (mbapp's fast path calls fn(body)): its buffer parameters carry the same obligation
	for _, a := range cc.Args {
		var lit *ssa.Function
		switch y := a.(type) {
		case *ssa.MakeClosure:
			lit, _ = y.Fn.(*ssa.Function)
		case *ssa.Function:
			lit = y
		}
		if lit == nil || !b.P.InModule(lit) {
			continue
		}
		for i, prm := range lit.Params {
			if !isBufType(prm.Type()) {
				continue
			}
			if _, seen := b.memo[borrowKey{lit, i}]; seen {
				continue
			}
			sub := b.summary(lit, i)
			s.events = append(s.events, sub.events...)
		}
	}
	if bi, ok := cc.Value.(*ssa.Builtin); ok {
		switch bi.Name() {
		case "append":
			// append(dst, src...): bytes appended to a []byte are copied; elements appended to a
			// vector of buffers keep aliasing; appending TO an alias may write into its spare capacity
			if alias[cc.Args[0]] && isByteSlice(cc.Args[0].Type()) {
				if sl, ok := cc.Args[0].(*ssa.Slice); !ok || sl.Max == nil {
					ev("write", c, "append to an alias of the borrowed buffer writes into its storage (from the start for alias[:0], into spare capacity otherwise)")
				}
				return true
			}
			if isByteSlice(c.Type()) {
				return alias[cc.Args[0]]
			}
			return true
		case "copy":
			if alias[cc.Args[0]] && isByteSlice(cc.Args[0].Type()) {
				ev("write", c, "copy into an alias of the borrowed buffer")
			}
			return false
		case "len", "cap", "print", "println":
			return false
		}
		return false
	}
	if cc.IsInvoke() {
		switch cc.Method.Name() {
		case "Tell", "Ask", "Receive", "ServeAsk":
			// handed down synchronously to an inner swarm, which carries the same obligation
			return false
		case "Write", "WriteTo", "Read":
			return false // io contracts: the callee must not retain p
		}
		if strings.HasSuffix(cc.Value.Type().String(), "noise.Cipher") {
			// Encrypt/Decrypt(out, n, ad, text) append to out and only read ad and text
			if len(cc.Args) > 0 && alias[cc.Args[0]] {
				ev("write", c, "the cipher appends its output to an alias of the borrowed buffer")
			}
			return false
		}
		ev("unknown-call", c, "an alias of the borrowed buffer is passed to interface method "+cc.Method.Name()+" of "+cc.Value.Type().String())
		return false
	}
	callee := StaticCallee(cc)
	if callee == nil {
		// function value: the user callback (a loan) or something unknown
		if IsParamFuncCallThrough(cc) || IsParamFuncCall(cc) {
			// a loan; what it returns may be a sub-slice of what it was lent (demux functions)
			b.resIdx[c] = map[int]bool{}
			if t, ok := c.Type().(*types.Tuple); ok {
				for i := 0; i < t.Len(); i++ {
					if isBufType(t.At(i).Type()) {
						b.resIdx[c][i] = true
					}
				}
				return true
			}
			return isBufType(c.Type())
		}
		ev("unknown-call", c, "an alias of the borrowed buffer is passed to a function value")
		return false
	}
	if b.SyncHandOff[callee] {
		return false
	}
	if b.P.InModule(callee) {
		res := false
		for _, i := range idxs {
			sub := b.summary(callee, i)
			if !sub.done {
				continue // recursion
			}
			s.events = append(s.events, sub.events...)
			for k := range sub.resultAlias {
				res = true
				if b.resIdx[c] == nil {
					b.resIdx[c] = map[int]bool{}
				}
				b.resIdx[c][k] = true
			}
		}
		return res
	}
	if _, ok := b.NoRetain[name]; ok {
		b.NoRetainUsed[name]++
		return false
	}
	// pure readers by package
	for _, pfx := range []string{"bytes.", "strings.", "encoding/binary.", "encoding/hex.", "unicode/utf8.", "crypto/", "golang.org/x/crypto/", "hash/", "encoding/base64."} {
		if strings.HasPrefix(strings.TrimPrefix(name, "(*"), pfx) || strings.HasPrefix(strings.TrimPrefix(name, "("), pfx) {
			if strings.HasPrefix(name, "bytes.SplitN") || strings.HasPrefix(name, "bytes.Split") || strings.HasPrefix(name, "bytes.Trim") || strings.HasPrefix(name, "bytes.Fields") {
				return true // sub-slices of the input
			}
			return false
		}
	}
	ev("unknown-call", c, fmt.Sprintf("an alias of the borrowed buffer is passed to %s, which is not in the audited no-retain table", name))
	return false
}

func isZeroLenReslice(v ssa.Value) bool {
	sl, ok := v.(*ssa.Slice)
	if !ok || sl.High == nil {
		return false
	}
	k, isK := ConstInt(sl.High)
	return isK && k == 0
}

func isErrorType(t types.Type) bool {
	return types.Identical(t, types.Universe.Lookup("error").Type())
}

// isBufType: a byte slice or a vector of byte slices.
func isBufType(t types.Type) bool {
	if isByteSlice(t) {
		return true
	}
	if sl, ok := t.Underlying().(*types.Slice); ok {
		return isByteSlice(sl.Elem())
	}
	return false
}
