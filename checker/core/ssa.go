package core

import (
	"go/constant"
	"go/token"
	"go/types"
	"strings"

	"golang.org/x/tools/go/ssa"
)

// ---------- instruction enumeration ----------

func AllInstrs(fn *ssa.Function) []ssa.Instruction {
	var out []ssa.Instruction
	for _, b := range fn.Blocks {
		out = append(out, b.Instrs...)
	}
	return out
}

// WithAnons returns fn followed by all function literals nested in it.
func WithAnons(fn *ssa.Function) []*ssa.Function {
	out := []*ssa.Function{fn}
	for _, a := range fn.AnonFuncs {
		out = append(out, WithAnons(a)...)
	}
	return out
}

// ---------- callee resolution ----------

// StaticCallee returns the statically resolved callee with generic
// instantiations mapped back to their origin (the generic body).
func StaticCallee(c *ssa.CallCommon) *ssa.Function {
	f := c.StaticCallee()
	if f == nil {
		return nil
	}
	if o := f.Origin(); o != nil {
		return o
	}
	return f
}

// CalleeObj returns the *types.Func called (static function, method, or the
// interface method of an invoke), generic-origin normalised; nil for calls of
// function values.
func CalleeObj(c *ssa.CallCommon) *types.Func {
	if c.IsInvoke() {
		return c.Method.Origin()
	}
	if f := c.StaticCallee(); f != nil {
		if o := f.Origin(); o != nil {
			f = o
		}
		if obj, ok := f.Object().(*types.Func); ok && obj != nil {
			return obj.Origin()
		}
	}
	return nil
}

// IsCallToObj reports whether c calls obj (by object identity, after
// generic-origin normalisation).
func IsCallToObj(c *ssa.CallCommon, obj *types.Func) bool {
	if obj == nil {
		return false
	}
	o := CalleeObj(c)
	return o != nil && o == obj.Origin()
}

// IsCallToFn reports whether c statically calls fn.
func IsCallToFn(c *ssa.CallCommon, fn *ssa.Function) bool {
	return fn != nil && StaticCallee(c) == fn
}

// CalleeName returns pkgpath.Name or (pkgpath.Type).Name of the called
// object, "" if unresolved.
func CalleeName(c *ssa.CallCommon) string {
	o := CalleeObj(c)
	if o == nil {
		if b, ok := c.Value.(*ssa.Builtin); ok {
			return "builtin." + b.Name()
		}
		return ""
	}
	return o.FullName()
}

// IsBuiltin reports whether c calls the named builtin.
func IsBuiltin(c *ssa.CallCommon, name string) bool {
	b, ok := c.Value.(*ssa.Builtin)
	return ok && b.Name() == name
}

// Calls returns the call instructions (call, go, defer) of fn matching pred.
func Calls(fn *ssa.Function, pred func(ssa.CallInstruction) bool) []ssa.CallInstruction {
	var out []ssa.CallInstruction
	for _, in := range AllInstrs(fn) {
		if ci, ok := in.(ssa.CallInstruction); ok && pred(ci) {
			out = append(out, ci)
		}
	}
	return out
}

func CallsToName(fn *ssa.Function, fullName string) []ssa.CallInstruction {
	return Calls(fn, func(ci ssa.CallInstruction) bool { return CalleeName(ci.Common()) == fullName })
}

func CallsToFn(fn *ssa.Function, callee *ssa.Function) []ssa.CallInstruction {
	return Calls(fn, func(ci ssa.CallInstruction) bool { return IsCallToFn(ci.Common(), callee) })
}

// ---------- value peeling ----------

// Peel strips value-preserving wrappers (conversions, interface boxing,
// extraction of a single result is NOT stripped).
func Peel(v ssa.Value) ssa.Value {
	for {
		switch x := v.(type) {
		case *ssa.ChangeType:
			v = x.X
		case *ssa.Convert:
			v = x.X
		case *ssa.ChangeInterface:
			v = x.X
		case *ssa.MakeInterface:
			v = x.X
		default:
			return v
		}
	}
}

// CallResult: if v is (a wrapper around) the idx-th result of a call, returns it.
func CallResult(v ssa.Value) (call *ssa.Call, idx int, ok bool) {
	v = Peel(v)
	switch x := v.(type) {
	case *ssa.Call:
		return x, 0, true
	case *ssa.Extract:
		if c, ok := x.Tuple.(*ssa.Call); ok {
			return c, x.Index, true
		}
	}
	return nil, 0, false
}

func IsNilConst(v ssa.Value) bool {
	c, ok := v.(*ssa.Const)
	return ok && c.Value == nil && !isBasicType(c.Type())
}

func isBasicType(t types.Type) bool {
	_, ok := t.Underlying().(*types.Basic)
	return ok
}

// ConstInt returns the integer value of a constant.
func ConstInt(v ssa.Value) (int64, bool) {
	c, ok := Peel(v).(*ssa.Const)
	if !ok || c.Value == nil {
		return 0, false
	}
	if c.Value.Kind() != constant.Int {
		return 0, false
	}
	i, exact := constant.Int64Val(c.Value)
	if !exact {
		u, ex2 := constant.Uint64Val(c.Value)
		if ex2 {
			return int64(u), true
		}
		return 0, false
	}
	return i, true
}

func ConstBool(v ssa.Value) (bool, bool) {
	c, ok := v.(*ssa.Const)
	if !ok || c.Value == nil || c.Value.Kind() != constant.Bool {
		return false, false
	}
	return constant.BoolVal(c.Value), true
}

// NilCheck decomposes `x == nil` / `x != nil`.
func NilCheck(v ssa.Value) (x ssa.Value, isEq bool, ok bool) {
	b, k := v.(*ssa.BinOp)
	if !k || (b.Op != token.EQL && b.Op != token.NEQ) {
		return nil, false, false
	}
	switch {
	case IsNilConst(b.Y):
		return b.X, b.Op == token.EQL, true
	case IsNilConst(b.X):
		return b.Y, b.Op == token.EQL, true
	}
	return nil, false, false
}

// FieldOfAddr: if v is &x.f (FieldAddr) returns the field object and base.
func FieldOfAddr(v ssa.Value) (*types.Var, ssa.Value) {
	fa, ok := v.(*ssa.FieldAddr)
	if !ok {
		return nil, nil
	}
	st := structOf(fa.X.Type())
	if st == nil {
		return nil, nil
	}
	return originVar(st.Field(fa.Field)), fa.X
}

// FieldRead: if v reads a struct field (load of FieldAddr, or Field of a
// struct value) returns the field object and the base value.
func FieldRead(v ssa.Value) (*types.Var, ssa.Value) {
	switch x := v.(type) {
	case *ssa.UnOp:
		if x.Op == token.MUL {
			return FieldOfAddr(x.X)
		}
	case *ssa.Field:
		st := structOf(x.X.Type())
		if st == nil {
			return nil, nil
		}
		return originVar(st.Field(x.Field)), x.X
	}
	return nil, nil
}

func originVar(v *types.Var) *types.Var {
	if v == nil {
		return nil
	}
	return v.Origin()
}

func structOf(t types.Type) *types.Struct {
	if p, ok := t.Underlying().(*types.Pointer); ok {
		t = p.Elem()
	}
	st, _ := t.Underlying().(*types.Struct)
	return st
}

// SameField compares field objects modulo generic instantiation.
func SameField(a, b *types.Var) bool {
	return a != nil && b != nil && a.Origin() == b.Origin()
}

// StoresToField returns the stores in fn whose address is a FieldAddr of field.
func StoresToField(fn *ssa.Function, field *types.Var) []*ssa.Store {
	var out []*ssa.Store
	for _, in := range AllInstrs(fn) {
		if st, ok := in.(*ssa.Store); ok {
			if f, _ := FieldOfAddr(st.Addr); SameField(f, field) {
				out = append(out, st)
			}
		}
	}
	return out
}

// ReadsOfField returns the instructions in fn that load field (via FieldAddr
// load or Field extraction).
func ReadsOfField(fn *ssa.Function, field *types.Var) []ssa.Instruction {
	var out []ssa.Instruction
	for _, in := range AllInstrs(fn) {
		if v, ok := in.(ssa.Value); ok {
			if f, _ := FieldRead(v); SameField(f, field) {
				out = append(out, in)
			}
		}
	}
	return out
}

// FieldAddrsOf returns every FieldAddr of field in fn.
func FieldAddrsOf(fn *ssa.Function, field *types.Var) []*ssa.FieldAddr {
	var out []*ssa.FieldAddr
	for _, in := range AllInstrs(fn) {
		if fa, ok := in.(*ssa.FieldAddr); ok {
			if f, _ := FieldOfAddr(fa); SameField(f, field) {
				out = append(out, fa)
			}
		}
	}
	return out
}

// ---------- result slots (defer-spilled returns) ----------

// ReturnValues returns, for the given Return instruction and result index, the
// set of values that may be returned. It looks through the named-result spill
// go/ssa introduces for functions with defer/recover: `return *t0` where t0 is
// an Alloc is resolved to the stores that reach this return.
func ReturnValues(ret *ssa.Return, idx int) []ssa.Value {
	if idx >= len(ret.Results) {
		return nil
	}
	v := ret.Results[idx]
	if u, ok := v.(*ssa.UnOp); ok && u.Op == token.MUL {
		if a, ok := u.X.(*ssa.Alloc); ok {
			if CellWrittenByClosure(a) {
				// a function literal that captured the cell stores to it: the stores in this
				// function alone do not determine the value
				return []ssa.Value{v}
			}
			stores := reachingStores(a, u)
			if len(stores) > 0 {
				var out []ssa.Value
				for _, s := range stores {
					out = append(out, s.Val)
				}
				return out
			}
		}
	}
	return []ssa.Value{v}
}

// reachingStores: stores to alloc a that may reach instruction at (backward
// search over the CFG, stopping at the first store on each path). If the
// entry is reached with no store, a nil entry is NOT added (zero value).
func reachingStores(a *ssa.Alloc, at ssa.Instruction) []*ssa.Store {
	var out []*ssa.Store
	seenOut := map[*ssa.Store]bool{}
	type key struct {
		b *ssa.BasicBlock
	}
	visited := map[*ssa.BasicBlock]bool{}
	var scan func(b *ssa.BasicBlock, from int)
	scan = func(b *ssa.BasicBlock, from int) {
		for i := from; i >= 0; i-- {
			if st, ok := b.Instrs[i].(*ssa.Store); ok && st.Addr == a {
				if !seenOut[st] {
					seenOut[st] = true
					out = append(out, st)
				}
				return
			}
		}
		for _, p := range b.Preds {
			if !visited[p] {
				visited[p] = true
				scan(p, len(p.Instrs)-1)
			}
		}
	}
	b := at.Block()
	idx := indexIn(b, at)
	scan(b, idx-1)
	return out
}

func indexIn(b *ssa.BasicBlock, in ssa.Instruction) int {
	for i, x := range b.Instrs {
		if x == in {
			return i
		}
	}
	return -1
}

// Returns lists the Return instructions of fn.
func Returns(fn *ssa.Function) []*ssa.Return {
	var out []*ssa.Return
	for _, b := range fn.Blocks {
		if len(b.Instrs) == 0 {
			continue
		}
		// the synthetic recover block runs only after a recovered panic: it is a real exit only
		// for functions that defer a recover()
		if b == fn.Recover && !Recovers(fn) {
			continue
		}
		if r, ok := b.Instrs[len(b.Instrs)-1].(*ssa.Return); ok {
			out = append(out, r)
		}
	}
	return out
}

// ---------- CFG reachability with edge cuts (guard engine, E2) ----------

// CutFunc decides whether the CFG edge b -> b.Succs[i] is deleted.
type CutFunc func(b *ssa.BasicBlock, i int) bool

// Reach computes the instructions reachable by executing forward from just
// after `from` (or from the function entry when from == nil, fn must then be
// given) without crossing a cut edge. An instruction for which stop returns
// true is included in the result but execution does not continue past it.
func Reach(fn *ssa.Function, from ssa.Instruction, cut CutFunc, stop func(ssa.Instruction) bool) map[ssa.Instruction]bool {
	reached := map[ssa.Instruction]bool{}
	entered := map[*ssa.BasicBlock]bool{}
	var walk func(b *ssa.BasicBlock, start int)
	walk = func(b *ssa.BasicBlock, start int) {
		for i := start; i < len(b.Instrs); i++ {
			in := b.Instrs[i]
			reached[in] = true
			if stop != nil && stop(in) {
				return
			}
		}
		for i, s := range b.Succs {
			if cut != nil && cut(b, i) {
				continue
			}
			if !entered[s] {
				entered[s] = true
				walk(s, 0)
			}
		}
	}
	if from == nil {
		if len(fn.Blocks) == 0 {
			return reached
		}
		entered[fn.Blocks[0]] = true
		walk(fn.Blocks[0], 0)
		if fn.Recover != nil && !entered[fn.Recover] {
			entered[fn.Recover] = true
			walk(fn.Recover, 0)
		}
		return reached
	}
	b := from.Block()
	walk(b, indexIn(b, from)+1)
	// a function that recovers from panics can leave through its recover block from anywhere
	if fn.Recover != nil && !entered[fn.Recover] && Recovers(fn) {
		entered[fn.Recover] = true
		walk(fn.Recover, 0)
	}
	return reached
}

// Recovers reports whether fn defers a function (literal or module function, two levels deep) that
// calls recover(): only then is go/ssa's synthetic recover block — which returns the named results
// as they are at the time of the panic — a real exit of fn.
func Recovers(fn *ssa.Function) bool {
	var calls func(f *ssa.Function, d int) bool
	calls = func(f *ssa.Function, d int) bool {
		if f == nil || f.Blocks == nil || d > 2 {
			return false
		}
		for _, in := range AllInstrs(f) {
			ci, ok := in.(ssa.CallInstruction)
			if !ok {
				continue
			}
			if bi, ok := ci.Common().Value.(*ssa.Builtin); ok && bi.Name() == "recover" {
				return true
			}
			if g := ci.Common().StaticCallee(); g != nil && d < 2 && calls(g, d+1) {
				return true
			}
		}
		return false
	}
	for _, in := range AllInstrs(fn) {
		d, ok := in.(*ssa.Defer)
		if !ok {
			continue
		}
		g := d.Common().StaticCallee()
		if g == nil {
			g = ClosureFn(d.Common().Value)
		}
		if calls(g, 0) {
			return true
		}
	}
	return false
}

// ReachAt is Reach starting AT instruction `at` (inclusive): at itself is
// reached and subject to stop.
func ReachAt(fn *ssa.Function, at ssa.Instruction, cut CutFunc, stop func(ssa.Instruction) bool) map[ssa.Instruction]bool {
	if stop != nil && stop(at) {
		return map[ssa.Instruction]bool{at: true}
	}
	m := Reach(fn, at, cut, stop)
	m[at] = true
	return m
}

// GuardPred classifies an If condition (already stripped of negations):
// +1 if the guarded fact holds on the true edge, -1 if it holds on the false
// edge, 0 if the condition is unrelated.
type GuardPred func(cond ssa.Value) int

// StripNot peels `!` from a condition.
func StripNot(v ssa.Value) (ssa.Value, bool) {
	neg := false
	for {
		u, ok := v.(*ssa.UnOp)
		if !ok || u.Op != token.NOT {
			return v, neg
		}
		v = u.X
		neg = !neg
	}
}

// CutWhere deletes every edge on which the guarded fact is known to hold.
func CutWhere(pred GuardPred) CutFunc {
	return func(b *ssa.BasicBlock, i int) bool {
		if len(b.Instrs) == 0 {
			return false
		}
		iff, ok := b.Instrs[len(b.Instrs)-1].(*ssa.If)
		if !ok {
			return false
		}
		c, neg := StripNot(iff.Cond)
		s := pred(c)
		if s == 0 {
			// short-circuit chains: `a && b` is a phi of the constant false (a failed) and b;
			// its true edge implies b. `a || b` is a phi of the constant true and b; its false
			// edge implies !b.
			if ph, ok := c.(*ssa.Phi); ok {
				var rest []ssa.Value
				allFalse, allTrue := true, true
				for _, e := range ph.Edges {
					if bv, isK := ConstBool(e); isK {
						if bv {
							allFalse = false
						} else {
							allTrue = false
						}
						continue
					}
					rest = append(rest, e)
				}
				if len(rest) >= 2 && len(rest) == len(ph.Edges) {
					// a flag assigned on every branch from a guard-like value (`ok = f(x)` in
					// one branch, `ok = g(x)` in the other): the flag being true implies the
					// guard when every contribution is a guard
					all := 0
					for _, e := range rest {
						ec, eneg := StripNot(e)
						es := pred(ec)
						if eneg {
							es = -es
						}
						switch {
						case es > 0 && all >= 0:
							all = 1
						case es < 0 && all <= 0:
							all = -1
						default:
							all = 2
						}
						if all == 2 {
							break
						}
					}
					if all == 1 || all == -1 {
						s = all
					}
				}
				if len(rest) == 1 {
					rc, rneg := StripNot(rest[0])
					rs := pred(rc)
					if rneg {
						rs = -rs
					}
					if allFalse && rs > 0 { // &&: true edge implies the conjunct
						s = 1
					}
					if allTrue && rs < 0 { // ||: false edge implies the negated disjunct
						s = -1
					}
				}
			}
		}
		if neg {
			s = -s
		}
		return (s > 0 && i == 0) || (s < 0 && i == 1)
	}
}

// CutAny combines cuts: an edge is deleted if any of the cuts deletes it.
func CutAny(cs ...CutFunc) CutFunc {
	return func(b *ssa.BasicBlock, i int) bool {
		for _, c := range cs {
			if c != nil && c(b, i) {
				return true
			}
		}
		return false
	}
}

// GuardEdges counts the edges a cut removes in fn (used to detect a guard
// table that matches nothing).
func GuardEdges(fn *ssa.Function, cut CutFunc) int {
	n := 0
	for _, b := range fn.Blocks {
		for i := range b.Succs {
			if cut(b, i) {
				n++
			}
		}
	}
	return n
}

// GuardedFromEntry reports whether site is unreachable from fn's entry after
// removing the cut edges.
func GuardedFromEntry(fn *ssa.Function, site ssa.Instruction, cut CutFunc) bool {
	return !Reach(fn, nil, cut, nil)[site]
}

// ErrNilGuard: the fact "the error result of a call matching m is nil".
// cond is `e == nil` (+1) or `e != nil` (-1) with e the error result of the call.
func ErrNilGuard(m func(*ssa.CallCommon) bool) GuardPred {
	return func(cond ssa.Value) int {
		x, isEq, ok := NilCheck(cond)
		if !ok {
			return 0
		}
		call, _, ok := CallResult(x)
		if !ok || !m(call.Common()) {
			return 0
		}
		if !types.Identical(x.Type(), errorType) && !isErrorLike(x.Type()) {
			return 0
		}
		if isEq {
			return 1
		}
		return -1
	}
}

var errorType = types.Universe.Lookup("error").Type()

func isErrorLike(t types.Type) bool {
	return types.Identical(t, errorType)
}

func IsErrorType(t types.Type) bool { return types.Identical(t, errorType) }

// BoolCallGuard: the fact "call matching m returned want".
func BoolCallGuard(m func(*ssa.CallCommon) bool, want bool) GuardPred {
	return func(cond ssa.Value) int {
		call, _, ok := CallResult(cond)
		if !ok || !m(call.Common()) {
			return 0
		}
		if b, ok := cond.Type().Underlying().(*types.Basic); !ok || b.Kind() != types.Bool {
			return 0
		}
		if want {
			return 1
		}
		return -1
	}
}

// ---------- backward slice (origins, E3) ----------

// BackSlice walks the operands that v's value may derive from. visit is called
// once per value; returning false stops the walk below that value.
// Loads from local Allocs are resolved to all stores to that Alloc
// (flow-insensitive); free variables are resolved to their bindings.
func BackSlice(v ssa.Value, visit func(ssa.Value) bool) {
	seen := map[ssa.Value]bool{}
	var w func(v ssa.Value)
	w = func(v ssa.Value) {
		if v == nil || seen[v] {
			return
		}
		seen[v] = true
		if !visit(v) {
			return
		}
		switch x := v.(type) {
		case *ssa.Phi:
			for _, e := range x.Edges {
				w(e)
			}
		case *ssa.Extract:
			w(x.Tuple)
		case *ssa.ChangeType:
			w(x.X)
		case *ssa.Convert:
			w(x.X)
		case *ssa.ChangeInterface:
			w(x.X)
		case *ssa.MakeInterface:
			w(x.X)
		case *ssa.SliceToArrayPointer:
			w(x.X)
		case *ssa.Slice:
			w(x.X)
		case *ssa.FieldAddr:
			w(x.X)
		case *ssa.Field:
			w(x.X)
		case *ssa.IndexAddr:
			w(x.X)
		case *ssa.Index:
			w(x.X)
		case *ssa.Lookup:
			w(x.X)
		case *ssa.TypeAssert:
			w(x.X)
		case *ssa.Next:
			w(x.Iter)
		case *ssa.Range:
			w(x.X)
		case *ssa.BinOp:
			w(x.X)
			w(x.Y)
		case *ssa.UnOp:
			w(x.X)
			if x.Op == token.MUL {
				if a := CellOf(x); a != nil {
					for _, st := range cellStores(a) {
						w(st.Val)
					}
				}
			}
		case *ssa.Alloc:
			for _, st := range cellStores(x) {
				w(st.Val)
			}
		case *ssa.Call:
			for _, a := range x.Call.Args {
				w(a)
			}
			if !x.Call.IsInvoke() {
				w(x.Call.Value)
			} else {
				w(x.Call.Value)
			}
		case *ssa.MakeClosure:
			for _, b := range x.Bindings {
				w(b)
			}
		case *ssa.FreeVar:
			if b := FreeVarBinding(x); b != nil {
				w(b)
			}
		}
	}
	w(v)
}

// FreeVarBinding finds the value bound to free variable fv at the (unique)
// MakeClosure of its function in the parent.
func FreeVarBinding(fv *ssa.FreeVar) ssa.Value {
	fn := fv.Parent()
	par := fn.Parent()
	if par == nil {
		return nil
	}
	idx := -1
	for i, f := range fn.FreeVars {
		if f == fv {
			idx = i
		}
	}
	if idx < 0 {
		return nil
	}
	for _, in := range AllInstrs(par) {
		if mc, ok := in.(*ssa.MakeClosure); ok && mc.Fn == fn && idx < len(mc.Bindings) {
			return mc.Bindings[idx]
		}
	}
	return nil
}

// DerivesFrom reports whether target is in the backward slice of v.
func DerivesFrom(v ssa.Value, pred func(ssa.Value) bool) bool {
	found := false
	BackSlice(v, func(x ssa.Value) bool {
		if found {
			return false
		}
		if pred(x) {
			found = true
			return false
		}
		return true
	})
	return found
}

// ClosureArg: if v is a function literal (MakeClosure or *ssa.Function),
// returns it.
func ClosureFn(v ssa.Value) *ssa.Function {
	switch x := Peel(v).(type) {
	case *ssa.MakeClosure:
		f, _ := x.Fn.(*ssa.Function)
		return f
	case *ssa.Function:
		return x
	}
	return nil
}

// cellStores returns every store to the local cell a, including stores made
// through free variables of closures that capture it.
func cellStores(a *ssa.Alloc) []*ssa.Store {
	var out []*ssa.Store
	seen := map[ssa.Value]bool{}
	var visit func(addr ssa.Value)
	visit = func(addr ssa.Value) {
		if seen[addr] {
			return
		}
		seen[addr] = true
		refs := addr.Referrers()
		if refs == nil {
			return
		}
		for _, r := range *refs {
			switch x := r.(type) {
			case *ssa.Store:
				if x.Addr == addr {
					out = append(out, x)
				}
			case *ssa.FieldAddr:
				// stores into a field of a struct-valued cell contribute to the cell's value
				if x.X == addr {
					visit(x)
				}
			case *ssa.IndexAddr:
				if x.X == addr {
					visit(x)
				}
			case *ssa.MakeClosure:
				cf, _ := x.Fn.(*ssa.Function)
				if cf == nil {
					continue
				}
				for i, b := range x.Bindings {
					if b == addr && i < len(cf.FreeVars) {
						visit(cf.FreeVars[i])
					}
				}
			}
		}
	}
	visit(a)
	return out
}

// CellOf: if v is a load `*x` where x is a local cell (Alloc) or a free
// variable bound (transitively) to one, returns the cell.
func CellOf(v ssa.Value) *ssa.Alloc {
	u, ok := v.(*ssa.UnOp)
	if !ok || u.Op != token.MUL {
		return nil
	}
	x := u.X
	for {
		switch y := x.(type) {
		case *ssa.Alloc:
			return y
		case *ssa.FreeVar:
			x = FreeVarBinding(y)
			if x == nil {
				return nil
			}
		default:
			return nil
		}
	}
}

// Through resolves loads of single-assignment cells (captured parameters and
// locals that are stored exactly once) to the stored value.
func Through(v ssa.Value) ssa.Value {
	for i := 0; i < 8; i++ {
		c := CellOf(v)
		if c == nil {
			return v
		}
		st := cellStores(c)
		if len(st) != 1 || CellOfAddr(st[0].Addr) != c {
			return v
		}
		v = st[0].Val
	}
	return v
}

// IsParamFuncCall reports whether c calls a value that is a parameter of
// function type (possibly captured by a closure): "the user callback".
func IsParamFuncCall(c *ssa.CallCommon) bool {
	if c.IsInvoke() {
		return false
	}
	v := Through(c.Value)
	switch x := v.(type) {
	case *ssa.Parameter:
		_, ok := x.Type().Underlying().(*types.Signature)
		return ok
	case *ssa.FreeVar:
		b := FreeVarBinding(x)
		_, ok := b.(*ssa.Parameter)
		return ok
	}
	return false
}

// SameSource reports whether two SSA values denote the same runtime value as
// far as simple syntactic aliasing can tell: identical values, two loads of
// the same single-assignment cell, or reads of the same field of SameSource
// bases (no intervening-store reasoning: callers use it for immutable slots).
func SameSource(x, y ssa.Value) bool {
	x, y = Through(Peel(x)), Through(Peel(y))
	if x == y {
		return true
	}
	if cx, cy := CellOf(x), CellOf(y); cx != nil && cx == cy {
		return true
	}
	fx, bx := FieldRead(x)
	fy, by := FieldRead(y)
	if fx != nil && SameField(fx, fy) {
		return SameSource(bx, by)
	}
	return false
}

// CellOfAddr resolves an address (Alloc or free variable chain) to its cell;
// nil for field/element addresses.
func CellOfAddr(x ssa.Value) *ssa.Alloc {
	for {
		switch y := x.(type) {
		case *ssa.Alloc:
			return y
		case *ssa.FreeVar:
			x = FreeVarBinding(y)
			if x == nil {
				return nil
			}
		default:
			return nil
		}
	}
}

// InstrDominates reports whether instruction a strictly dominates b (same
// function): every path from the entry to b executes a first.
func InstrDominates(a, b ssa.Instruction) bool {
	if a == b || a.Parent() != b.Parent() {
		return false
	}
	ba, bb := a.Block(), b.Block()
	if ba == bb {
		return indexIn(ba, a) < indexIn(bb, b)
	}
	return ba.Dominates(bb)
}

// IsParamFuncCallThrough: like IsParamFuncCall, but also accepts a call of a
// function-typed FIELD of a parameter or captured parameter (params.Ask).
func IsParamFuncCallThrough(c *ssa.CallCommon) bool {
	if IsParamFuncCall(c) {
		return true
	}
	if c.IsInvoke() {
		return false
	}
	v := Through(c.Value)
	f, base := FieldRead(v)
	if f == nil {
		return false
	}
	if _, ok := f.Type().Underlying().(*types.Signature); !ok {
		return false
	}
	base = Through(base)
	for i := 0; i < 4; i++ {
		switch b := base.(type) {
		case *ssa.Parameter:
			return true
		case *ssa.FreeVar:
			base = FreeVarBinding(b)
		case *ssa.Alloc:
			st := cellStores(b)
			if len(st) >= 1 {
				if _, ok := st[0].Val.(*ssa.Parameter); ok {
					return true
				}
			}
			return false
		default:
			return false
		}
	}
	return false
}

// DerivesFromDirect is DerivesFrom that treats call results as opaque: the
// walk tests a call value but does not descend into its arguments.
func DerivesFromDirect(v ssa.Value, pred func(ssa.Value) bool) bool {
	found := false
	BackSlice(v, func(x ssa.Value) bool {
		if found {
			return false
		}
		if pred(x) {
			found = true
			return false
		}
		if _, isCall := x.(*ssa.Call); isCall {
			return false
		}
		return true
	})
	return found
}

// CellOfAddrOrLoad: base is (a load of) a cell whose single store is target,
// or the address of such a cell.
func CellOfAddrOrLoad(base ssa.Value, target ssa.Value) bool {
	if base == nil {
		return false
	}
	if Through(base) == target {
		return true
	}
	if c := CellOfAddr(base); c != nil {
		st := cellStores(c)
		for _, s := range st {
			if s.Addr == ssa.Value(c) && s.Val == target {
				return true
			}
		}
	}
	return false
}

// DerivesFromDirectOrCalls: DerivesFromDirect that additionally descends into
// the receiver/arguments of module method calls on simple value types (getter
// chains such as hdr.GroupID()).
func DerivesFromDirectOrCalls(v ssa.Value, pred func(ssa.Value) bool) bool {
	found := false
	BackSlice(v, func(x ssa.Value) bool {
		if found {
			return false
		}
		if pred(x) {
			found = true
			return false
		}
		return true
	})
	return found
}

// ReachingValues: for a load `*a` of a local cell, the values of the stores
// that may reach the load (flow-sensitive, same function); otherwise v itself.
func ReachingValues(v ssa.Value) []ssa.Value {
	if u, ok := v.(*ssa.UnOp); ok && u.Op == token.MUL {
		if a, ok := u.X.(*ssa.Alloc); ok {
			if CellWrittenByClosure(a) {
				// flow-insensitive but complete: every store to the cell, the capturing literals' included
				var out []ssa.Value
				for _, s := range cellStores(a) {
					out = append(out, s.Val)
				}
				if len(out) > 0 {
					return out
				}
				return []ssa.Value{v}
			}
			st := reachingStores(a, u)
			if len(st) > 0 {
				var out []ssa.Value
				for _, s := range st {
					out = append(out, s.Val)
				}
				return out
			}
		}
	}
	return []ssa.Value{v}
}

// CellWrittenByClosure: the local cell is captured by a function literal that stores to it
// (directly or through a nested literal).
func CellWrittenByClosure(a *ssa.Alloc) bool {
	if a.Referrers() == nil {
		return false
	}
	var written func(fv *ssa.FreeVar, depth int) bool
	written = func(fv *ssa.FreeVar, depth int) bool {
		if depth > 3 || fv.Referrers() == nil {
			return false
		}
		for _, ref := range *fv.Referrers() {
			switch x := ref.(type) {
			case *ssa.Store:
				if x.Addr == ssa.Value(fv) {
					return true
				}
			case *ssa.MakeClosure:
				lit, _ := x.Fn.(*ssa.Function)
				for i, b := range x.Bindings {
					if b == ssa.Value(fv) && lit != nil && i < len(lit.FreeVars) && written(lit.FreeVars[i], depth+1) {
						return true
					}
				}
			}
		}
		return false
	}
	for _, ref := range *a.Referrers() {
		mc, ok := ref.(*ssa.MakeClosure)
		if !ok {
			continue
		}
		lit, _ := mc.Fn.(*ssa.Function)
		for i, b := range mc.Bindings {
			if b == ssa.Value(a) && lit != nil && i < len(lit.FreeVars) && written(lit.FreeVars[i], 0) {
				return true
			}
		}
	}
	return false
}

// ---------- backing-array provenance ----------

// BackingOrigins walks the values whose backing array a slice value v may share:
// through re-slicing, phis, local cells, append's first operand (the appended
// elements are copied, not aliased), the results of module callees (parameters
// are mapped back to the call's arguments, maxDepth levels deep) and, for calls
// without a body, every slice argument (a callee may return its argument).
// visit is called for every value reached; returning false stops below it.
func BackingOrigins(p *Prog, v ssa.Value, maxDepth int, visit func(ssa.Value) bool) {
	type frame struct {
		call   ssa.CallInstruction
		callee *ssa.Function
		up     *frame
	}
	type key struct {
		v ssa.Value
		f *frame
	}
	seen := map[key]bool{}
	depthOf := func(f *frame) int {
		n := 0
		for ; f != nil; f = f.up {
			n++
		}
		return n
	}
	isSlice := func(t types.Type) bool {
		_, ok := t.Underlying().(*types.Slice)
		return ok
	}
	var w func(v ssa.Value, f *frame)
	callResults := func(c *ssa.Call, idx int, f *frame) {
		cc := c.Common()
		if IsBuiltin(cc, "append") {
			w(cc.Args[0], f)
			return
		}
		callee := StaticCallee(cc)
		if callee != nil && p.InModule(callee) && callee.Blocks != nil && depthOf(f) < maxDepth {
			nf := &frame{c, callee, f}
			for _, ret := range Returns(callee) {
				for _, rv := range ReturnValues(ret, idx) {
					w(rv, nf)
				}
			}
			return
		}
		for _, a := range cc.Args {
			if isSlice(a.Type()) {
				w(a, f)
			}
		}
	}
	w = func(v ssa.Value, f *frame) {
		if v == nil || seen[key{v, f}] {
			return
		}
		seen[key{v, f}] = true
		if !visit(v) {
			return
		}
		switch x := v.(type) {
		case *ssa.Phi:
			for _, e := range x.Edges {
				w(e, f)
			}
		case *ssa.ChangeType:
			w(x.X, f)
		case *ssa.Convert:
			w(x.X, f)
		case *ssa.Slice:
			w(x.X, f)
		case *ssa.Field:
			w(x.X, f)
		case *ssa.Index:
			w(x.X, f)
		case *ssa.IndexAddr:
			w(x.X, f)
		case *ssa.FieldAddr:
			// reached through a load: the visitor decides; a field of a local cell is the cell's stores
			if a, ok := x.X.(*ssa.Alloc); ok {
				for _, ref := range *x.Referrers() {
					if st, isSt := ref.(*ssa.Store); isSt && st.Addr == ssa.Value(x) {
						w(st.Val, f)
					}
				}
				_ = a
			}
		case *ssa.UnOp:
			if x.Op == token.MUL {
				if a := CellOf(x); a != nil {
					for _, st := range cellStores(a) {
						w(st.Val, f)
					}
				} else {
					w(x.X, f)
				}
			}
		case *ssa.Extract:
			if c, ok := x.Tuple.(*ssa.Call); ok {
				callResults(c, x.Index, f)
			}
		case *ssa.Call:
			callResults(x, 0, f)
		case *ssa.Parameter:
			if f != nil && f.callee == x.Parent() {
				for i, prm := range f.callee.Params {
					if prm == x {
						args := f.call.Common().Args
						if f.call.Common().IsInvoke() {
							// not reached: invoke calls have no static callee
						} else if i < len(args) {
							w(args[i], f.up)
						}
					}
				}
			}
		case *ssa.FreeVar:
			if b := FreeVarBinding(x); b != nil {
				w(b, f)
			}
		}
	}
	w(v, nil)
}

// ---------- package-level variables initialised once ----------

// GlobalInit resolves a load of a package-level variable of the module that is assigned exactly once in the
// whole module (its initialiser in the package's init) to the assigned value; otherwise it returns nil.
func (p *Prog) GlobalInit(v ssa.Value) ssa.Value {
	u, ok := v.(*ssa.UnOp)
	if !ok || u.Op != token.MUL {
		return nil
	}
	g, ok := u.X.(*ssa.Global)
	if !ok || g.Pkg == nil || !strings.HasPrefix(g.Pkg.Pkg.Path(), ModPath) {
		return nil
	}
	var stores []*ssa.Store
	scan := func(fn *ssa.Function) {
		if fn == nil {
			return
		}
		for _, b := range fn.Blocks {
			for _, in := range b.Instrs {
				if st, ok := in.(*ssa.Store); ok && st.Addr == ssa.Value(g) {
					stores = append(stores, st)
				}
				// address taken: anything may write it
				if ci, ok := in.(ssa.CallInstruction); ok {
					for _, a := range ci.Common().Args {
						if a == ssa.Value(g) {
							stores = append(stores, nil)
						}
					}
				}
			}
		}
	}
	for _, fn := range p.ModFuncs {
		scan(fn)
	}
	scan(g.Pkg.Func("init"))
	if len(stores) != 1 || stores[0] == nil {
		return nil
	}
	return stores[0].Val
}
