package core

import (
	"go/constant"
	"go/token"
	"go/types"

	"golang.org/x/tools/go/ssa"
)

// Bounds is a small difference-bound prover over SSA integer values and
// slice/string lengths. A constraint is  a - b <= k ; the zero term stands for
// the constant 0. Facts come from (1) the conditions of If edges that
// dominate the site (edges into a block with a single predecessor that
// dominates the site), (2) the definitions of the values involved and (3)
// library contracts and type invariants. Everything it proves is sound under
// the stated assumptions (no overflow in index arithmetic; IntBits).
type Bounds struct {
	P       *Prog
	IntBits int
	// LenInvariant: named slice types whose values always have at least this length.
	LenInvariant map[*types.TypeName]int64
	// fieldWriters: functions that store to a field (directly).
	fieldWriters map[*types.Var]map[*ssa.Function]bool
	// MinFuncs: module functions audited to return the smallest of their variadic int arguments.
	MinFuncs map[*ssa.Function]string
	prCache  map[paramKey]*rangeFact
	sumCache map[sumKey]*resultSummary
}

type Term struct {
	V     ssa.Value // nil = the constant zero
	IsLen bool
}

var Zero = Term{}

type Cons struct {
	A, B Term
	K    int64
}

func NewBounds(p *Prog) *Bounds {
	bd := &Bounds{P: p, IntBits: 64, LenInvariant: map[*types.TypeName]int64{}, fieldWriters: map[*types.Var]map[*ssa.Function]bool{}}
	if p.GOARCH == "386" || p.GOARCH == "arm" {
		bd.IntBits = 32
	}
	for _, fn := range p.ModFuncs {
		for _, in := range AllInstrs(fn) {
			if st, ok := in.(*ssa.Store); ok {
				if f, _ := FieldOfAddr(st.Addr); f != nil {
					if bd.fieldWriters[f.Origin()] == nil {
						bd.fieldWriters[f.Origin()] = map[*ssa.Function]bool{}
					}
					bd.fieldWriters[f.Origin()][fn] = true
				}
			}
		}
	}
	return bd
}

// canonical value for a term: peel type changes; unify loads of the same
// field of the same base when the field is not written in this function (nor
// by anything this function calls).
func (bd *Bounds) canon(v ssa.Value) ssa.Value {
	for {
		switch x := v.(type) {
		case *ssa.ChangeType:
			v = x.X
			continue
		case *ssa.MakeInterface:
			return v
		}
		break
	}
	v = Through(v)
	if ct, ok := v.(*ssa.ChangeType); ok {
		return bd.canon(ct.X)
	}
	return v
}

// sameLoc: two values are loads of the same field of the same base and the
// field is stable between them.
func (bd *Bounds) sameVal(a, b ssa.Value) bool {
	a, b = bd.canon(a), bd.canon(b)
	if a == b {
		return true
	}
	// two loads of the same local cell with no store (and no call that was given its
	// address) between them
	if ca, cb := CellOf(a), CellOf(b); ca != nil && ca == cb {
		ia, ok1 := a.(ssa.Instruction)
		ib, ok2 := b.(ssa.Instruction)
		if ok1 && ok2 && ia.Parent() == ib.Parent() {
			return bd.cellStable(ca, ia, ib)
		}
		return false
	}
	fa, ba := FieldRead(a)
	fb, bb := FieldRead(b)
	if fa == nil || !SameField(fa, fb) {
		return false
	}
	if !bd.sameVal(ba, bb) && !SameSource(ba, bb) {
		return false
	}
	ia, ok1 := a.(ssa.Instruction)
	ib, ok2 := b.(ssa.Instruction)
	if !ok1 || !ok2 || ia.Parent() != ib.Parent() {
		return false
	}
	return bd.fieldStable(ia.Parent(), fa, ia, ib)
}

// fieldStable: no store to field f can execute between the two loads: no store
// in this function on a path between them (either order), and no call to a
// module function that (transitively) writes f.
func (bd *Bounds) fieldStable(fn *ssa.Function, f *types.Var, a, b ssa.Instruction) bool {
	writers := bd.fieldWriters[f.Origin()]
	if len(writers) == 0 {
		return true
	}
	first, second := a, b
	if !InstrDominates(a, b) {
		if InstrDominates(b, a) {
			first, second = b, a
		} else {
			return false
		}
	}
	between := betweenLast(fn, first, second)
	for in := range between {
		if in == second {
			continue
		}
		if st, ok := in.(*ssa.Store); ok {
			if ff, _ := FieldOfAddr(st.Addr); SameField(ff, f) {
				return false
			}
		}
		if ci, ok := in.(ssa.CallInstruction); ok {
			if callee := StaticCallee(ci.Common()); callee != nil && bd.P.InModule(callee) {
				if bd.mayWrite(callee, f, map[*ssa.Function]bool{}) {
					return false
				}
			} else if ci.Common().IsInvoke() || ClosureFn(ci.Common().Value) == nil && StaticCallee(ci.Common()) == nil {
				// dynamic call: could it write the field? only through module code holding the object;
				// be conservative for function values, lenient for external static callees.
				if _, isBuiltin := ci.Common().Value.(*ssa.Builtin); !isBuiltin {
					return false
				}
			}
		}
	}
	return true
}

// cellStable: between the two loads nothing can write the cell: no store to it and
// no call that receives its address.
func (bd *Bounds) cellStable(cell *ssa.Alloc, a, b ssa.Instruction) bool {
	fn := a.Parent()
	first, second := a, b
	if !InstrDominates(a, b) {
		if InstrDominates(b, a) {
			first, second = b, a
		} else {
			return false
		}
	}
	// closures capturing the cell may write it at any time
	for _, ref := range *cell.Referrers() {
		if _, ok := ref.(*ssa.MakeClosure); ok {
			return false
		}
	}
	between := betweenLast(fn, first, second)
	for in := range between {
		if in == second {
			continue
		}
		if st, ok := in.(*ssa.Store); ok && st.Addr == ssa.Value(cell) {
			return false
		}
		if ci, ok := in.(ssa.CallInstruction); ok {
			for _, arg := range ci.Common().Args {
				if arg == ssa.Value(cell) {
					return false
				}
			}
		}
	}
	return true
}

func (bd *Bounds) mayWrite(fn *ssa.Function, f *types.Var, seen map[*ssa.Function]bool) bool {
	if seen[fn] {
		return false
	}
	seen[fn] = true
	if bd.fieldWriters[f.Origin()][fn] {
		return true
	}
	for _, c := range bd.P.Callees(fn, nil) {
		if bd.mayWrite(c, f, seen) {
			return true
		}
	}
	return false
}

func isIntType(t types.Type) (bits int, signed bool, ok bool) {
	b, isB := t.Underlying().(*types.Basic)
	if !isB || b.Info()&types.IsInteger == 0 {
		return 0, false, false
	}
	switch b.Kind() {
	case types.Int8:
		return 8, true, true
	case types.Int16:
		return 16, true, true
	case types.Int32:
		return 32, true, true
	case types.Int64:
		return 64, true, true
	case types.Int:
		return 0, true, true
	case types.Uint8:
		return 8, false, true
	case types.Uint16:
		return 16, false, true
	case types.Uint32:
		return 32, false, true
	case types.Uint64:
		return 64, false, true
	case types.Uint, types.Uintptr:
		return 0, false, true
	case types.UntypedInt, types.UntypedRune:
		return 64, true, true
	}
	return 0, false, false
}

func (bd *Bounds) bitsOf(t types.Type) (int, bool, bool) {
	bits, signed, ok := isIntType(t)
	if ok && bits == 0 {
		bits = bd.IntBits
	}
	return bits, signed, ok
}

// preserving: converting a value of type from to type to keeps its value.
func (bd *Bounds) preserving(from, to types.Type) bool {
	fb, fs, ok1 := bd.bitsOf(from)
	tb, ts, ok2 := bd.bitsOf(to)
	if !ok1 || !ok2 {
		return false
	}
	switch {
	case fs == ts:
		return tb >= fb
	case !fs && ts:
		return tb > fb
	}
	return false
}

type prover struct {
	bd    *Bounds
	fn    *ssa.Function
	at    ssa.Instruction
	cons  []Cons
	terms []Term
	seen  map[Term]bool
	depth int
	hyp   []Cons
}

func (pr *prover) add(a, b Term, k int64) {
	pr.cons = append(pr.cons, Cons{a, b, k})
}

func (pr *prover) eq(a, b Term, k int64) { // a = b + k
	pr.add(a, b, k)
	pr.add(b, a, -k)
}

// termOf maps an int-typed SSA value to a term: len(x) calls become Len terms.
func (pr *prover) termOf(v ssa.Value) Term {
	v = pr.bd.canon(v)
	if c, ok := v.(*ssa.Call); ok && IsBuiltin(c.Common(), "len") {
		return pr.lenTerm(c.Call.Args[0])
	}
	// unify with an existing term for the same memory location
	if CellOf(v) != nil || func() bool { f, _ := FieldRead(v); return f != nil }() {
		for _, t := range pr.terms {
			if !t.IsLen && t.V != v && pr.bd.sameVal(t.V, v) {
				return t
			}
		}
	}
	t := Term{V: v}
	pr.visit(t)
	return t
}

func (pr *prover) lenTerm(x ssa.Value) Term {
	x = pr.bd.canon(x)
	// unify with an existing Len term of the same location
	for _, t := range pr.terms {
		if t.IsLen && t.V != x && pr.bd.sameVal(t.V, x) {
			return t
		}
	}
	t := Term{V: x, IsLen: true}
	pr.visit(t)
	return t
}

func arrayLen(t types.Type) (int64, bool) {
	if p, ok := t.Underlying().(*types.Pointer); ok {
		t = p.Elem()
	}
	if a, ok := t.Underlying().(*types.Array); ok {
		return a.Len(), true
	}
	return 0, false
}

// visit adds the definitional facts of a term.
func (pr *prover) visit(t Term) {
	if t.V == nil || pr.seen[t] {
		return
	}
	pr.seen[t] = true
	pr.terms = append(pr.terms, t)
	if len(pr.terms) > 400 {
		return
	}
	if t.IsLen {
		pr.lenFacts(t)
		return
	}
	v := t.V
	// type range
	if bits, signed, ok := pr.bd.bitsOf(v.Type()); ok {
		if !signed {
			pr.add(Zero, t, 0) // 0 - v <= 0
			if bits < 63 {
				pr.add(t, Zero, (int64(1)<<uint(bits))-1)
			}
		} else if bits < 63 {
			pr.add(t, Zero, (int64(1)<<uint(bits-1))-1)
			pr.add(Zero, t, int64(1)<<uint(bits-1))
		}
	}
	switch x := v.(type) {
	case *ssa.Const:
		if x.Value != nil && x.Value.Kind() == constant.Int {
			if k, exact := constant.Int64Val(x.Value); exact {
				pr.eq(t, Zero, k)
			}
		}
	case *ssa.Convert:
		if pr.bd.preserving(x.X.Type(), x.Type()) {
			pr.eq(t, pr.termOf(x.X), 0)
		} else if _, _, ok := pr.bd.bitsOf(x.X.Type()); ok {
			// non-preserving: if the operand is provably within the target's range the value is kept
			src := pr.termOf(x.X)
			tb, ts, _ := pr.bd.bitsOf(x.Type())
			var lo, hi int64
			if ts {
				lo, hi = -(int64(1) << uint(tb-1)), (int64(1)<<uint(tb-1))-1
			} else if tb < 64 {
				lo, hi = 0, (int64(1)<<uint(tb))-1
			} else {
				lo, hi = 0, int64(^uint64(0)>>1)
			}
			okHi := pr.entails(src, Zero, hi)
			if !ts && tb >= pr.bd.IntBits {
				okHi = true // any non-negative int fits an unsigned type at least as wide
			}
			if okHi && pr.entails(Zero, src, -lo) {
				pr.eq(t, src, 0)
			}
		}
	case *ssa.BinOp:
		kx, xk := ConstInt(x.X)
		ky, yk := ConstInt(x.Y)
		switch x.Op {
		case token.ADD:
			if yk {
				pr.eq(t, pr.termOf(x.X), ky)
			} else if xk {
				pr.eq(t, pr.termOf(x.Y), kx)
			} else {
				// a + b with b >= 0 : t >= a ; handled lazily through entails on operands
				a, b := pr.termOf(x.X), pr.termOf(x.Y)
				if pr.entails(Zero, b, 0) {
					pr.add(a, t, 0)
				}
				if pr.entails(Zero, a, 0) {
					pr.add(b, t, 0)
				}
			}
		case token.SUB:
			if yk {
				pr.eq(t, pr.termOf(x.X), -ky)
			} else {
				a, b := pr.termOf(x.X), pr.termOf(x.Y)
				// t = a - b : t - a <= -b ; with b >= 0: t <= a
				if pr.entails(Zero, b, 0) {
					pr.add(t, a, 0)
				}
				// a - b >= 0 when b <= a, and conversely
				if pr.entails(b, a, 0) {
					pr.add(Zero, t, 0)
				}
				if pr.entails(Zero, t, 0) {
					pr.add(b, a, 0)
				}
			}
		case token.REM:
			if yk && ky > 0 {
				pr.add(t, Zero, ky-1)
				if pr.entails(Zero, pr.termOf(x.X), 0) {
					pr.add(Zero, t, 0)
				}
			}
		case token.AND:
			if yk && ky >= 0 {
				pr.add(t, Zero, ky)
				pr.add(Zero, t, 0)
			} else if xk && kx >= 0 {
				pr.add(t, Zero, kx)
				pr.add(Zero, t, 0)
			}
		case token.QUO:
			if yk && ky > 0 {
				a := pr.termOf(x.X)
				if pr.entails(Zero, a, 0) {
					pr.add(Zero, t, 0)
					pr.add(t, a, 0)
				}
			}
		case token.SHR:
			a := pr.termOf(x.X)
			if pr.entails(Zero, a, 0) {
				pr.add(Zero, t, 0)
				pr.add(t, a, 0)
			}
		case token.MUL:
			c, other, isC := ky, x.X, yk
			if !isC && xk {
				c, other, isC = kx, x.Y, true
			}
			if isC && c >= 1 && c < 1<<32 {
				a := pr.termOf(other)
				if pr.entails(Zero, a, 0) {
					pr.add(Zero, t, 0)
					pr.add(a, t, 0)
				}
				if u, ok := pr.ub(a); ok && u > -(1<<30) && u < 1<<30 {
					pr.add(t, Zero, u*c)
				}
				if l, ok := pr.lb(a); ok && l > -(1<<30) && l < 1<<30 {
					pr.add(Zero, t, -l*c)
				}
			}
		}
	case *ssa.Phi:
		if x.Comment == "rangeindex" {
			pr.add(Zero, t, 1) // t >= -1
		} else {
			// bounds by induction: edges are base values or phi +/- a non-negative amount
			var bases []ssa.Value
			up, down, ok := true, true, true
			for _, e := range x.Edges {
				if b, isB := e.(*ssa.BinOp); isB && b.X == ssa.Value(x) && (b.Op == token.ADD || b.Op == token.SUB) {
					nonneg := false
					if k, isK := ConstInt(b.Y); isK {
						nonneg = k >= 0
					} else if pr.depth < 3 {
						nonneg = pr.entails(Zero, pr.termOf(b.Y), 0)
					}
					if !nonneg {
						ok = false
					}
					if b.Op == token.ADD {
						down = false // grows: only a lower bound
					} else {
						up = false
					}
					continue
				}
				bases = append(bases, e)
			}
			if ok && len(bases) >= 1 {
				for _, base := range bases {
					_ = base
				}
				if len(bases) == 1 {
					bt := pr.termOf(bases[0])
					if up { // never decreases: phi >= base
						pr.add(bt, t, 0)
					}
					if down { // never increases: phi <= base
						pr.add(t, bt, 0)
					}
				} else if up {
					// several constant bases: phi >= min
					lo := int64(1) << 62
					allK := true
					for _, b0 := range bases {
						k, isK := ConstInt(b0)
						if !isK {
							allK = false
						} else if k < lo {
							lo = k
						}
					}
					if allK {
						pr.add(Zero, t, -lo)
					}
				}
			}
		}
	case *ssa.Parameter:
		if lo, hi, okLo, okHi := pr.bd.paramRange(x, pr.depth); okLo || okHi {
			if okLo {
				pr.add(Zero, t, -lo)
			}
			if okHi {
				pr.add(t, Zero, hi)
			}
		}
	case *ssa.Call:
		name := CalleeName(x.Common())
		if callee := StaticCallee(x.Common()); callee != nil && pr.bd.P.InModule(callee) && callee.Signature.Results().Len() == 1 {
			pr.bd.applySummary(pr, t, callee, x, 0)
		}
		switch name {
		case "math/bits.LeadingZeros8", "math/bits.TrailingZeros8":
			pr.add(Zero, t, 0)
			pr.add(t, Zero, 8)
		case "(*encoding/base64.Encoding).EncodedLen", "(*encoding/base64.Encoding).DecodedLen":
			pr.add(Zero, t, 0)
		case "builtin.min", "builtin.max":
			// min: t <= every argument and t >= the smallest lower bound; max: dually
			isMin := name == "builtin.min"
			all, ext := true, int64(0)
			for i, a := range x.Call.Args {
				at := pr.termOf(a)
				var b int64
				var ok bool
				if isMin {
					pr.add(t, at, 0)
					b, ok = pr.lb(at)
				} else {
					pr.add(at, t, 0)
					b, ok = pr.ub(at)
				}
				if !ok {
					all = false
				} else if i == 0 || (isMin && b < ext) || (!isMin && b > ext) {
					ext = b
				}
			}
			if all && len(x.Call.Args) > 0 {
				if isMin {
					pr.add(Zero, t, -ext)
				} else {
					pr.add(t, Zero, ext)
				}
			}
		case "builtin.copy":
			pr.add(Zero, t, 0)
			pr.add(t, pr.lenTerm(x.Call.Args[0]), 0)
			pr.add(t, pr.lenTerm(x.Call.Args[1]), 0)
		case "encoding/binary.PutUvarint", "encoding/binary.PutVarint":
			pr.add(t, pr.lenTerm(x.Call.Args[0]), 0)
			pr.add(Zero, t, -1)
		case "builtin.cap":
			pr.add(pr.lenTerm(x.Call.Args[0]), t, 0)
		}
	case *ssa.UnOp:
		// a package-level variable assigned once: it has its initialiser's value
		if gv := pr.bd.P.GlobalInit(x); gv != nil && pr.depth < 3 {
			pr.eq(t, pr.termOf(gv), 0)
		}
	case *ssa.Extract:
		if c, ok := x.Tuple.(*ssa.Call); ok {
			if callee := StaticCallee(c.Common()); callee != nil && pr.bd.P.InModule(callee) {
				pr.bd.applySummary(pr, t, callee, c, x.Index)
			}
			switch CalleeName(c.Common()) {
			case "(*net.UDPConn).ReadFromUDP", "(*net.UDPConn).ReadFrom", "(*net.UDPConn).Read":
				if x.Index == 0 {
					pr.add(t, pr.lenTerm(c.Call.Args[1]), 0)
					pr.add(Zero, t, 0)
				}
			case "encoding/binary.Uvarint", "encoding/binary.Varint":
				if x.Index == 1 {
					pr.add(t, pr.lenTerm(c.Call.Args[0]), 0)
				}
			case "io.ReadFull":
				if x.Index == 0 {
					pr.add(t, pr.lenTerm(c.Call.Args[1]), 0)
					pr.add(Zero, t, 0)
				}
			}
		}
	}
}

func (pr *prover) lenFacts(t Term) {
	pr.add(Zero, t, 0)
	x := t.V
	if n, ok := arrayLen(x.Type()); ok {
		pr.eq(t, Zero, n)
		return
	}
	// type invariant
	if nt, ok := x.Type().(*types.Named); ok {
		if k, has := pr.bd.LenInvariant[nt.Obj()]; has && invariantAssumed(x) {
			pr.add(Zero, t, -k)
		}
	}
	switch y := x.(type) {
	case *ssa.Const:
		if y.Value != nil && y.Value.Kind() == constant.String {
			pr.eq(t, Zero, int64(len(constant.StringVal(y.Value))))
		} else if y.Value == nil {
			pr.eq(t, Zero, 0)
		}
	case *ssa.MakeSlice:
		pr.eq(t, pr.termOf(y.Len), 0)
	case *ssa.Convert:
		// string <-> []byte keeps the length
		pr.eq(t, pr.lenTerm(y.X), 0)
	case *ssa.Slice:
		base := pr.lenTerm(y.X)
		if n, ok := arrayLen(y.X.Type()); ok {
			_ = n
		}
		var hi Term
		if y.High != nil {
			hi = pr.termOf(y.High)
		} else {
			hi = base
		}
		if y.Low == nil {
			pr.eq(t, hi, 0)
		} else if k, isK := ConstInt(y.Low); isK {
			pr.eq(t, hi, -k)
		} else {
			lo := pr.termOf(y.Low)
			// len = hi - lo <= hi when lo >= 0
			if pr.entails(Zero, lo, 0) {
				pr.add(t, hi, 0)
			}
		}
	case *ssa.Call:
		name := CalleeName(y.Common())
		switch {
		case name == "builtin.append":
			pr.add(pr.lenTerm(y.Call.Args[0]), t, 0)
		case name == "(github.com/flynn/noise.Cipher).Encrypt":
			// appends the ciphertext to its first argument
			pr.add(pr.lenTerm(y.Call.Args[0]), t, 0)
		}
	case *ssa.Extract:
		if c, ok := y.Tuple.(*ssa.Call); ok {
			switch CalleeName(c.Common()) {
			case "(*github.com/flynn/noise.HandshakeState).WriteMessage":
				if y.Index == 0 {
					pr.add(pr.lenTerm(c.Call.Args[1]), t, 0)
				}
			}
		}
	case *ssa.Phi:
		// all edges share a lower bound from invariants: skip
	}
}

// invariantAssumed: values whose type invariant is assumed (their producers
// carry the obligation): parameters, free variables, call results, loads.
func invariantAssumed(v ssa.Value) bool {
	switch x := v.(type) {
	case *ssa.Parameter, *ssa.FreeVar, *ssa.Call, *ssa.Extract, *ssa.UnOp, *ssa.Field, *ssa.Lookup, *ssa.Index, *ssa.TypeAssert, *ssa.MakeInterface:
		return true
	case *ssa.Phi:
		for _, e := range x.Edges {
			if !invariantAssumed(e) {
				return false
			}
		}
		return true
	}
	return false
}

// pathFacts: conditions of dominating single-predecessor edges.
func (pr *prover) pathFacts() {
	b := pr.at.Block()
	for b != nil {
		if len(b.Preds) == 1 {
			p := b.Preds[0]
			if iff, ok := p.Instrs[len(p.Instrs)-1].(*ssa.If); ok && p.Succs[0] != p.Succs[1] {
				pr.condFact(iff.Cond, p.Succs[0] == b)
			}
		}
		b = b.Idom()
	}
}

func (pr *prover) condFact(cond ssa.Value, holds bool) {
	c, neg := StripNot(cond)
	if neg {
		holds = !holds
	}
	b, ok := c.(*ssa.BinOp)
	if !ok {
		return
	}
	if _, _, isInt := pr.bd.bitsOf(b.X.Type()); !isInt {
		return
	}
	x, y := pr.termOf(b.X), pr.termOf(b.Y)
	op := b.Op
	if !holds {
		switch op {
		case token.LSS:
			op = token.GEQ
		case token.LEQ:
			op = token.GTR
		case token.GTR:
			op = token.LEQ
		case token.GEQ:
			op = token.LSS
		case token.EQL:
			op = token.NEQ
		case token.NEQ:
			op = token.EQL
		}
	}
	switch op {
	case token.LSS:
		pr.add(x, y, -1)
	case token.LEQ:
		pr.add(x, y, 0)
	case token.GTR:
		pr.add(y, x, -1)
	case token.GEQ:
		pr.add(y, x, 0)
	case token.EQL:
		pr.eq(x, y, 0)
	case token.NEQ:
		// integers: x != y together with x >= y gives x >= y+1 (len(b) != 0 => len(b) >= 1)
		if pr.entails(y, x, 0) {
			pr.add(y, x, -1)
		} else if pr.entails(x, y, 0) {
			pr.add(x, y, -1)
		}
	}
}

// entails: is a - b <= k implied by the constraints collected so far?
// Bellman-Ford: shortest path from b to a in the constraint graph (edge b->a
// with weight k for a - b <= k).
func (pr *prover) entails(a, b Term, k int64) bool {
	if a == b {
		return k >= 0
	}
	const inf = int64(1) << 60
	dist := map[Term]int64{b: 0}
	for i := 0; i < len(pr.terms)+2; i++ {
		changed := false
		for _, c := range pr.cons {
			db, ok := dist[c.B]
			if !ok {
				continue
			}
			nd := db + c.K
			if nd < -inf {
				nd = -inf
			}
			if da, ok := dist[c.A]; !ok || nd < da {
				dist[c.A] = nd
				changed = true
			}
		}
		if !changed {
			break
		}
	}
	d, ok := dist[a]
	return ok && d <= k
}

// refresh re-derives the definitional facts of every known term, so that
// facts conditioned on other facts (a-b >= 0 when b <= a) see the path facts.
func (pr *prover) refresh() {
	for round := 0; round < 2; round++ {
		ts := append([]Term{}, pr.terms...)
		pr.seen = map[Term]bool{}
		pr.terms = nil
		for _, t := range ts {
			pr.visit(t)
		}
	}
}

// ub / lb: best numeric upper / lower bound of a term implied so far.
func (pr *prover) ub(t Term) (int64, bool) {
	d, ok := pr.dist(Zero)[t]
	return d, ok
}

func (pr *prover) lb(t Term) (int64, bool) {
	d, ok := pr.dist(t)[Zero]
	if !ok {
		return 0, false
	}
	return -d, true
}

// dist: shortest distances from src in the constraint graph (edge b->a weight k for a-b<=k).
func (pr *prover) dist(src Term) map[Term]int64 {
	const inf = int64(1) << 60
	dist := map[Term]int64{src: 0}
	for i := 0; i < len(pr.terms)+2; i++ {
		changed := false
		for _, c := range pr.cons {
			db, ok := dist[c.B]
			if !ok {
				continue
			}
			nd := db + c.K
			if nd < -inf {
				nd = -inf
			}
			if da, ok := dist[c.A]; !ok || nd < da {
				dist[c.A] = nd
				changed = true
			}
		}
		if !changed {
			break
		}
	}
	return dist
}

// prove: entails, or goal-directed reasoning through phi nodes: a phi satisfies a bound
// when every incoming value satisfies it at the end of its predecessor block; for a
// loop-carried edge (phi +/- constant) the bound is assumed as induction hypothesis.
func (pr *prover) prove(a, b Term, k int64) bool {
	if pr.entails(a, b, k) {
		return true
	}
	if pr.depth >= 3 {
		return false
	}
	try := func(ph *ssa.Phi, mk func(v Term) (Term, Term)) bool {
		for i, e := range ph.Edges {
			pred := ph.Block().Preds[i]
			term := pred.Instrs[len(pred.Instrs)-1]
			sub := pr.bd.newProver(term)
			sub.depth = pr.depth + 1
			sub.hyp = append(append([]Cons{}, pr.hyp...), Cons{a, b, k})
			ev := sub.termOf(e)
			x, y := mk(ev)
			// carry the other side's term into the sub-prover
			if x.V != nil {
				sub.visit(x)
			}
			if y.V != nil {
				sub.visit(y)
			}
			sub.pathFacts()
			// the condition of the edge pred -> phi block itself
			if iff, isIf := term.(*ssa.If); isIf && pred.Succs[0] != pred.Succs[1] {
				sub.condFact(iff.Cond, pred.Succs[0] == ph.Block())
			}
			sub.cons = append(sub.cons, sub.hyp...)
			sub.refresh()
			if iff, isIf := term.(*ssa.If); isIf && pred.Succs[0] != pred.Succs[1] {
				sub.condFact(iff.Cond, pred.Succs[0] == ph.Block())
			}
			sub.cons = append(sub.cons, sub.hyp...)
			if !sub.prove(x, y, k) {
				return false
			}
		}
		return true
	}
	// c*x <= c*y when x <= y (same positive constant factor)
	if !a.IsLen && !b.IsLen && k >= 0 {
		ma, okA := a.V.(*ssa.BinOp)
		mb, okB := b.V.(*ssa.BinOp)
		if okA && okB && ma.Op == token.MUL && mb.Op == token.MUL {
			ca, isA := ConstInt(ma.Y)
			cb, isB := ConstInt(mb.Y)
			if isA && isB && ca == cb && ca > 0 {
				if pr.entails(pr.termOf(ma.X), pr.termOf(mb.X), 0) {
					return true
				}
			}
		}
	}
	// a - min(xs) <= k when a - x <= k for every x; max(xs) - b <= k when x - b <= k for every x
	minmax := func(t Term, want string) []ssa.Value {
		if t.IsLen || t.V == nil {
			return nil
		}
		if c, ok := t.V.(*ssa.Call); ok && CalleeName(c.Common()) == want {
			return c.Call.Args
		}
		return nil
	}
	if args := minmax(b, "builtin.min"); len(args) > 0 {
		all := true
		for _, x := range args {
			xt := pr.termOf(x)
			pr.visit(xt)
			if !pr.prove(a, xt, k) {
				all = false
				break
			}
		}
		if all {
			return true
		}
	}
	if args := minmax(a, "builtin.max"); len(args) > 0 {
		all := true
		for _, x := range args {
			xt := pr.termOf(x)
			pr.visit(xt)
			if !pr.prove(xt, b, k) {
				all = false
				break
			}
		}
		if all {
			return true
		}
	}
	if ph, ok := a.V.(*ssa.Phi); ok && !a.IsLen {
		if try(ph, func(v Term) (Term, Term) { return v, b }) {
			return true
		}
	}
	if ph, ok := b.V.(*ssa.Phi); ok && !b.IsLen {
		if try(ph, func(v Term) (Term, Term) { return a, v }) {
			return true
		}
	}
	return false
}

func (bd *Bounds) newProver(at ssa.Instruction) *prover {
	pr := &prover{bd: bd, fn: at.Parent(), at: at, seen: map[Term]bool{}}
	return pr
}

// ProveIndex: 0 <= idx < len(x) at instruction at.
func (bd *Bounds) ProveIndex(at ssa.Instruction, x, idx ssa.Value) (bool, string) {
	pr := bd.newProver(at)
	i := pr.termOf(idx)
	l := pr.lenTerm(x)
	pr.pathFacts()
	pr.refresh()
	lo := pr.prove(Zero, i, 0)
	hi := pr.prove(i, l, -1)
	switch {
	case lo && hi:
		return true, ""
	case !lo && !hi:
		return false, "neither index >= 0 nor index < len is implied"
	case !lo:
		return false, "index >= 0 is not implied (a conversion from an unsigned or a subtraction can make it negative)"
	}
	return false, "index < len is not implied by any dominating check"
}

// ProveSlice: 0 <= lo <= hi <= len(x) (len(x) is used for slices too: sound, cap >= len).
func (bd *Bounds) ProveSlice(at ssa.Instruction, x, lo, hi, max ssa.Value) (bool, string) {
	pr := bd.newProver(at)
	l := pr.lenTerm(x)
	var tl, th Term
	if lo != nil {
		tl = pr.termOf(lo)
	}
	th = l
	if hi != nil {
		th = pr.termOf(hi)
	}
	pr.pathFacts()
	pr.refresh()
	if lo != nil && !pr.prove(Zero, tl, 0) {
		return false, "low bound >= 0 is not implied"
	}
	if lo != nil && !pr.prove(tl, th, 0) {
		return false, "low <= high is not implied"
	}
	if hi != nil {
		if !pr.prove(th, l, 0) {
			return false, "high <= len is not implied by any dominating check"
		}
		if lo == nil && !pr.prove(Zero, th, 0) {
			return false, "high >= 0 is not implied"
		}
	}
	if max != nil {
		tm := pr.termOf(max)
		if !pr.entails(th, tm, 0) || !pr.entails(tm, l, 0) {
			return false, "max bound not implied"
		}
	}
	return true, ""
}

// ProveLenAtLeast: len(x) >= k at instruction at.
func (bd *Bounds) ProveLenAtLeast(at ssa.Instruction, x ssa.Value, k int64) bool {
	pr := bd.newProver(at)
	l := pr.lenTerm(x)
	pr.pathFacts()
	pr.refresh()
	return pr.prove(Zero, l, -k)
}

// ProveAtLeast: v >= k.
func (bd *Bounds) ProveAtLeast(at ssa.Instruction, v ssa.Value, k int64) bool {
	pr := bd.newProver(at)
	t := pr.termOf(v)
	pr.pathFacts()
	pr.refresh()
	return pr.prove(Zero, t, -k)
}

// ProveAtMost: v <= k.
func (bd *Bounds) ProveAtMost(at ssa.Instruction, v ssa.Value, k int64) bool {
	pr := bd.newProver(at)
	t := pr.termOf(v)
	pr.pathFacts()
	pr.refresh()
	return pr.prove(t, Zero, k)
}

// ProveDiffAtMost: a - b <= k at instruction at.
func (bd *Bounds) ProveDiffAtMost(at ssa.Instruction, a, b ssa.Value, k int64) bool {
	pr := bd.newProver(at)
	ta, tb := pr.termOf(a), pr.termOf(b)
	pr.pathFacts()
	pr.refresh()
	return pr.prove(ta, tb, k)
}

// ProveLenLE: len(x) <= v at instruction at.
func (bd *Bounds) ProveLenLE(at ssa.Instruction, x ssa.Value, v ssa.Value) bool {
	pr := bd.newProver(at)
	tx, tv := pr.lenTerm(x), pr.termOf(v)
	pr.pathFacts()
	pr.refresh()
	return pr.prove(tx, tv, 0)
}

// ProveLenLenLE: len(a) <= len(b) at instruction at.
func (bd *Bounds) ProveLenLenLE(at ssa.Instruction, a, b ssa.Value) bool {
	pr := bd.newProver(at)
	ta, tb := pr.lenTerm(a), pr.lenTerm(b)
	pr.pathFacts()
	pr.refresh()
	return pr.prove(ta, tb, 0)
}

// ---- interprocedural facts ----

type paramKey struct {
	fn  *ssa.Function
	idx int
}

type rangeFact struct {
	lo, hi     int64
	okLo, okHi bool
	done       bool
}

// paramRange: numeric range of an integer parameter of a function all of whose
// callers are known (unexported, never used as a value): the hull of the ranges
// proved for the argument at every static call site.
func (bd *Bounds) paramRange(prm *ssa.Parameter, depth int) (lo, hi int64, okLo, okHi bool) {
	fn := prm.Parent()
	if _, _, isInt := bd.bitsOf(prm.Type()); !isInt || depth >= 3 {
		return
	}
	idx := -1
	for i, q := range fn.Params {
		if q == prm {
			idx = i
		}
	}
	if idx < 0 || fn.Parent() != nil {
		return
	}
	if bd.prCache == nil {
		bd.prCache = map[paramKey]*rangeFact{}
	}
	k := paramKey{fn, idx}
	if rf, ok := bd.prCache[k]; ok {
		if !rf.done {
			return // recursion: no fact
		}
		return rf.lo, rf.hi, rf.okLo, rf.okHi
	}
	rf := &rangeFact{}
	bd.prCache[k] = rf
	defer func() { rf.done = true }()
	// all callers known?
	if obj := fn.Object(); obj == nil || obj.Exported() && fn.Signature.Recv() == nil {
		if obj == nil || obj.Exported() {
			return
		}
	}
	if fn.Object() != nil && fn.Object().Exported() {
		return
	}
	sites := bd.P.StaticCallSites(fn)
	if len(sites) == 0 {
		return
	}
	// the function must not escape as a value
	for _, f := range bd.P.ModFuncs {
		for _, in := range AllInstrs(f) {
			for _, op := range in.Operands(nil) {
				if op != nil && *op != nil {
					if fv, ok := (*op).(*ssa.Function); ok && normFn(fv) == fn {
						if ci, isCall := in.(ssa.CallInstruction); !isCall || ci.Common().Value != *op {
							return
						}
					}
				}
			}
		}
	}
	first := true
	for _, ci := range sites {
		arg := ci.Common().Args[idx]
		pr := bd.newProver(ci.(ssa.Instruction))
		pr.depth = depth + 1
		t := pr.termOf(arg)
		pr.pathFacts()
		pr.refresh()
		l, okL := pr.lb(t)
		u, okU := pr.ub(t)
		if first {
			rf.lo, rf.hi, rf.okLo, rf.okHi = l, u, okL, okU
			first = false
			continue
		}
		if !okL {
			rf.okLo = false
		} else if l < rf.lo {
			rf.lo = l
		}
		if !okU {
			rf.okHi = false
		} else if u > rf.hi {
			rf.hi = u
		}
	}
	return rf.lo, rf.hi, rf.okLo, rf.okHi
}

type sumKey struct {
	fn  *ssa.Function
	idx int
}

type resultSummary struct {
	nonNeg  bool
	leLenOf []int // parameter indexes j such that result <= len(param j)
	// idxOfField: (parameter j, field F) such that every return yields a negative constant or a value
	// < len(param_j.F), and the callee (transitively) never writes F
	idxOfField []paramField
	done       bool
}

type paramField struct {
	param int
	field *types.Var
}

// summary of an integer result of a module function: result >= 0, and
// result <= len(p) for slice/string parameters p, each proved at every return.
func (bd *Bounds) summary(fn *ssa.Function, idx int) *resultSummary {
	if bd.sumCache == nil {
		bd.sumCache = map[sumKey]*resultSummary{}
	}
	k := sumKey{fn, idx}
	if s, ok := bd.sumCache[k]; ok {
		if !s.done {
			return &resultSummary{}
		}
		return s
	}
	s := &resultSummary{}
	bd.sumCache[k] = s
	defer func() { s.done = true }()
	if fn.Blocks == nil || idx >= fn.Signature.Results().Len() {
		return s
	}
	if _, _, isInt := bd.bitsOf(fn.Signature.Results().At(idx).Type()); !isInt {
		return s
	}
	rets := Returns(fn)
	if len(rets) == 0 {
		return s
	}
	nonNeg := true
	le := map[int]bool{}
	for j, prm := range fn.Params {
		switch prm.Type().Underlying().(type) {
		case *types.Slice:
			le[j] = true
		case *types.Basic:
			if prm.Type().Underlying().(*types.Basic).Info()&types.IsString != 0 {
				le[j] = true
			}
		}
	}
	for _, ret := range rets {
		for _, v := range ReturnValues(ret, idx) {
			pr := bd.newProver(ret)
			pr.depth = 1
			t := pr.termOf(v)
			for j := range le {
				pr.lenTerm(fn.Params[j])
			}
			pr.pathFacts()
			pr.refresh()
			if !pr.prove(Zero, t, 0) {
				nonNeg = false
			}
			for j := range le {
				if !pr.prove(t, pr.lenTerm(fn.Params[j]), 0) {
					delete(le, j)
				}
			}
		}
	}
	s.nonNeg = nonNeg
	for j := range le {
		s.leLenOf = append(s.leLenOf, j)
	}
	// result indexes a slice field of a pointer parameter: "-1 or a valid index of p.F"
	type cand struct {
		pf   paramField
		load ssa.Value
	}
	var cands []cand
	for _, in := range AllInstrs(fn) {
		u, ok := in.(*ssa.UnOp)
		if !ok || u.Op != token.MUL {
			continue
		}
		fa, ok := u.X.(*ssa.FieldAddr)
		if !ok {
			continue
		}
		if _, isSl := u.Type().Underlying().(*types.Slice); !isSl {
			continue
		}
		f, base := FieldOfAddr(fa)
		if f == nil || bd.mayWrite(fn, f, map[*ssa.Function]bool{}) {
			continue
		}
		for j, prm := range fn.Params {
			if Through(base) == ssa.Value(prm) {
				cands = append(cands, cand{paramField{j, f.Origin()}, u})
			}
		}
	}
	okPF := map[paramField]bool{}
	for _, c := range cands {
		okPF[c.pf] = true
	}
	for pf := range okPF {
		for _, ret := range rets {
			for _, v := range ReturnValues(ret, idx) {
				if k, isK := ConstInt(v); isK && k < 0 {
					continue
				}
				proved := false
				for _, c := range cands {
					if c.pf != pf {
						continue
					}
					pr := bd.newProver(ret)
					pr.depth = 1
					t := pr.termOf(v)
					l := pr.lenTerm(c.load)
					pr.pathFacts()
					pr.refresh()
					if pr.prove(t, l, -1) {
						proved = true
						break
					}
				}
				if !proved {
					delete(okPF, pf)
				}
			}
		}
	}
	for pf := range okPF {
		s.idxOfField = append(s.idxOfField, pf)
	}
	return s
}

func (bd *Bounds) applySummary(pr *prover, t Term, callee *ssa.Function, call *ssa.Call, idx int) {
	if pr.depth >= 3 {
		return
	}
	s := bd.summary(callee, idx)
	if s.nonNeg {
		pr.add(Zero, t, 0)
	}
	for _, j := range s.leLenOf {
		if j < len(call.Call.Args) {
			pr.add(t, pr.lenTerm(call.Call.Args[j]), 0)
		}
	}
	// "-1 or a valid index of arg_j.F": once the result is known non-negative it is below the length of every
	// load of that field on the same object between which and the call nothing writes the field
	if len(s.idxOfField) > 0 && pr.entails(Zero, t, 0) {
		caller := call.Parent()
		for _, pf := range s.idxOfField {
			if pf.param >= len(call.Call.Args) {
				continue
			}
			arg := call.Call.Args[pf.param]
			for _, in := range AllInstrs(caller) {
				u, ok := in.(*ssa.UnOp)
				if !ok || u.Op != token.MUL {
					continue
				}
				fa, ok := u.X.(*ssa.FieldAddr)
				if !ok {
					continue
				}
				f, base := FieldOfAddr(fa)
				if f == nil || f.Origin() != pf.field || !(Through(base) == Through(arg) || bd.sameVal(base, arg)) {
					continue
				}
				if bd.fieldStable(caller, f, call, u) {
					pr.add(t, pr.lenTerm(u), -1)
				}
			}
		}
	}
	if reason, ok := bd.MinFuncs[callee]; ok && reason != "" {
		// audited contract: returns the smallest of its (variadic) arguments
		for _, a := range variadicElems(call) {
			pr.add(t, pr.termOf(a), 0)
		}
		allNonNeg := true
		for _, a := range variadicElems(call) {
			if !pr.entails(Zero, pr.termOf(a), 0) {
				allNonNeg = false
			}
		}
		if allNonNeg && len(variadicElems(call)) > 0 {
			pr.add(Zero, t, 0)
		}
	}
}

// variadicElems: the values stored into the varargs array of a call f(a, b, c).
func variadicElems(call *ssa.Call) []ssa.Value {
	if len(call.Call.Args) == 0 {
		return nil
	}
	last := call.Call.Args[len(call.Call.Args)-1]
	sl, ok := last.(*ssa.Slice)
	if !ok {
		return nil
	}
	arr, ok := sl.X.(*ssa.Alloc)
	if !ok {
		return nil
	}
	var out []ssa.Value
	for _, ref := range *arr.Referrers() {
		if ia, ok := ref.(*ssa.IndexAddr); ok {
			for _, r2 := range *ia.Referrers() {
				if st, ok := r2.(*ssa.Store); ok && st.Addr == ssa.Value(ia) {
					out = append(out, st.Val)
				}
			}
		}
	}
	return out
}

// betweenLast: the instructions that can execute between the LAST execution of
// first and the following execution of second: reachable from first without
// re-executing first, and able to reach second without re-executing first.
func betweenLast(fn *ssa.Function, first, second ssa.Instruction) map[ssa.Instruction]bool {
	stop := func(in ssa.Instruction) bool { return in == second || in == first }
	fwd := Reach(fn, first, nil, stop)
	out := map[ssa.Instruction]bool{}
	for in := range fwd {
		if in == first {
			continue
		}
		if in == second {
			out[in] = true
			continue
		}
		if Reach(fn, in, nil, func(x ssa.Instruction) bool { return x == first || x == second })[second] {
			out[in] = true
		}
	}
	return out
}
