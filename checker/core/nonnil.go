package core

import (
	"go/token"
	"go/types"

	"golang.org/x/tools/go/ssa"
)

// NonNil decides "value v is certainly non-nil when instruction at executes".
// It is a must-analysis: false means "cannot show", never "is nil".
type NonNil struct {
	P *Prog
	// SentinelOK caches the verdict for package-level error variables.
	sentinel map[*ssa.Global]bool
}

func NewNonNil(p *Prog) *NonNil { return &NonNil{P: p, sentinel: map[*ssa.Global]bool{}} }

var nonNilCtors = map[string]bool{
	"errors.New":                   true,
	"fmt.Errorf":                   true,
	"github.com/pkg/errors.New":    true,
	"github.com/pkg/errors.Errorf": true,
	"(context.Context).Err":        false, // may be nil before cancellation
}

// At reports whether v is known non-nil at instruction `at`.
func (n *NonNil) At(v ssa.Value, at ssa.Instruction) bool {
	return n.at(v, at, map[ssa.Value]bool{})
}

func (n *NonNil) at(v ssa.Value, at ssa.Instruction, seen map[ssa.Value]bool) bool {
	if seen[v] {
		return true // optimistic on cycles (phi loops): other edges decide
	}
	seen[v] = true
	defer delete(seen, v)
	switch x := v.(type) {
	case *ssa.Const:
		return x.Value != nil || isBasicType(x.Type())
	case *ssa.MakeInterface:
		// boxing a non-pointer, non-interface concrete value is non-nil
		switch x.X.Type().Underlying().(type) {
		case *types.Pointer, *types.Interface, *types.Map, *types.Slice, *types.Chan, *types.Signature:
			return n.at(x.X, at, seen)
		}
		return true
	case *ssa.Alloc, *ssa.MakeChan, *ssa.MakeMap, *ssa.MakeSlice, *ssa.MakeClosure, *ssa.Function:
		return true
	case *ssa.ChangeInterface:
		return n.at(x.X, at, seen)
	case *ssa.ChangeType:
		return n.at(x.X, at, seen)
	case *ssa.Call:
		if nonNilCtors[CalleeName(x.Common())] {
			return true
		}
		switch CalleeName(x.Common()) {
		case "github.com/pkg/errors.Wrapf", "github.com/pkg/errors.Wrap", "github.com/pkg/errors.WithStack", "github.com/pkg/errors.WithMessage", "github.com/pkg/errors.WithMessagef":
			// nil in, nil out
			if len(x.Call.Args) > 0 {
				return n.at(x.Call.Args[0], x, seen)
			}
		}
	case *ssa.Phi:
		for i, e := range x.Edges {
			pred := x.Block().Preds[i]
			last := pred.Instrs[len(pred.Instrs)-1]
			// edge-sensitive: `r := err; if r == nil { r = ErrClosed }` — the edge that carries err is
			// the one on which err != nil was just established
			if iff, ok := last.(*ssa.If); ok {
				if v, isEq, okN := NilCheck(iff.Cond); okN && v == e {
					nonNilSucc := 0 // `v != nil`: true edge
					if isEq {
						nonNilSucc = 1
					}
					if pred.Succs[nonNilSucc] == x.Block() && pred.Succs[1-nonNilSucc] != x.Block() {
						continue
					}
				}
			}
			if !n.at(e, last, seen) {
				return false
			}
		}
		return true
	case *ssa.UnOp:
		if x.Op == token.MUL {
			switch a := x.X.(type) {
			case *ssa.Global:
				return n.sentinelNonNil(a)
			case *ssa.Alloc:
				return n.cellNonNilAt(a, x, seen)
			case *ssa.FreeVar:
				// captured variable: evaluate the cell where the closure was made
				b := FreeVarBinding(a)
				if al, ok := b.(*ssa.Alloc); ok {
					mc := makeClosureOf(a.Parent())
					if mc == nil {
						return false
					}
					// the closure must not be able to run after a later store to the cell:
					// require that no store to the cell is reachable from the MakeClosure
					// and that the closure itself does not store nil.
					for _, r := range *al.Referrers() {
						if st, ok := r.(*ssa.Store); ok && st.Addr == al && st.Parent() == mc.Parent() {
							if Reach(mc.Parent(), mc, nil, nil)[st] {
								return false
							}
						}
					}
					return n.cellNonNilAt(al, mc, seen)
				}
				return false
			}
		}
	}
	// dominating guard `v != nil`
	if at != nil {
		fn := at.Parent()
		cut := CutWhere(func(c ssa.Value) int {
			x, isEq, ok := NilCheck(c)
			if !ok || x != v {
				return 0
			}
			if isEq {
				return -1
			}
			return 1
		})
		if GuardEdges(fn, cut) > 0 && GuardedFromEntry(fn, at, cut) {
			return true
		}
	}
	return false
}

func makeClosureOf(fn *ssa.Function) *ssa.MakeClosure {
	par := fn.Parent()
	if par == nil {
		return nil
	}
	var found *ssa.MakeClosure
	for _, in := range AllInstrs(par) {
		if mc, ok := in.(*ssa.MakeClosure); ok && mc.Fn == fn {
			if found != nil {
				return nil
			}
			found = mc
		}
	}
	return found
}

// cellNonNilAt: forward must-analysis "the content of local cell a is non-nil"
// evaluated just before instruction at.
func (n *NonNil) cellNonNilAt(a *ssa.Alloc, at ssa.Instruction, seen map[ssa.Value]bool) bool {
	fn := a.Parent()
	if at.Parent() != fn {
		return false
	}
	// the cell must not be written from closures
	for _, r := range *a.Referrers() {
		switch x := r.(type) {
		case *ssa.Store:
		case *ssa.UnOp:
		case *ssa.MakeClosure:
			// closure may write the cell: check its body for stores to the free var
			cf, _ := x.Fn.(*ssa.Function)
			if cf == nil {
				return false
			}
			for i, b := range x.Bindings {
				if b != a {
					continue
				}
				fv := cf.FreeVars[i]
				for _, rr := range *fv.Referrers() {
					if st, ok := rr.(*ssa.Store); ok && st.Addr == fv {
						return false
					}
				}
			}
		case *ssa.DebugRef:
		default:
			return false // address escapes
		}
	}
	// state per block entry: true = non-nil on all paths
	in := map[*ssa.BasicBlock]bool{}
	for _, b := range fn.Blocks {
		in[b] = true
	}
	in[fn.Blocks[0]] = false
	transfer := func(b *ssa.BasicBlock, st bool, stopAt ssa.Instruction) (bool, bool) {
		for _, ins := range b.Instrs {
			if ins == stopAt {
				return st, true
			}
			if s, ok := ins.(*ssa.Store); ok && s.Addr == a {
				st = n.at(s.Val, s, seen)
			}
		}
		return st, false
	}
	edgeFact := func(b *ssa.BasicBlock, i int, st bool) bool {
		iff, ok := b.Instrs[len(b.Instrs)-1].(*ssa.If)
		if !ok {
			return st
		}
		c, neg := StripNot(iff.Cond)
		x, isEq, ok := NilCheck(c)
		if !ok {
			return st
		}
		ld, ok := x.(*ssa.UnOp)
		if !ok || ld.Op != token.MUL || ld.X != a {
			return st
		}
		// the load must be the latest view of the cell: no store between load and the If
		if ld.Block() != b {
			return st
		}
		past := false
		for _, ins := range b.Instrs {
			if ins == ld {
				past = true
				continue
			}
			if past {
				if s, ok := ins.(*ssa.Store); ok && s.Addr == a {
					return st
				}
			}
		}
		nonNilOnTrue := !isEq
		if neg {
			nonNilOnTrue = !nonNilOnTrue
		}
		if (i == 0 && nonNilOnTrue) || (i == 1 && !nonNilOnTrue) {
			return true
		}
		return st
	}
	changed := true
	for iter := 0; changed && iter < 100; iter++ {
		changed = false
		for _, b := range fn.Blocks {
			st := in[b]
			if b != fn.Blocks[0] {
				st = true
				if len(b.Preds) == 0 {
					st = false
				}
				for _, p := range b.Preds {
					out, _ := transfer(p, in[p], nil)
					idx := 0
					for i, s := range p.Succs {
						if s == b {
							idx = i
						}
					}
					out = edgeFact(p, idx, out)
					st = st && out
				}
			}
			if st != in[b] {
				in[b] = st
				changed = true
			}
		}
	}
	st, _ := transfer(at.Block(), in[at.Block()], at)
	return st
}

// sentinelNonNil: a package-level variable of interface type is treated as
// non-nil when every store to it in its package's init stores a non-nil value
// and nothing else in the module stores to it.
func (n *NonNil) sentinelNonNil(g *ssa.Global) bool {
	if v, ok := n.sentinel[g]; ok {
		return v
	}
	n.sentinel[g] = true // cycles (ErrClosed = net.ErrClosed)
	ok := false
	count := 0
	if g.Pkg != nil {
		if init := g.Pkg.Func("init"); init != nil {
			ok = true
			for _, in := range AllInstrs(init) {
				if st, k := in.(*ssa.Store); k && st.Addr == g {
					count++
					if !n.at(st.Val, st, map[ssa.Value]bool{}) {
						ok = false
					}
				}
			}
		}
	}
	if count == 0 {
		ok = false
	}
	// no other writer in the module
	if ok {
		for _, fn := range n.P.ModFuncs {
			for _, in := range AllInstrs(fn) {
				if st, k := in.(*ssa.Store); k && st.Addr == g {
					ok = false
				}
			}
		}
	}
	n.sentinel[g] = ok
	return ok
}
