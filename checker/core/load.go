// Package core holds the shared loader, SSA helpers, guard engine and the
// obligation/evidence plumbing used by every rule.
package core

import (
	"fmt"
	"go/ast"
	"go/token"
	"go/types"
	"os"
	"sort"
	"strings"

	"golang.org/x/tools/go/callgraph"
	"golang.org/x/tools/go/callgraph/cha"
	"golang.org/x/tools/go/callgraph/vta"
	"golang.org/x/tools/go/packages"
	"golang.org/x/tools/go/ssa"
	"golang.org/x/tools/go/ssa/ssautil"
)

const ModPath = "go.brendoncarroll.net/p2p"

// MinPackages is the number of packages of the module confirmed on the pinned
// tree; fewer than this fails the load ("cover what the build covers").
const MinPackages = 24

type Prog struct {
	Repo   string
	Fset   *token.FileSet
	Pkgs   []*packages.Package          // module packages only
	ByPath map[string]*packages.Package // import path -> package (module + deps)
	SSA    *ssa.Program
	// ModFuncs are all functions with a body whose source is in the module
	// (declared functions, methods and function literals; generic bodies, not
	// instantiations).
	ModFuncs []*ssa.Function
	// Recovering: module functions that defer a recover()
	Recovering []string
	callSites  map[*ssa.Function][]ssa.CallInstruction
	cgCHA      *callgraph.Graph
	cgVTA      *callgraph.Graph
	GOARCH     string
}

// Load type-checks /repo (./...) and builds SSA for the whole program.
// overlay maps absolute file names to replacement contents (used by the
// self-validation mutants; nothing is written to disk).
func Load(repo string, overlay map[string][]byte, goarch string) (*Prog, error) {
	env := append(os.Environ(),
		"GOFLAGS=-mod=mod", "GOPROXY=off", "GOSUMDB=off", "GOWORK=off", "GOTOOLCHAIN=local")
	if goarch != "" {
		env = append(env, "GOARCH="+goarch)
	}
	cfg := &packages.Config{
		Mode:    packages.LoadAllSyntax,
		Dir:     repo,
		Env:     env,
		Overlay: overlay,
		Tests:   false,
	}
	pkgs, err := packages.Load(cfg, "./...")
	if err != nil {
		return nil, fmt.Errorf("packages.Load: %w", err)
	}
	var errs []string
	packages.Visit(pkgs, nil, func(p *packages.Package) {
		for _, e := range p.Errors {
			errs = append(errs, e.Error())
		}
	})
	if len(errs) > 0 {
		sort.Strings(errs)
		if len(errs) > 10 {
			errs = errs[:10]
		}
		return nil, fmt.Errorf("type-check/load errors: %s", strings.Join(errs, "; "))
	}
	p := &Prog{Repo: repo, ByPath: map[string]*packages.Package{}, GOARCH: goarch}
	packages.Visit(pkgs, nil, func(pk *packages.Package) { p.ByPath[pk.PkgPath] = pk })
	for _, pk := range pkgs {
		if pk.PkgPath == ModPath || strings.HasPrefix(pk.PkgPath, ModPath+"/") {
			p.Pkgs = append(p.Pkgs, pk)
		}
	}
	if len(p.Pkgs) < MinPackages {
		return nil, fmt.Errorf("only %d module packages loaded, expected at least %d", len(p.Pkgs), MinPackages)
	}
	sort.Slice(p.Pkgs, func(i, j int) bool { return p.Pkgs[i].PkgPath < p.Pkgs[j].PkgPath })
	prog, _ := ssautil.AllPackages(pkgs, ssa.BuilderMode(0))
	prog.Build()
	p.SSA = prog
	p.Fset = prog.Fset
	// enumerate module functions from declarations (AllFunctions omits methods of
	// never-instantiated generic types).
	seen := map[*ssa.Function]bool{}
	var add func(f *ssa.Function)
	add = func(f *ssa.Function) {
		if f == nil || seen[f] {
			return
		}
		seen[f] = true
		if f.Blocks != nil {
			p.ModFuncs = append(p.ModFuncs, f)
		}
		for _, a := range f.AnonFuncs {
			add(a)
		}
	}
	for _, pk := range p.Pkgs {
		for _, file := range pk.Syntax {
			for _, d := range file.Decls {
				fd, ok := d.(*ast.FuncDecl)
				if !ok {
					continue
				}
				obj, _ := pk.TypesInfo.Defs[fd.Name].(*types.Func)
				if obj == nil {
					continue
				}
				add(prog.FuncValue(obj))
			}
		}
		// package initialisers hold function literals assigned to package vars
		if sp := prog.Package(pk.Types); sp != nil {
			if init := sp.Func("init"); init != nil {
				for _, a := range init.AnonFuncs {
					add(a)
				}
			}
		}
	}
	sort.Slice(p.ModFuncs, func(i, j int) bool { return p.ModFuncs[i].String() < p.ModFuncs[j].String() })
	// functions that recover from panics: their synthetic recover block is a real exit (core.Returns
	// and core.Reach include it for exactly these); listed in the evidence
	for _, fn := range p.ModFuncs {
		if Recovers(fn) {
			p.Recovering = append(p.Recovering, FnName(fn))
		}
	}
	return p, nil
}

// InModule reports whether fn's source is in the module under analysis.
func (p *Prog) InModule(fn *ssa.Function) bool {
	if fn == nil {
		return false
	}
	if o := fn.Origin(); o != nil {
		fn = o
	}
	for fn.Parent() != nil {
		fn = fn.Parent()
	}
	if fn.Pkg == nil {
		// wrappers / instantiations: look at the object
		if obj := fn.Object(); obj != nil && obj.Pkg() != nil {
			pp := obj.Pkg().Path()
			return pp == ModPath || strings.HasPrefix(pp, ModPath+"/")
		}
		return false
	}
	pp := fn.Pkg.Pkg.Path()
	return pp == ModPath || strings.HasPrefix(pp, ModPath+"/")
}

// CHA returns the class-hierarchy call graph (over-approximation).
func (p *Prog) CHA() *callgraph.Graph {
	if p.cgCHA == nil {
		p.cgCHA = cha.CallGraph(p.SSA)
	}
	return p.cgCHA
}

// VTA returns the variable-type-analysis call graph seeded with CHA.
func (p *Prog) VTA() *callgraph.Graph {
	if p.cgVTA == nil {
		p.cgVTA = vta.CallGraph(ssautil.AllFunctions(p.SSA), p.CHA())
	}
	return p.cgVTA
}

// Pkg returns the module package with the given path relative to the module
// root ("" for the root package).
func (p *Prog) Pkg(rel string) *packages.Package {
	path := ModPath
	if rel != "" {
		path += "/" + rel
	}
	return p.ByPath[path]
}

// Func resolves a declared function or method of the module.
// name is "Func" or "Type.Method" (pointer or value receiver alike).
// It returns nil when the anchor does not resolve; callers must treat that as
// a check failure.
func (p *Prog) Func(rel, name string) *ssa.Function {
	pk := p.Pkg(rel)
	if pk == nil {
		return nil
	}
	if i := strings.IndexByte(name, '.'); i >= 0 {
		tn, _ := pk.Types.Scope().Lookup(name[:i]).(*types.TypeName)
		if tn == nil {
			return nil
		}
		named, _ := tn.Type().(*types.Named)
		if named == nil {
			return nil
		}
		for i2 := 0; i2 < named.NumMethods(); i2++ {
			m := named.Method(i2)
			if m.Name() == name[i+1:] {
				return p.SSA.FuncValue(m)
			}
		}
		return nil
	}
	obj, _ := pk.Types.Scope().Lookup(name).(*types.Func)
	if obj == nil {
		return nil
	}
	return p.SSA.FuncValue(obj)
}

// Named resolves a named type of the module.
func (p *Prog) Named(rel, name string) *types.Named {
	pk := p.Pkg(rel)
	if pk == nil {
		return nil
	}
	tn, _ := pk.Types.Scope().Lookup(name).(*types.TypeName)
	if tn == nil {
		return nil
	}
	n, _ := tn.Type().(*types.Named)
	return n
}

// Field resolves a struct field object of a named struct type of the module.
func (p *Prog) Field(rel, typ, field string) *types.Var {
	n := p.Named(rel, typ)
	if n == nil {
		return nil
	}
	st, _ := n.Underlying().(*types.Struct)
	if st == nil {
		return nil
	}
	for i := 0; i < st.NumFields(); i++ {
		if st.Field(i).Name() == field {
			return st.Field(i)
		}
	}
	return nil
}

// Global resolves a package-level variable or constant object.
func (p *Prog) Object(pkgPath, name string) types.Object {
	pk := p.ByPath[pkgPath]
	if pk == nil {
		return nil
	}
	return pk.Types.Scope().Lookup(name)
}

// Pos renders a position relative to the repository root.
func (p *Prog) Pos(pos token.Pos) string {
	if !pos.IsValid() {
		return "-"
	}
	ps := p.Fset.Position(pos)
	fn := strings.TrimPrefix(ps.Filename, p.Repo+"/")
	return fmt.Sprintf("%s:%d:%d", fn, ps.Line, ps.Column)
}

// FnName is a stable, position-free name for a function (literals are named
// by their parent and ordinal, as go/ssa does).
func FnName(fn *ssa.Function) string {
	s := fn.String()
	return strings.ReplaceAll(s, ModPath, "p2p")
}

// RelFile returns the repo-relative file of a function.
func (p *Prog) RelFile(fn *ssa.Function) string {
	ps := p.Fset.Position(fn.Pos())
	return strings.TrimPrefix(ps.Filename, p.Repo+"/")
}
