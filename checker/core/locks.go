package core

import (
	"go/types"
	"sort"
	"strings"

	"golang.org/x/tools/go/ssa"
)

// LockSet is a must-held set of mutex fields (lock identity = the mutex field
// object of the struct type; instances are not distinguished). Value: true =
// held exclusively (Lock), false = held shared (RLock).
type LockSet map[*types.Var]bool

func (l LockSet) clone() LockSet {
	o := LockSet{}
	for k, v := range l {
		o[k] = v
	}
	return o
}

func meet(a, b LockSet) LockSet {
	o := LockSet{}
	for k, va := range a {
		if vb, ok := b[k]; ok {
			o[k] = va && vb
		}
	}
	return o
}

func union(a, b LockSet) LockSet {
	o := a.clone()
	for k, v := range b {
		if w, ok := o[k]; ok {
			o[k] = v || w
		} else {
			o[k] = v
		}
	}
	return o
}

func equalLS(a, b LockSet) bool {
	if len(a) != len(b) {
		return false
	}
	for k, v := range a {
		if w, ok := b[k]; !ok || v != w {
			return false
		}
	}
	return true
}

func (l LockSet) String() string {
	var s []string
	for k, w := range l {
		m := "R"
		if w {
			m = "W"
		}
		s = append(s, k.Name()+":"+m)
	}
	sort.Strings(s)
	return "{" + strings.Join(s, ",") + "}"
}

// Locks computes, for every module function, the must-held lockset before
// each instruction, with entry locksets propagated from call sites.
type Locks struct {
	P     *Prog
	Entry map[*ssa.Function]LockSet
	At    map[ssa.Instruction]LockSet
	top   map[*ssa.Function]bool // entry not yet constrained
}

// mutexOp classifies a call as a lock operation on a struct's mutex field.
func mutexOp(c *ssa.CallCommon) (field *types.Var, op string) {
	name := CalleeName(c)
	switch name {
	case "(*sync.Mutex).Lock", "(*sync.RWMutex).Lock":
		op = "lock"
	case "(*sync.RWMutex).RLock":
		op = "rlock"
	case "(*sync.Mutex).Unlock", "(*sync.RWMutex).Unlock", "(*sync.RWMutex).RUnlock":
		op = "unlock"
	default:
		return nil, ""
	}
	if len(c.Args) == 0 {
		return nil, ""
	}
	f, _ := FieldOfAddr(c.Args[0])
	if f == nil {
		return nil, ""
	}
	return f, op
}

// NewLocks computes must-held locksets (may=false: intersection at joins and
// over call sites) or may-held locksets (may=true: union).
func NewLocks(p *Prog, may bool) *Locks {
	join := meet
	if may {
		join = union
	}

	l := &Locks{P: p, Entry: map[*ssa.Function]LockSet{}, At: map[ssa.Instruction]LockSet{}, top: map[*ssa.Function]bool{}}
	// call sites: static calls; closures invoked directly or through a module
	// helper that calls its function parameter.
	type site struct {
		caller *ssa.Function
		instr  ssa.Instruction
	}
	for _, fn := range p.ModFuncs {
		l.top[fn] = true
	}
	sitesOf := map[*ssa.Function][]site{}
	unknownUse := map[*ssa.Function]bool{}
	// paramCalls[h][i] = instructions in h that call h's i-th parameter
	paramCalls := map[*ssa.Function]map[int][]ssa.Instruction{}
	for _, fn := range p.ModFuncs {
		for _, in := range AllInstrs(fn) {
			ci, ok := in.(ssa.CallInstruction)
			if !ok {
				continue
			}
			if _, isGo := in.(*ssa.Go); isGo {
				continue
			}
			if _, isDefer := in.(*ssa.Defer); isDefer {
				continue
			}
			v := Through(ci.Common().Value)
			if prm, ok := v.(*ssa.Parameter); ok && !ci.Common().IsInvoke() {
				// the parameter may belong to an enclosing function (called from a nested literal)
				owner := prm.Parent()
				for i, q := range owner.Params {
					if q == prm {
						// index in call arguments: receivers are Params[0] and Args[0] alike
						if paramCalls[owner] == nil {
							paramCalls[owner] = map[int][]ssa.Instruction{}
						}
						paramCalls[owner][i] = append(paramCalls[owner][i], in)
					}
				}
			}
		}
	}
	// forwarding: a function that passes its own function parameter on to another
	// module function which calls it (handlePart -> collector.withBuffer)
	for iter := 0; iter < 4; iter++ {
		for _, fn := range p.ModFuncs {
			for _, in := range AllInstrs(fn) {
				ci, ok := in.(*ssa.Call)
				if !ok {
					continue
				}
				callee := StaticCallee(ci.Common())
				if callee == nil || !p.InModule(callee) {
					continue
				}
				for ai, a := range ci.Common().Args {
					prm, ok := Through(a).(*ssa.Parameter)
					if !ok {
						continue
					}
					if _, isFn := prm.Type().Underlying().(*types.Signature); !isFn {
						continue
					}
					owner := prm.Parent()
					for i, q := range owner.Params {
						if q != prm {
							continue
						}
						for _, pc := range paramCalls[callee][ai] {
							dup := false
							for _, e := range paramCalls[owner][i] {
								if e == pc {
									dup = true
								}
							}
							if !dup {
								if paramCalls[owner] == nil {
									paramCalls[owner] = map[int][]ssa.Instruction{}
								}
								paramCalls[owner][i] = append(paramCalls[owner][i], pc)
							}
						}
					}
				}
			}
		}
	}
	for _, fn := range p.ModFuncs {
		for _, in := range AllInstrs(fn) {
			switch x := in.(type) {
			case *ssa.Go:
				if c := StaticCallee(x.Common()); c != nil {
					unknownUse[c] = true
				}
				if c := ClosureFn(x.Common().Value); c != nil {
					unknownUse[c] = true
				}
			case *ssa.Defer:
				if c := StaticCallee(x.Common()); c != nil && p.InModule(c) {
					// runs at function exit: treat conservatively as unknown lockset
					unknownUse[c] = true
				}
			case *ssa.Call:
				cc := x.Common()
				if callee := StaticCallee(cc); callee != nil && p.InModule(callee) {
					sitesOf[callee] = append(sitesOf[callee], site{fn, in})
					// closures passed as arguments to a module helper that calls its parameter
					for ai, a := range cc.Args {
						lit := ClosureFn(a)
						if lit == nil {
							continue
						}
						if pcs := paramCalls[callee][ai]; len(pcs) > 0 {
							for _, pc := range pcs {
								sitesOf[lit] = append(sitesOf[lit], site{pc.Parent(), pc})
							}
						} else {
							unknownUse[lit] = true
						}
					}
				} else {
					// direct invocation of a literal
					if lit := ClosureFn(cc.Value); lit != nil {
						sitesOf[lit] = append(sitesOf[lit], site{fn, in})
					}
					// literals handed to external code (sync.Once.Do runs them synchronously under the caller's locks)
					for _, a := range cc.Args {
						lit := ClosureFn(a)
						if lit == nil {
							continue
						}
						if CalleeName(cc) == "(*sync.Once).Do" {
							sitesOf[lit] = append(sitesOf[lit], site{fn, in})
						} else {
							unknownUse[lit] = true
						}
					}
				}
			case *ssa.Store:
				if lit := ClosureFn(x.Val); lit != nil {
					unknownUse[lit] = true
				}
			}
		}
	}
	compute := func(fn *ssa.Function) {
		in := map[*ssa.BasicBlock]LockSet{}
		done := map[*ssa.BasicBlock]bool{}
		in[fn.Blocks[0]] = l.Entry[fn].clone()
		done[fn.Blocks[0]] = true
		transfer := func(b *ssa.BasicBlock, st LockSet) LockSet {
			st = st.clone()
			for _, ins := range b.Instrs {
				l.At[ins] = st.clone()
				if ci, ok := ins.(*ssa.Call); ok {
					if f, op := mutexOp(ci.Common()); f != nil {
						switch op {
						case "lock":
							st[f.Origin()] = true
						case "rlock":
							st[f.Origin()] = false
						case "unlock":
							delete(st, f.Origin())
						}
					}
				}
			}
			return st
		}
		changed := true
		for it := 0; changed && it < 50; it++ {
			changed = false
			for _, b := range fn.Blocks {
				var st LockSet
				if b == fn.Blocks[0] {
					st = in[b]
				} else {
					first := true
					for _, pr := range b.Preds {
						if !done[pr] {
							continue
						}
						o := transfer(pr, in[pr])
						if first {
							st, first = o, false
						} else {
							st = join(st, o)
						}
					}
					if first {
						continue
					}
				}
				if !done[b] || !equalLS(in[b], st) {
					in[b] = st
					done[b] = true
					changed = true
				}
			}
		}
		for _, b := range fn.Blocks {
			if done[b] {
				transfer(b, in[b])
			}
		}
	}
	for _, fn := range p.ModFuncs {
		l.Entry[fn] = LockSet{}
	}
	// fixpoint over entry locksets
	for iter := 0; iter < 12; iter++ {
		for _, fn := range p.ModFuncs {
			compute(fn)
		}
		changed := false
		for _, fn := range p.ModFuncs {
			var e LockSet
			if unknownUse[fn] || len(sitesOf[fn]) == 0 {
				e = LockSet{}
			} else {
				first := true
				for _, s := range sitesOf[fn] {
					ls := l.At[s.instr]
					if ls == nil {
						ls = LockSet{}
					}
					if first {
						e, first = ls.clone(), false
					} else {
						e = join(e, ls)
					}
				}
			}
			if !equalLS(e, l.Entry[fn]) {
				l.Entry[fn] = e
				changed = true
			}
		}
		if !changed {
			break
		}
	}
	return l
}
