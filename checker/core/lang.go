package core

import (
	"fmt"
	"regexp/syntax"
	"sort"
	"strings"
	"unicode/utf8"
)

// Regular languages over bytes as complete DFAs (alphabet: bytes 0..127 and
// one class for every byte >= 128). Used by the grammar-inclusion engine (E7).

const langSyms = 129

func symOf(b byte) int {
	if b < 128 {
		return int(b)
	}
	return 128
}

type DFA struct {
	Start  int
	Accept []bool
	Next   [][langSyms]int // complete
}

type nfa struct {
	n     int
	eps   [][]int
	trans []map[int][]int // state -> sym -> targets
	start int
	acc   int
}

func newNFA() *nfa { return &nfa{} }

func (a *nfa) add() int {
	a.eps = append(a.eps, nil)
	a.trans = append(a.trans, map[int][]int{})
	a.n++
	return a.n - 1
}

func (a *nfa) closure(set map[int]bool) {
	var stack []int
	for s := range set {
		stack = append(stack, s)
	}
	for len(stack) > 0 {
		s := stack[len(stack)-1]
		stack = stack[:len(stack)-1]
		for _, t := range a.eps[s] {
			if !set[t] {
				set[t] = true
				stack = append(stack, t)
			}
		}
	}
}

func keyOf(set map[int]bool) string {
	ks := make([]int, 0, len(set))
	for s := range set {
		ks = append(ks, s)
	}
	sort.Ints(ks)
	b := make([]byte, 0, len(ks)*3)
	for _, k := range ks {
		b = append(b, byte(k), byte(k>>8), byte(k>>16))
	}
	return string(b)
}

func (a *nfa) determinize(accepting func(set map[int]bool) bool) *DFA {
	d := &DFA{}
	index := map[string]int{}
	var sets []map[int]bool
	addSet := func(set map[int]bool) int {
		k := keyOf(set)
		if i, ok := index[k]; ok {
			return i
		}
		index[k] = len(sets)
		sets = append(sets, set)
		d.Accept = append(d.Accept, accepting(set))
		d.Next = append(d.Next, [langSyms]int{})
		return len(sets) - 1
	}
	s0 := map[int]bool{a.start: true}
	a.closure(s0)
	d.Start = addSet(s0)
	for i := 0; i < len(sets); i++ {
		for sym := 0; sym < langSyms; sym++ {
			nx := map[int]bool{}
			for s := range sets[i] {
				for _, t := range a.trans[s][sym] {
					nx[t] = true
				}
			}
			a.closure(nx)
			d.Next[i][sym] = addSet(nx)
		}
	}
	return d
}

// FromRegex builds the DFA of a regular expression (Perl syntax, anchors are
// ignored: the language is that of the whole string).
var regexMemo = map[string]*DFA{}

func LangFromRegex(expr string) (*DFA, error) {
	if d, ok := regexMemo[expr]; ok {
		return d, nil
	}
	d, err := langFromRegex(expr)
	if err == nil {
		regexMemo[expr] = d
	}
	return d, err
}

func langFromRegex(expr string) (*DFA, error) {
	re, err := syntax.Parse(expr, syntax.Perl)
	if err != nil {
		return nil, err
	}
	re = re.Simplify()
	a := newNFA()
	s, e, err := a.build(re)
	if err != nil {
		return nil, err
	}
	a.start, a.acc = s, e
	return a.determinize(func(set map[int]bool) bool { return set[a.acc] }).Minimize(), nil
}

func MustLang(expr string) *DFA {
	d, err := LangFromRegex(expr)
	if err != nil {
		panic(fmt.Sprintf("bad regex %q: %v", expr, err))
	}
	return d
}

func (a *nfa) build(re *syntax.Regexp) (int, int, error) {
	switch re.Op {
	case syntax.OpEmptyMatch, syntax.OpBeginLine, syntax.OpEndLine, syntax.OpBeginText, syntax.OpEndText:
		s := a.add()
		return s, s, nil
	case syntax.OpNoMatch:
		s, e := a.add(), a.add()
		return s, e, nil
	case syntax.OpLiteral:
		s := a.add()
		cur := s
		for _, r := range re.Rune {
			var buf [4]byte
			n := utf8.EncodeRune(buf[:], r)
			for i := 0; i < n; i++ {
				nx := a.add()
				syms := []int{symOf(buf[i])}
				if re.Flags&syntax.FoldCase != 0 && buf[i] < 128 {
					c := buf[i]
					if c >= 'a' && c <= 'z' {
						syms = append(syms, int(c-32))
					} else if c >= 'A' && c <= 'Z' {
						syms = append(syms, int(c+32))
					}
				}
				for _, sy := range syms {
					a.trans[cur][sy] = append(a.trans[cur][sy], nx)
				}
				cur = nx
			}
		}
		return s, cur, nil
	case syntax.OpCharClass, syntax.OpAnyChar, syntax.OpAnyCharNotNL:
		s, e := a.add(), a.add()
		for sym := 0; sym < langSyms; sym++ {
			in := false
			switch re.Op {
			case syntax.OpAnyChar:
				in = true
			case syntax.OpAnyCharNotNL:
				in = sym != '\n'
			default:
				for i := 0; i+1 < len(re.Rune); i += 2 {
					lo, hi := re.Rune[i], re.Rune[i+1]
					if sym < 128 && rune(sym) >= lo && rune(sym) <= hi {
						in = true
					}
					if sym == 128 && hi >= 128 {
						in = true
					}
				}
			}
			if in {
				a.trans[s][sym] = append(a.trans[s][sym], e)
			}
		}
		if re.Op != syntax.OpCharClass || true {
			// non-ASCII runes are multi-byte: allow continuation bytes to repeat
			if len(a.trans[s][128]) > 0 {
				a.trans[e][128] = append(a.trans[e][128], e)
			}
		}
		return s, e, nil
	case syntax.OpCapture:
		return a.build(re.Sub[0])
	case syntax.OpConcat:
		s := a.add()
		cur := s
		for _, sub := range re.Sub {
			ss, ee, err := a.build(sub)
			if err != nil {
				return 0, 0, err
			}
			a.eps[cur] = append(a.eps[cur], ss)
			cur = ee
		}
		return s, cur, nil
	case syntax.OpAlternate:
		s, e := a.add(), a.add()
		for _, sub := range re.Sub {
			ss, ee, err := a.build(sub)
			if err != nil {
				return 0, 0, err
			}
			a.eps[s] = append(a.eps[s], ss)
			a.eps[ee] = append(a.eps[ee], e)
		}
		return s, e, nil
	case syntax.OpStar, syntax.OpPlus, syntax.OpQuest:
		ss, ee, err := a.build(re.Sub[0])
		if err != nil {
			return 0, 0, err
		}
		s, e := a.add(), a.add()
		a.eps[s] = append(a.eps[s], ss)
		a.eps[ee] = append(a.eps[ee], e)
		if re.Op != syntax.OpPlus {
			a.eps[s] = append(a.eps[s], e)
		}
		if re.Op != syntax.OpQuest {
			a.eps[ee] = append(a.eps[ee], ss)
		}
		return s, e, nil
	case syntax.OpRepeat:
		// expand {min,max}
		s := a.add()
		cur := s
		for i := 0; i < re.Min; i++ {
			ss, ee, err := a.build(re.Sub[0])
			if err != nil {
				return 0, 0, err
			}
			a.eps[cur] = append(a.eps[cur], ss)
			cur = ee
		}
		if re.Max < 0 {
			ss, ee, err := a.build(re.Sub[0])
			if err != nil {
				return 0, 0, err
			}
			e := a.add()
			a.eps[cur] = append(a.eps[cur], ss, e)
			a.eps[ee] = append(a.eps[ee], ss, e)
			return s, e, nil
		}
		e := a.add()
		a.eps[cur] = append(a.eps[cur], e)
		for i := re.Min; i < re.Max; i++ {
			ss, ee, err := a.build(re.Sub[0])
			if err != nil {
				return 0, 0, err
			}
			a.eps[cur] = append(a.eps[cur], ss)
			a.eps[ee] = append(a.eps[ee], e)
			cur = ee
		}
		return s, e, nil
	}
	return 0, 0, fmt.Errorf("unsupported regexp op %v", re.Op)
}

// LangLiteral: the single string s.
func LangLiteral(s string) *DFA {
	return MustLang(syntax_quote(s))
}

func syntax_quote(s string) string {
	var b strings.Builder
	for i := 0; i < len(s); i++ {
		c := s[i]
		if strings.ContainsRune(`\.+*?()|[]{}^$`, rune(c)) {
			b.WriteByte('\\')
		}
		b.WriteByte(c)
	}
	if b.Len() == 0 {
		return "(?:)"
	}
	return b.String()
}

func product(x, y *DFA, acc func(a, b bool) bool) *DFA {
	d := &DFA{}
	type pair struct{ a, b int }
	index := map[pair]int{}
	var list []pair
	add := func(p pair) int {
		if i, ok := index[p]; ok {
			return i
		}
		index[p] = len(list)
		list = append(list, p)
		d.Accept = append(d.Accept, acc(x.Accept[p.a], y.Accept[p.b]))
		d.Next = append(d.Next, [langSyms]int{})
		return len(list) - 1
	}
	d.Start = add(pair{x.Start, y.Start})
	for i := 0; i < len(list); i++ {
		for sym := 0; sym < langSyms; sym++ {
			d.Next[i][sym] = add(pair{x.Next[list[i].a][sym], y.Next[list[i].b][sym]})
		}
	}
	return d
}

func (x *DFA) Intersect(y *DFA) *DFA {
	return product(x, y, func(a, b bool) bool { return a && b }).Minimize()
}
func (x *DFA) Union(y *DFA) *DFA {
	return product(x, y, func(a, b bool) bool { return a || b }).Minimize()
}
func (x *DFA) Minus(y *DFA) *DFA {
	return product(x, y, func(a, b bool) bool { return a && !b }).Minimize()
}

// Concat: x followed by y.
func (x *DFA) Concat(y *DFA) *DFA {
	a := newNFA()
	nx, ny := len(x.Accept), len(y.Accept)
	for i := 0; i < nx+ny; i++ {
		a.add()
	}
	for i := 0; i < nx; i++ {
		for sym := 0; sym < langSyms; sym++ {
			a.trans[i][sym] = append(a.trans[i][sym], x.Next[i][sym])
		}
		if x.Accept[i] {
			a.eps[i] = append(a.eps[i], nx+y.Start)
		}
	}
	for i := 0; i < ny; i++ {
		for sym := 0; sym < langSyms; sym++ {
			a.trans[nx+i][sym] = append(a.trans[nx+i][sym], nx+y.Next[i][sym])
		}
	}
	a.start = x.Start
	d := a.determinize(func(set map[int]bool) bool {
		for s := range set {
			if s >= nx && y.Accept[s-nx] {
				return true
			}
		}
		return false
	})
	return d.Minimize()
}

// Witness returns a shortest accepted string, ok=false when the language is empty.
func (x *DFA) Witness() (string, bool) {
	type item struct {
		st   int
		prev int
		sym  int
	}
	seen := map[int]bool{x.Start: true}
	queue := []item{{x.Start, -1, -1}}
	for i := 0; i < len(queue); i++ {
		it := queue[i]
		if x.Accept[it.st] {
			var out []byte
			for j := i; queue[j].prev >= 0; j = queue[j].prev {
				c := byte(queue[j].sym)
				if queue[j].sym == 128 {
					c = 0xC3
				}
				out = append(out, c)
			}
			for l, r := 0, len(out)-1; l < r; l, r = l+1, r-1 {
				out[l], out[r] = out[r], out[l]
			}
			return string(out), true
		}
		// prefer printable symbols first for readable witnesses
		order := []int{}
		for s := 33; s < 127; s++ {
			order = append(order, s)
		}
		for s := 0; s < langSyms; s++ {
			if s < 33 || s >= 127 {
				order = append(order, s)
			}
		}
		for _, sym := range order {
			n := x.Next[it.st][sym]
			if !seen[n] {
				seen[n] = true
				queue = append(queue, item{n, i, sym})
			}
		}
	}
	return "", false
}

func (x *DFA) Empty() bool { _, ok := x.Witness(); return !ok }

// SubsetOf: x ⊆ y; otherwise a shortest witness in x \ y.
func (x *DFA) SubsetOf(y *DFA) (bool, string) {
	w, ok := x.Minus(y).Witness()
	return !ok, w
}

var langAny = MustLang(`(?s).*`)
var langAnyPlus = MustLang(`(?s).+`)

// FirstSplitUnambiguous: in every string of A·sep·B the first occurrence of sep
// starts at |A|: no string of A·sep contains sep ending before its end.
var sepMemo = map[string]*DFA{}

func FirstSplitUnambiguous(a *DFA, sep string) bool {
	s := LangLiteral(sep)
	early, ok := sepMemo["first:"+sep]
	if !ok {
		early = langAny.Concat(s).Concat(langAnyPlus)
		sepMemo["first:"+sep] = early
	}
	return a.Concat(s).Intersect(early).Empty()
}

// LastSplitUnambiguous: in every string of A·sep·B the last occurrence of sep is
// the separator: no string of sep·B contains sep starting after its beginning.
func LastSplitUnambiguous(b *DFA, sep string) bool {
	s := LangLiteral(sep)
	late, ok := sepMemo["last:"+sep]
	if !ok {
		late = langAnyPlus.Concat(s).Concat(langAny)
		sepMemo["last:"+sep] = late
	}
	return s.Concat(b).Intersect(late).Empty()
}

// Minimize returns the minimal complete DFA (Moore partition refinement over
// the reachable states).
func (x *DFA) Minimize() *DFA {
	n := len(x.Accept)
	// reachable
	reach := make([]bool, n)
	stack := []int{x.Start}
	reach[x.Start] = true
	for len(stack) > 0 {
		s := stack[len(stack)-1]
		stack = stack[:len(stack)-1]
		for sym := 0; sym < langSyms; sym++ {
			t := x.Next[s][sym]
			if !reach[t] {
				reach[t] = true
				stack = append(stack, t)
			}
		}
	}
	class := make([]int, n)
	for i := range class {
		if x.Accept[i] {
			class[i] = 1
		}
	}
	nclass := 2
	for {
		sig := map[string]int{}
		next := make([]int, n)
		cnt := 0
		for i := 0; i < n; i++ {
			if !reach[i] {
				continue
			}
			b := make([]byte, 0, 3*(langSyms+1))
			b = append(b, byte(class[i]), byte(class[i]>>8), byte(class[i]>>16))
			for sym := 0; sym < langSyms; sym++ {
				c := class[x.Next[i][sym]]
				b = append(b, byte(c), byte(c>>8), byte(c>>16))
			}
			k := string(b)
			id, ok := sig[k]
			if !ok {
				id = cnt
				sig[k] = id
				cnt++
			}
			next[i] = id
		}
		same := cnt == nclass
		class, nclass = next, cnt
		if same {
			break
		}
	}
	d := &DFA{Accept: make([]bool, nclass), Next: make([][langSyms]int, nclass)}
	for i := 0; i < n; i++ {
		if !reach[i] {
			continue
		}
		c := class[i]
		d.Accept[c] = x.Accept[i]
		for sym := 0; sym < langSyms; sym++ {
			d.Next[c][sym] = class[x.Next[i][sym]]
		}
	}
	d.Start = class[x.Start]
	return d
}
