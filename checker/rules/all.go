// Package rules holds one file per property: the slot tables and rule wiring.
package rules

import "p2pverif/core"

// All maps a property id to its rule set.
var All = map[string]func(*core.Report){}
