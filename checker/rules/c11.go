package rules

import (
	"fmt"
	"go/token"
	"go/types"

	"golang.org/x/tools/go/ssa"

	"p2pverif/core"
)

func init() { All["C11"] = c11 }

// cutErrNil: edges on which the error result of call is known nil.
func cutErrNilOf(call *ssa.Call) core.CutFunc {
	return core.CutWhere(func(cond ssa.Value) int {
		x, isEq, ok := core.NilCheck(cond)
		if !ok {
			return 0
		}
		c, _, ok := core.CallResult(x)
		if !ok || c != call || !core.IsErrorType(x.Type()) {
			return 0
		}
		if isEq {
			return 1
		}
		return -1
	})
}

// cutNonNegative: edges on which integer value n is known >= 0.
func cutNonNegative(isN func(ssa.Value) bool) core.CutFunc {
	return core.CutWhere(func(cond ssa.Value) int {
		b, ok := cond.(*ssa.BinOp)
		if !ok {
			return 0
		}
		zeroY := func() bool { k, ok := core.ConstInt(b.Y); return ok && k == 0 }
		if !isN(b.X) || !zeroY() {
			return 0
		}
		switch b.Op {
		case token.LSS: // n < 0 : non-negative on false edge
			return -1
		case token.GEQ: // n >= 0
			return 1
		}
		return 0
	})
}

func c11(r *core.Report) {
	p := r.P
	r.Explanation = "Static necessary conditions of 'an Ask returns its own handler's answer or an error': (NEG-IS-ERROR) wherever a handler result n is consumed, no success-signalling site (nil-error return, reply frame, SSH Reply(true), zero error code) is reachable on the n<0 edge, and bridges return a negative value on their own error edges; (HUB-ERROR-IS-ERROR) on the err!=nil edge of every AskHub.Deliver call no success-signalling site is reachable (path-restricted constant evaluation decides the ok flag of SSH replies); (CLOSED-ERR-NONNIL) the ask hub's close reason is provably non-nil; (SHORT-BUFFER) every copy into the caller's response buffer is guarded by a length comparison whose too-long edge avoids the copy; (MATCH) mbapp registers and looks up a pending ask under a key made of the group id and the responder's address and always removes it; (CTX) blocking dependency calls on the Ask paths are bound to the caller's context. Crossing of responses under concurrency is a history property and is not decided beyond the matching key."
	r.Assumptions = []string{"a success-signalling site is one of the table entries (nil-error return of Ask, writeFrame on the ask stream, ssh Request.Reply with ok possibly true, mbapp reply sent with error code 0)", "Go channel semantics"}
	r.Trusted = []string{"go/types, go/ssa (x/tools v0.29.0)"}
	h := resolveHubs(r)
	if len(r.Failures) > 0 {
		return
	}
	nn := core.NewNonNil(p)
	askDeliver := h.fns["AskHub.Deliver"]

	// ---- consumers of AskHub.Deliver
	r.Rule("C11-HUB-ERROR-IS-ERROR", "on the err!=nil edge of AskHub.Deliver no success-signalling site is reachable", 6)
	r.Rule("C11-NEG-IS-ERROR", "on the n<0 edge of a handler result no success-signalling site is reachable; bridges stay negative", 9)
	type successFn func(fn *ssa.Function, in ssa.Instruction, pe *core.PathEval) (isSuccess bool, what string)
	retNilErr := func(fn *ssa.Function, in ssa.Instruction, pe *core.PathEval) (bool, string) {
		ret, ok := in.(*ssa.Return)
		if !ok || len(ret.Results) == 0 {
			return false, ""
		}
		last := len(ret.Results) - 1
		if !core.IsErrorType(fn.Signature.Results().At(last).Type()) {
			return false, ""
		}
		for _, v := range core.ReturnValues(ret, last) {
			if core.IsNilConst(v) {
				return true, "return with nil error"
			}
		}
		return false, ""
	}
	callTo := func(target *ssa.Function) successFn {
		return func(fn *ssa.Function, in ssa.Instruction, pe *core.PathEval) (bool, string) {
			ci, ok := in.(ssa.CallInstruction)
			if ok && target != nil && core.IsCallToFn(ci.Common(), target) {
				return true, "call " + target.Name()
			}
			return false, ""
		}
	}
	sshReply := func(fn *ssa.Function, in ssa.Instruction, pe *core.PathEval) (bool, string) {
		ci, ok := in.(ssa.CallInstruction)
		if !ok || core.CalleeName(ci.Common()) != "(*golang.org/x/crypto/ssh.Request).Reply" {
			return false, ""
		}
		if pe.AlwaysBool(ci.Common().Args[1], false) {
			return false, ""
		}
		return true, "req.Reply with ok possibly true"
	}
	// bridge: an int-returning literal; success = returning a value that is not provably negative
	retNonNegInt := func(fn *ssa.Function, in ssa.Instruction, pe *core.PathEval) (bool, string) {
		ret, ok := in.(*ssa.Return)
		if !ok || len(ret.Results) != 1 {
			return false, ""
		}
		if b, ok := ret.Results[0].Type().Underlying().(*types.Basic); !ok || b.Kind() != types.Int {
			return false, ""
		}
		for _, v := range core.ReturnValues(ret, 0) {
			if !pe.AlwaysNegative(v) {
				return true, "returns a handler result that is not provably negative"
			}
		}
		return false, ""
	}
	// bridge through an inner closure returning error: success = returning nil
	success := map[string][]successFn{
		"(*p2p/s/vswarm.SecureRealm[A, Pub]).ask":          {retNilErr},
		"(*p2p/p/mbapp.Swarm[A, Pub]).handleAskRequest":    {callTo(needFn(r, "p/mbapp", "Swarm.send"))},
		"(*p2p/s/quicswarm.Swarm[T]).handleAsk":            {callTo(needFn(r, "s/quicswarm", "writeFrame"))},
		"(*p2p/s/sshswarm.Conn).loop":                      {sshReply},
		"(*p2p/p/p2pmux.muxCore[A, C, Pub]).serveLoop$1$1": {retNilErr},
		"(*p2p/s/multiswarm.multiAsker).serveLoops$1$1":    {retNonNegInt},
	}
	consumers := 0
	for _, fn := range p.ModFuncs {
		for _, ci := range core.CallsToFn(fn, askDeliver) {
			call, ok := ci.(*ssa.Call)
			if !ok {
				continue
			}
			consumers++
			r.Analysed(fn)
			name := core.FnName(fn)
			sfs, ok := success[name]
			passUp := false
			if !ok && fn.Signature.Results().Len() == 2 && core.IsErrorType(fn.Signature.Results().At(1).Type()) {
				// a helper with results (int, error) that is not in the table: its success signal is a nil
				// error, and it must pass the hub's number up unchanged (its callers are checked as bridges)
				passUp = true
				for _, ret := range core.Returns(fn) {
					for _, v := range core.ReturnValues(ret, 0) {
						c2, idx, isRes := core.CallResult(v)
						if k, isK := core.ConstInt(v); !(isRes && c2 == call && idx == 0) && !(isK && k <= 0) {
							passUp = false
						}
					}
				}
				if passUp {
					sfs, ok = []successFn{retNilErr}, true
				}
			}
			if !ok {
				r.Undecided("C11-HUB-ERROR-IS-ERROR", name+" AskHub.Deliver", p.Pos(call.Pos()), "consumer of AskHub.Deliver is not in the success-site table: add it with its success-signalling site")
				continue
			}
			// (a) error edge
			cut := cutErrNilOf(call)
			{
				reached := core.Reach(fn, call, cut, func(in ssa.Instruction) bool { return in == ssa.Instruction(call) })
				pe := &core.PathEval{Reached: reached, Cut: cut}
				bad := ""
				var badPos token.Pos
				for in := range reached {
					for _, sf := range sfs {
						if is, what := sf(fn, in, pe); is {
							bad = what
							badPos = in.Pos()
						}
					}
				}
				r.Check(bad == "", "C11-HUB-ERROR-IS-ERROR", name+" AskHub.Deliver", p.Pos(call.Pos()),
					"every path on which the hub reported an error avoids the success-signalling site",
					fmt.Sprintf("after the hub reported an error (destination closed, context ended) control reaches a success-signalling site (%s at %s): the asker gets an empty success", bad, p.Pos(badPos)))
			}
			// (b) negative result edge
			isN := func(v ssa.Value) bool {
				c2, idx, ok := core.CallResult(v)
				if ok && c2 == call && idx == 0 {
					return true
				}
				// through a phi/local that merges the call result with constants
				if ph, ok := v.(*ssa.Phi); ok {
					for _, e := range ph.Edges {
						c3, idx3, ok3 := core.CallResult(e)
						if ok3 && c3 == call && idx3 == 0 {
							return true
						}
					}
				}
				return false
			}
			switch {
			case passUp:
				name = "passUp"
			}
			switch name {
			case "passUp":
				r.OK("C11-NEG-IS-ERROR", core.FnName(fn)+" n", p.Pos(call.Pos()), "helper: the hub's result is passed up unchanged next to the error (its callers are checked as bridges)")
			case "(*p2p/p/mbapp.Swarm[A, Pub]).handleAskRequest":
				// n is converted by extractErrorCode; checked below (C11-NEG-IS-ERROR on extractErrorCode)
				xe := needFn(r, "p/mbapp", "extractErrorCode")
				uses := false
				for _, c2 := range core.CallsToFn(fn, xe) {
					if isN(c2.Common().Args[0]) {
						uses = true
					}
				}
				r.Check(uses, "C11-NEG-IS-ERROR", name+" n", p.Pos(call.Pos()), "the handler result is converted to the reply's error code by extractErrorCode", "the handler result does not reach the reply's error code")
			case "(*p2p/p/p2pmux.muxCore[A, C, Pub]).serveLoop$1$1":
				// n is stored to the captured respN and returned by the outer literal: checked below
				r.OK("C11-NEG-IS-ERROR", name+" n", p.Pos(call.Pos()), "bridge: the result is passed up unchanged (outer literal checked as a bridge)")
			case "(*p2p/s/multiswarm.multiAsker).serveLoops$1$1":
				ok := true
				for _, ret := range core.Returns(fn) {
					for _, v := range core.ReturnValues(ret, 0) {
						k, isK := core.ConstInt(v)
						if !(isN(v) || (isK && k < 0)) {
							ok = false
						}
					}
				}
				r.Check(ok, "C11-NEG-IS-ERROR", name+" n", p.Pos(call.Pos()), "bridge returns the hub's result unchanged or a negative constant", "bridge can turn a negative handler result into a non-negative one")
			default:
				cutN := cutNonNegative(isN)
				if name == "(*p2p/s/sshswarm.Conn).loop" {
					// ok := n >= 0 is computed as a value, not a branch: evaluate Reply's flag symbolically
					okFlag := true
					for _, in := range core.AllInstrs(fn) {
						c3, isCall := in.(ssa.CallInstruction)
						if !isCall || core.CalleeName(c3.Common()) != "(*golang.org/x/crypto/ssh.Request).Reply" {
							continue
						}
						if !core.Reach(fn, call, nil, nil)[in] {
							continue
						}
						b, isBin := c3.Common().Args[1].(*ssa.BinOp)
						z := int64(1)
						if isBin {
							z, _ = core.ConstInt(b.Y)
						}
						if !(isBin && b.Op == token.GEQ && isN(b.X) && z == 0) && !flagImpliesNonNeg(c3.Common().Args[1], isN) {
							// or the flag is set by branches on n: on the paths where n >= 0 is NOT known it
							// evaluates to false only
							pe := &core.PathEval{Reached: core.Reach(fn, call, cutN, nil), Cut: cutN}
							if !pe.AlwaysBool(c3.Common().Args[1], false) {
								okFlag = false
							}
						}
					}
					r.Check(okFlag, "C11-NEG-IS-ERROR", name+" n", p.Pos(call.Pos()), "the reply's ok flag is false whenever n < 0", "the reply's ok flag can be true for a negative handler result")
					break
				}
				if core.GuardEdges(fn, cutN) == 0 {
					r.Violation("C11-NEG-IS-ERROR", name+" n", p.Pos(call.Pos()), "the handler result is never compared with 0: a failing handler is reported as success")
					break
				}
				reached := core.Reach(fn, call, cutN, func(in ssa.Instruction) bool { return in == ssa.Instruction(call) })
				pe := &core.PathEval{Reached: reached, Cut: cutN}
				bad := ""
				for in := range reached {
					for _, sf := range sfs {
						if is, what := sf(fn, in, pe); is {
							bad = what + " at " + p.Pos(in.Pos())
						}
					}
				}
				r.Check(bad == "", "C11-NEG-IS-ERROR", name+" n", p.Pos(call.Pos()), "every path on which the handler result is negative avoids the success-signalling site", "a negative handler result reaches a success-signalling site ("+bad+")")
			}
		}
	}
	if consumers < 6 {
		r.Fail("only %d consumers of AskHub.Deliver found, expected 6", consumers)
	}
	// mbapp: extractErrorCode maps n<0 to a non-zero code, and Ask turns a non-zero code into an error
	if xe := needFn(r, "p/mbapp", "extractErrorCode"); xe != nil {
		isN := func(v ssa.Value) bool { return v == ssa.Value(xe.Params[0]) }
		cutN := cutNonNegative(isN)
		ok := core.GuardEdges(xe, cutN) > 0
		reached := core.Reach(xe, nil, cutN, nil)
		for _, ret := range core.Returns(xe) {
			if !reached[ret] {
				continue
			}
			for _, v := range core.ReturnValues(ret, 0) {
				k, isK := core.ConstInt(v)
				if !isK || k == 0 {
					ok = false
				}
			}
		}
		r.Check(ok, "C11-NEG-IS-ERROR", core.FnName(xe), p.Pos(xe.Pos()), "a negative handler result maps to a non-zero error code", "a negative handler result can map to error code 0 (success)")
	}
	if ask := needFn(r, "p/mbapp", "Swarm.Ask"); ask != nil {
		errCode := needField(r, "p/mbapp", "ask", "errCode")
		// the success return (nil error) must be cut by errCode > 0
		cut := core.CutWhere(func(cond ssa.Value) int {
			b, ok := cond.(*ssa.BinOp)
			if !ok {
				return 0
			}
			f, _ := core.FieldRead(b.X)
			k, isK := core.ConstInt(b.Y)
			if !core.SameField(f, errCode) || !isK || k != 0 {
				return 0
			}
			switch b.Op {
			case token.GTR, token.NEQ:
				return 1
			case token.EQL:
				return -1
			}
			return 0
		})
		reached := core.Reach(ask, nil, nil, nil)
		_ = reached
		okAll := core.GuardEdges(ask, cut) > 0
		// on the errCode>0 edge every return has a non-nil error
		for _, b := range ask.Blocks {
			for i := range b.Succs {
				if !cut(b, i) {
					continue
				}
				rs := core.ReachAt(ask, b.Succs[i].Instrs[0], nil, nil)
				for _, ret := range core.Returns(ask) {
					if !rs[ret] {
						continue
					}
					for _, v := range core.ReturnValues(ret, 1) {
						if !nn.At(v, ret) {
							okAll = false
						}
					}
				}
			}
		}
		r.Check(okAll, "C11-NEG-IS-ERROR", core.FnName(ask)+" errCode", p.Pos(ask.Pos()), "a reply carrying a non-zero error code makes Ask return a non-nil error", "a reply carrying an error code can be returned as success")
	}
	// bridges that call the user handler or an inner ServeAsk callback
	for _, b := range []struct{ rel, name string }{
		{"p/p2pmux", "muxCore.serveLoop"}, {"s/wlswarm", "asker.ServeAsk"}, {"s/multiswarm", "dynAsker.ServeAsk"},
	} {
		fn := needFn(r, b.rel, b.name)
		if fn == nil {
			continue
		}
		for _, lit := range fn.AnonFuncs {
			if lit.Signature.Results().Len() != 1 {
				continue
			}
			if bt, ok := lit.Signature.Results().At(0).Type().Underlying().(*types.Basic); !ok || bt.Kind() != types.Int {
				continue
			}
			r.Analysed(lit)
			okAll := true
			for _, ret := range core.Returns(lit) {
				for _, v := range core.ReturnValues(ret, 0) {
					k, isK := core.ConstInt(v)
					switch {
					case isK && k < 0:
					case isK:
						okAll = false
					default:
						// must derive from a handler result (call of a function value or hub result), not be fabricated
						fromHandler := func(x ssa.Value) bool {
							c, ok := x.(*ssa.Call)
							return ok && (core.IsParamFuncCall(c.Common()) || core.IsCallToFn(c.Common(), askDeliver))
						}
						// a module helper with results (int, error) that passes a handler/hub result through,
						// or fails with a provably non-nil error, used by the bridge on its err == nil edge only
						viaHelper := func(x ssa.Value) bool {
							c, ok := x.(*ssa.Call)
							if !ok {
								return false
							}
							g := core.StaticCallee(c.Common())
							if g == nil || !p.InModule(g) || g.Blocks == nil || g.Signature.Results().Len() != 2 || !core.IsErrorType(g.Signature.Results().At(1).Type()) {
								return false
							}
							nn := nnShared(p)
							for _, gr := range core.Returns(g) {
								errNonNil := true
								for _, ev := range core.ReturnValues(gr, 1) {
									if !nn.At(ev, gr) {
										errNonNil = false
									}
								}
								if errNonNil {
									continue
								}
								for _, iv := range core.ReturnValues(gr, 0) {
									if !core.DerivesFrom(iv, fromHandler) {
										return false
									}
								}
							}
							// the bridge must not return the helper's number on the helper's error edge
							return !core.Reach(lit, c, cutErrNilOf(c), nil)[ret]
						}
						if !core.DerivesFrom(v, func(x ssa.Value) bool { return fromHandler(x) || viaHelper(x) }) {
							okAll = false
						}
					}
				}
			}
			r.Check(okAll, "C11-NEG-IS-ERROR", core.FnName(lit)+" bridge", p.Pos(lit.Pos()), "bridge returns the inner handler's result unchanged or a negative constant", "bridge can return a non-negative constant: a failure inside the bridge is reported as a successful empty answer")
		}
	}
	// p2pmux: the outer literal must return negative when the inner closure returned an error
	if sl := needFn(r, "p/p2pmux", "muxCore.serveLoop"); sl != nil && len(sl.AnonFuncs) > 0 {
		outer := sl.AnonFuncs[0]
		okOuter := false
		for _, ci := range core.Calls(outer, func(ci ssa.CallInstruction) bool { return core.ClosureFn(ci.Common().Value) != nil }) {
			call, ok := ci.(*ssa.Call)
			if !ok {
				continue
			}
			cut := cutErrNilOf(call)
			if core.GuardEdges(outer, cut) == 0 {
				continue
			}
			reached := core.Reach(outer, call, cut, nil)
			pe := &core.PathEval{Reached: reached, Cut: cut}
			okOuter = true
			for _, ret := range core.Returns(outer) {
				if reached[ret] {
					for _, v := range core.ReturnValues(ret, 0) {
						if !pe.AlwaysNegative(v) {
							okOuter = false
						}
					}
				}
			}
		}
		r.Check(okOuter, "C11-HUB-ERROR-IS-ERROR", core.FnName(outer)+" inner error", p.Pos(outer.Pos()), "an error from demux/lookup/hub makes the bridge return a negative result", "an error inside the mux bridge is returned as a non-negative result")
	}

	// ---- C11-CLOSED-ERR-NONNIL
	// ---- C11-DENY-IS-ERROR (after seed C11-s7): wlswarm refuses an ask from a peer its allow function rejects without
	// running the handler. The only way to say so through the ServeAsk callback is a negative result (which every
	// transport turns into an error at the asker, C11-NEG-IS-ERROR); 0 would be an empty *successful* answer that no
	// handler produced.
	r.Rule("C11-DENY-IS-ERROR", "wlswarm: on the rejected edge of the allow check the ServeAsk callback returns a provably negative number", 1)
	if checkAddr, sa := needFn(r, "s/wlswarm", "checkAddr"), needFn(r, "s/wlswarm", "asker.ServeAsk"); checkAddr != nil && sa != nil {
		for _, f := range core.WithAnons(sa) {
			if f == sa || f.Signature.Results().Len() != 1 || len(core.CallsToFn(f, checkAddr)) == 0 {
				continue
			}
			r.Analysed(f)
			// keep only the paths on which checkAddr returned false: the edges on which it returned true are cut
			cut := core.CutWhere(core.BoolCallGuard(func(c *ssa.CallCommon) bool { return core.IsCallToFn(c, checkAddr) }, true))
			okAll := core.GuardEdges(f, cut) > 0
			reached := core.Reach(f, nil, cut, nil)
			pe := &core.PathEval{Reached: reached, Cut: cut}
			nret := 0
			for _, ret := range core.Returns(f) {
				if !reached[ret] {
					continue
				}
				nret++
				for _, v := range pe.Leaves(ret.Results[0]) {
					k, isK := core.ConstInt(v)
					if !isK || k >= 0 {
						okAll = false
					}
				}
			}
			r.Check(okAll && nret > 0, "C11-DENY-IS-ERROR", core.FnName(f), p.Pos(f.Pos()), "a rejected asker gets a negative result, which the transport reports as an error",
				"when the allow function rejects the asker the callback can return a non-negative number: the transport reports an empty successful answer although no handler ran")
		}
	}

	r.Rule("C11-CLOSED-ERR-NONNIL", "the ask hub's close reason is provably non-nil and returned on every closed case", 4)
	ruleHubErrNonNil(r, h, nn, "C11-CLOSED-ERR-NONNIL", []*types.Var{h.askErr}, []string{"AskHub.ServeAsk", "AskHub.Deliver", "AskHub.checkClosed"})

	// ---- C11-SHORT-BUFFER
	r.Rule("C11-SHORT-BUFFER", "every copy into the asker's response buffer is guarded by a length comparison", 2)
	respBuf := needField(r, "p/mbapp", "ask", "respBuf")
	isRespDst := func(fn *ssa.Function, v ssa.Value) bool {
		return core.DerivesFrom(v, func(x ssa.Value) bool {
			if f, _ := core.FieldRead(x); core.SameField(f, respBuf) {
				return true
			}
			pr, ok := x.(*ssa.Parameter)
			if !ok {
				return false
			}
			// the resp parameter of an Ask implementation: Ask(ctx, resp []byte, dst, req)
			pf := pr.Parent()
			if pf.Name() != "Ask" || pf.Signature.Recv() == nil || pf.Signature.Params().Len() != 4 {
				return false
			}
			return len(pf.Params) >= 3 && pf.Params[2] == pr && types.Identical(pr.Type(), types.NewSlice(types.Typ[types.Byte]))
		})
	}
	copies := 0
	for _, fn := range p.ModFuncs {
		for _, ci := range core.Calls(fn, func(ci ssa.CallInstruction) bool { return core.IsBuiltin(ci.Common(), "copy") }) {
			dst, src := ci.Common().Args[0], ci.Common().Args[1]
			if !isRespDst(fn, dst) {
				continue
			}
			copies++
			r.Analysed(fn)
			c := core.FnName(fn) + " copy(resp, …)"
			// guard: an If comparing len(dst') with len(src') one of whose edges does not reach the copy
			guarded := false
			for _, b := range fn.Blocks {
				iff, ok := b.Instrs[len(b.Instrs)-1].(*ssa.If)
				if !ok {
					continue
				}
				cond, _ := core.StripNot(iff.Cond)
				bo, ok := cond.(*ssa.BinOp)
				if !ok {
					continue
				}
				if !(isLenOf(bo.X, dst) && isLenOf(bo.Y, src) || isLenOf(bo.X, src) && isLenOf(bo.Y, dst)) {
					continue
				}
				r0 := core.ReachAt(fn, b.Succs[0].Instrs[0], nil, nil)
				r1 := core.ReachAt(fn, b.Succs[1].Instrs[0], nil, nil)
				if r0[ci.(ssa.Instruction)] != r1[ci.(ssa.Instruction)] {
					guarded = true
				}
			}
			r.Check(guarded, "C11-SHORT-BUFFER", c, p.Pos(ci.Pos()), "the copy is reached from only one side of a comparison of the two lengths",
				"the response is copied into the caller's buffer with no length check: an answer longer than resp is silently truncated and returned as success (the interface promises io.ErrShortBuffer)")
		}
	}
	if copies == 0 {
		r.Fail("C11-SHORT-BUFFER: no copy into a response buffer found")
	}

	// ---- C11-MATCH
	r.Rule("C11-MATCH", "mbapp matches a reply to the waiting ask by (group id, responder address) and always unregisters it", 4)
	c11match(r)

	// ---- C11-ATTRIBUTION (shared with C10-KEY): mbapp carries asks in fragments; the
	// request a handler sees is attributed to, and assembled per, the packet's source.
	r.Rule("C11-ATTRIBUTION", "mbapp assembles and attributes ask requests/replies per packet source and group id", 8)
	ruleReassemblyKeyMbapp(r, "C11-ATTRIBUTION")

	// ---- C11-REPLY-COPIED (shared with C01-BORROW-RECV): a reply (or request) kept by reference
	// instead of copied aliases the receive worker's buffer, which the next message overwrites — the
	// asker then gets another handler's bytes with a nil error
	r.Rule("C11-REPLY-COPIED", "no alias of a received payload (ask replies included) outlives the receive callback or is written", 9)
	ruleBorrowRecv(r, h, newBorrowEngine(p, h), "C11-REPLY-COPIED")

	// ---- C11-RESP-FENCE (shared with C14): an Ask that returned an error does not have its buffer
	// written afterwards by a late reply
	r.Rule("C11-RESP-FENCE", "mbapp writes the asker's response buffer only under the ask's once, and a cancelled Ask passes through that once before returning", 2)
	ruleRespFence(r, "C11-RESP-FENCE")

	// ---- C11-HUB-FENCE (shared with C13-COMMIT): vswarm, p2pmux and multiswarm hand the asker's own response
	// buffer to the remote handler through AskHub.Deliver; once a server took the request, Deliver returns only
	// after the handler finished, or the abandoned handler's late write lands in a later Ask's answer
	r.Rule("C11-HUB-FENCE", "AskHub.Deliver: once a server took the request every path waits for the handler's completion signal before returning", 4)
	ruleCommit(r, h, "C11-HUB-FENCE", "AskHub.Deliver")

	// ---- C11-QUIC-ADDRESSEE (shared with C04-QUIC): an Ask addressed to identity X at a transport address is
	// answered by X's handler: a cached session is found under a key that contains the identity, a dialled one
	// is used only after the identity check
	r.Rule("C11-QUIC-ADDRESSEE", "quicswarm sends an Ask only on a session whose authenticated identity is the requested one (dial check, identity in the cache key)", 2)
	ruleQuicAddressee(r, "C11-QUIC-ADDRESSEE")

	// ---- C11-OFFSET-ORDER-FREE (shared with C10): a multi-part reply is the handler's bytes only if each
	// part is placed independently of the order of arrival
	r.Rule("C11-OFFSET-ORDER-FREE", "the position a fragment of a request/reply is copied to depends on that fragment and on fields fixed at construction only", 1)
	ruleOffsetOrderFree(r, "C11-OFFSET-ORDER-FREE")

	// ---- C11-CTX
	r.Rule("C11-CTX", "blocking dependency calls on the Ask paths are bound to the caller's context", 6)
	ruleCtxExternal(r, "C11-CTX", ctxMethods(p, "Ask"))
	if aw := needFn(r, "p/mbapp", "ask.await"); aw != nil {
		for _, op := range core.BlockingOps(aw) {
			ok := op.Kind == "select" && hasState(op, func(s core.SelState) bool { return s.Chan.Kind == "ctx" && derivesFromCtx(s.Chan.Base, aw) })
			r.Check(ok, "C11-CTX", core.FnName(aw)+" "+describeOp(op), p.Pos(op.Instr.Pos()), "waits for the reply or the context", "the wait for the reply ignores the context")
		}
	}
}

// flagImpliesNonNeg: v is a boolean built as `… && n >= 0` (phi of false and the comparison).
func flagImpliesNonNeg(v ssa.Value, isN func(ssa.Value) bool) bool {
	ph, ok := v.(*ssa.Phi)
	if !ok {
		return false
	}
	for _, e := range ph.Edges {
		if b, ok := core.ConstBool(e); ok && !b {
			continue
		}
		bo, ok := e.(*ssa.BinOp)
		if !ok || bo.Op != token.GEQ || !isN(bo.X) {
			return false
		}
		if k, ok := core.ConstInt(bo.Y); !ok || k != 0 {
			return false
		}
	}
	return true
}

// isLenOf: v is len(x) (possibly converted) where x aliases target.
func isLenOf(v ssa.Value, target ssa.Value) bool {
	v = core.Peel(v)
	c, ok := v.(*ssa.Call)
	if !ok || !core.IsBuiltin(c.Common(), "len") {
		return false
	}
	a := c.Call.Args[0]
	if core.SameSource(a, target) {
		return true
	}
	return core.DerivesFrom(target, func(x ssa.Value) bool { return core.SameSource(x, a) })
}

func c11match(r *core.Report) {
	p := r.P
	har := needFn(r, "p/mbapp", "Swarm.handleAskReply")
	ask := needFn(r, "p/mbapp", "Swarm.Ask")
	getRem := needFn(r, "p/mbapp", "asker.getAndRemoveAsk")
	create := needFn(r, "p/mbapp", "asker.createAsk")
	remove := needFn(r, "p/mbapp", "asker.removeAsk")
	askID := needNamed(r, "p/mbapp", "askID")
	if har == nil || ask == nil || getRem == nil || create == nil || remove == nil || askID == nil {
		return
	}
	idAddr := needField(r, "p/mbapp", "askID", "Addr")
	idGroup := needField(r, "p/mbapp", "askID", "GroupID")
	// value stored into field f of the askID local that reaches call argument arg
	fieldOrigin := func(fn *ssa.Function, arg ssa.Value, f *types.Var) []ssa.Value {
		var out []ssa.Value
		core.BackSlice(arg, func(x ssa.Value) bool {
			if a, ok := x.(*ssa.Alloc); ok {
				for _, ref := range *a.Referrers() {
					if fa, ok := ref.(*ssa.FieldAddr); ok {
						if ff, _ := core.FieldOfAddr(fa); core.SameField(ff, f) {
							for _, r2 := range *fa.Referrers() {
								if st, ok := r2.(*ssa.Store); ok && st.Addr == fa {
									out = append(out, st.Val)
								}
							}
						}
					}
				}
			}
			return true
		})
		return out
	}
	isStringOf := func(v ssa.Value, of func(ssa.Value) bool) bool {
		c, ok := v.(*ssa.Call)
		if !ok || !c.Call.IsInvoke() || c.Call.Method.Name() != "String" {
			return false
		}
		return core.DerivesFrom(c.Call.Value, of)
	}
	// handleAskReply(ctx, src, dst, id, errCode, body)
	for _, ci := range core.CallsToFn(har, getRem) {
		arg := ci.Common().Args[1]
		addrs := fieldOrigin(har, arg, idAddr)
		okA := len(addrs) > 0
		for _, v := range addrs {
			if !isStringOf(v, func(x ssa.Value) bool { return x == ssa.Value(har.Params[2]) }) {
				okA = false
			}
		}
		r.Check(okA, "C11-MATCH", core.FnName(har)+" key.Addr", p.Pos(ci.Pos()), "the lookup key's address is the text of the reply's source", "the reply is matched without (or with the wrong) responder address: any peer can answer another peer's ask")
		groups := fieldOrigin(har, arg, idGroup)
		okG := len(groups) > 0
		for _, v := range groups {
			if !core.DerivesFrom(v, func(x ssa.Value) bool { return x == ssa.Value(har.Params[4]) }) {
				okG = false
			}
		}
		r.Check(okG, "C11-MATCH", core.FnName(har)+" key.GroupID", p.Pos(ci.Pos()), "the lookup key's group id is the reply header's", "the reply is matched without its group id")
	}
	// Ask(ctx, resp, dst, req)
	for _, ci := range core.CallsToFn(ask, create) {
		arg := ci.Common().Args[1]
		addrs := fieldOrigin(ask, arg, idAddr)
		okA := len(addrs) > 0
		for _, v := range addrs {
			if !isStringOf(v, func(x ssa.Value) bool { return x == ssa.Value(ask.Params[3]) }) {
				okA = false
			}
		}
		r.Check(okA, "C11-MATCH", core.FnName(ask)+" key.Addr", p.Pos(ci.Pos()), "the pending ask is registered under the destination's text", "the pending ask is registered under a key that does not name the destination")
		// unregistration on every exit: a defer of removeAsk registered right after
		deferred := mustPassFrom(ask, ci.(ssa.Instruction), func(in ssa.Instruction) bool {
			d, ok := in.(*ssa.Defer)
			return ok && core.IsCallToFn(d.Common(), remove)
		})
		r.Check(deferred, "C11-MATCH", core.FnName(ask)+" unregister", p.Pos(ci.Pos()), "every path after registration defers removeAsk", "a pending ask can stay registered after Ask returned: a late reply writes into a buffer the caller already reuses")
	}
}
