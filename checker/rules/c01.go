package rules

import (
	"fmt"
	"go/token"
	"go/types"
	"sort"
	"strings"

	"golang.org/x/tools/go/ssa"

	"p2pverif/core"
)

func init() { All["C01"] = c01 }

func isMessageType(p *core.Prog, t types.Type) bool {
	n := p.Named("", "Message")
	return n != nil && isNamed(t, n)
}

// payloadReads: the values in fn that read field Payload of the message value v
// (directly, or through the cell go/ssa spills a captured/addressed parameter into).
func payloadReads(fn *ssa.Function, v ssa.Value) map[ssa.Value]bool {
	out := map[ssa.Value]bool{}
	var cells []ssa.Value
	if _, isPtr := v.Type().Underlying().(*types.Pointer); isPtr {
		cells = append(cells, v)
	}
	for _, ref := range *v.Referrers() {
		switch x := ref.(type) {
		case *ssa.Field:
			if st, ok := x.X.Type().Underlying().(*types.Struct); ok && st.Field(x.Field).Name() == "Payload" {
				out[x] = true
			}
		case *ssa.Store:
			if x.Val == v {
				cells = append(cells, x.Addr)
			}
		}
	}
	for _, c := range cells {
		if c.Referrers() == nil {
			continue
		}
		for _, ref := range *c.Referrers() {
			fa, ok := ref.(*ssa.FieldAddr)
			if !ok {
				continue
			}
			f, _ := core.FieldOfAddr(fa)
			if f == nil || f.Name() != "Payload" {
				continue
			}
			for _, r2 := range *fa.Referrers() {
				if u, ok := r2.(*ssa.UnOp); ok && u.Op == token.MUL {
					out[u] = true
				}
			}
		}
	}
	return out
}

func c01(r *core.Report) {
	p := r.P
	r.Explanation = "Static necessary conditions of 'every swarm delivers exactly what was told, to whom it was told, and the sender keeps its buffers': (BORROW-SEND) in every Tell/Ask implementation, and in everything it calls in the module, no alias of an element of the payload vector is written and none outlives the call (stored in a field, map, global or shared slice, sent on a channel, captured by an unjoined goroutine); copies (append of bytes, copy, VecBytes, string conversion) cut the alias, synchronous hand-down to an inner Tell/Ask or to a hub is a loan; (BORROW-RECV) in every function handed a received message (callbacks passed to an inner Receive/ServeAsk and the handlers they call) no alias of the message payload outlives the callback or is written; (ADDR-PROVENANCE) wherever a message is re-wrapped for the layer above, its source derives from the inbound message's source and not from its destination, and vice versa, and the queue stores src/dst into the matching fields. Byte-identity of delivered payloads over all lengths, contents and interleavings is a runtime claim and is not decided (C09/C10 cover their structural parts)."
	r.Assumptions = []string{"external callees in the audited no-retain table read their byte arguments during the call and keep no reference; io.Writer/io.Reader implementations honour the io contracts", "Go channel semantics for the hubs' rendezvous"}
	r.Trusted = []string{"go/types, go/ssa (x/tools v0.29.0)"}
	h := resolveHubs(r)
	if len(r.Failures) > 0 {
		return
	}
	bw := newBorrowEngine(p, h)

	// ---- the loan through the hubs is synchronous (what BORROW-* assume when they treat
	// TellHub/AskHub.Deliver as a loan): same rules as C13, decided here as well
	r.Rule("C01-LOAN-COMMIT", "hub Deliver returns nil only after the completion wait that follows the rendezvous send", 8)
	ruleCommit(r, h, "C01-LOAN-COMMIT")
	r.Rule("C01-LOAN-DONE", "hub Receive/ServeAsk signal completion only after the callback returned", 9)
	ruleDoneAfterCallback(r, h, "C01-LOAN-DONE")

	// ---- C01-BORROW-SEND
	r.Rule("C01-BORROW-SEND", "no alias of a Tell/Ask payload element is written or outlives the call", 24)
	ruleBorrowSend(r, bw, "C01-BORROW-SEND")

	// ---- C01-BORROW-RECV
	r.Rule("C01-BORROW-RECV", "no alias of a received message's payload is written or outlives the callback", 9)
	ruleBorrowRecv(r, h, bw, "C01-BORROW-RECV")
	// ---- C01-DELIVER-OWNED (shared with C14): a payload handed to a hub out of a buffer that other workers
	// also fill reaches the callback with another message's bytes
	r.Rule("C01-DELIVER-OWNED", "the payload a layer hands to a hub or queue is not backed by a slice held in shared state", 8)
	ruleDeliverOwned(r, h, "C01-DELIVER-OWNED")

	// ---- C01-FRAG-ID (shared with C10-ID-ATOMIC): no mixture of messages at the receiver needs unique
	// fragment ids per (sender, destination)
	r.Rule("C01-FRAG-ID", "a fragmented message's id is read and advanced in one critical section (or by one atomic add)", 2)
	ruleFragIDAtomic(r, "C01-FRAG-ID")

	// ---- C01-REASSEMBLY-COMPLETE (shared with C10-COMPLETE): "never a truncation ... of other messages":
	// a reassembled message is handed up only after the completion test, and the test covers every part
	r.Rule("C01-REASSEMBLY-COMPLETE", "assembly/delivery only after the completion test; the test covers every part", 5)
	ruleComplete(r, "C01-REASSEMBLY-COMPLETE")

	// ---- C01-NO-TRUNCATION: quicswarm delimits a tell by the END of its stream (the receiver reads to
	// EOF). A stream that is ended gracefully after a write that failed half way (deadline, cancellation)
	// makes the receiver deliver the part that was written as the whole message: on the error edge of the
	// payload write the stream must be aborted (CancelWrite) before the deferred/explicit Close ends it
	r.Rule("C01-NO-TRUNCATION", "quicswarm Tell aborts the stream when the payload write fails", 1)
	if qt := needFn(r, "s/quicswarm", "Swarm.Tell"); qt != nil {
		n := 0
		for _, fn := range core.WithAnons(qt) {
			for _, in := range core.AllInstrs(fn) {
				w, ok := in.(*ssa.Call)
				if !ok || !strings.HasSuffix(core.CalleeName(w.Common()), "net.Buffers).WriteTo") {
					continue
				}
				n++
				cut := cutErrNilOf(w) // removes the edges on which the write's error is nil
				isCancel := func(i2 ssa.Instruction) bool {
					ci, ok := i2.(ssa.CallInstruction)
					return ok && ci.Common().IsInvoke() && ci.Common().Method.Name() == "CancelWrite"
				}
				okAbort := core.GuardEdges(fn, cut) > 0
				reached := core.Reach(fn, w, cut, isCancel)
				for _, ret := range core.Returns(fn) {
					if reached[ret] {
						okAbort = false
					}
				}
				r.Check(okAbort, "C01-NO-TRUNCATION", core.FnName(fn)+" write error", p.Pos(w.Pos()), "every path on which the write failed calls CancelWrite before returning", "when the payload write fails (context deadline in the middle of a large tell) the stream is still ended gracefully: the receiver reads to the end of the stream and delivers the bytes written so far as a complete, shorter message")
			}
		}
		if n == 0 {
			r.Fail("C01-NO-TRUNCATION: no payload write found in quicswarm Tell (anchor stale)")
		}
	}

	// receiver side of the same clause: what was read before a stream or frame read FAILED is a prefix of a
	// message; it must not reach a hub. The test has to be on the read's own error (an error that was first
	// passed through a classifier such as quicErr, which maps "session closed with code 0" to nil, lets the
	// prefix through as a complete message).
	r.Rule("C01-READ-ERROR-DROPS", "quicswarm delivers what it read from a stream only on the nil edge of the read's own error", 2)
	{
		n := 0
		rf := p.Func("s/quicswarm", "readFrame")
		for _, fn := range p.ModFuncs {
			if fn.Pkg == nil || fn.Pkg.Pkg.Path() != core.ModPath+"/s/quicswarm" {
				continue
			}
			for _, in := range core.AllInstrs(fn) {
				rd, ok := in.(*ssa.Call)
				if !ok {
					continue
				}
				name := core.CalleeName(rd.Common())
				if !(name == "io.ReadAll" || name == "io.ReadFull" || (rf != nil && core.IsCallToFn(rd.Common(), rf))) {
					continue
				}
				isDeliver := func(i2 ssa.Instruction) bool {
					ci, ok := i2.(ssa.CallInstruction)
					if !ok {
						return false
					}
					g := core.StaticCallee(ci.Common())
					return g != nil && (g == h.fns["TellHub.Deliver"] || g == h.fns["AskHub.Deliver"] || g.Origin() == h.fns["TellHub.Deliver"] || g.Origin() == h.fns["AskHub.Deliver"])
				}
				delivers := false
				for i2 := range core.Reach(fn, rd, nil, nil) {
					if isDeliver(i2) {
						delivers = true
					}
				}
				if !delivers {
					continue
				}
				n++
				r.Analysed(fn)
				bad := false
				for i2 := range core.Reach(fn, rd, cutErrNilOf(rd), nil) {
					if isDeliver(i2) {
						bad = true
					}
				}
				r.Check(!bad, "C01-READ-ERROR-DROPS", core.FnName(fn)+" after "+name, p.Pos(rd.Pos()), "the hub is not reachable on the edge where this read returned an error",
					"the bytes read before "+name+" failed can reach a hub: when the sender's session ends in the middle of a message the receiver delivers the prefix it has as a complete message")
			}
		}
		if n < 2 {
			r.Fail("C01-READ-ERROR-DROPS: found %d stream reads followed by a delivery in quicswarm, 2 confirmed on the pinned tree", n)
		}
	}

	// ---- C01-ADDRESSEE (shared with C04-P2PKE): "to whom it was told": on the identity-addressed
	// layer a Tell to X@addr goes out only on a channel whose authenticated key fingerprints to X
	r.Rule("C01-ADDRESSEE", "p2pkeswarm sends a Tell only on a channel whose authenticated identity equals the destination's", 2)
	ruleP2PKEAddressee(r, "C01-ADDRESSEE")

	// ---- C01-ADDR-PROVENANCE
	r.Rule("C01-ADDR-PROVENANCE", "re-wrapped messages keep source as source and destination as destination", 10)
	nProv := 0
	tellDst := map[*ssa.Parameter]bool{}
	for _, fn := range ctxMethods(p, "Tell", "Ask") {
		for i, prm := range fn.Params {
			if _, isSl := prm.Type().Underlying().(*types.Slice); i < 2 || isSl {
				continue
			}
			tellDst[prm] = true
			break
		}
	}
	var roles func(v ssa.Value, depth int, out map[string]bool)
	roles = func(v ssa.Value, depth int, out map[string]bool) {
		core.BackSlice(v, func(x ssa.Value) bool {
			if f, base := core.FieldRead(x); f != nil && base != nil {
				if (f.Name() == "Src" || f.Name() == "Dst") && isMessageType(p, derefType(base.Type())) {
					out[f.Name()] = true
					return false
				}
				if f.Name() == "localID" || f.Name() == "localAddr" || f.Name() == "local" {
					out["local"] = true
					return false
				}
			}
			if c, ok := x.(*ssa.Call); ok {
				n := core.CalleeName(c.Common())
				if strings.HasSuffix(n, ".LocalAddr") || strings.HasSuffix(n, ".LocalID") || strings.HasSuffix(n, "makeLocalAddr") {
					out["local"] = true
					return false
				}
			}
			prm, ok := x.(*ssa.Parameter)
			if !ok {
				return true
			}
			if tellDst[prm] {
				out["told-dst"] = true
				return false
			}
			if depth >= 4 {
				out["unknown"] = true
				return false
			}
			fn := prm.Parent()
			idx := -1
			for i, q := range fn.Params {
				if q == prm {
					idx = i
				}
			}
			sites := p.StaticCallSites(fn)
			if len(sites) == 0 {
				out["unknown"] = true
			}
			for _, cs := range sites {
				if idx < len(cs.Common().Args) {
					roles(cs.Common().Args[idx], depth+1, out)
				}
			}
			return false
		})
	}
	for _, fn := range p.ModFuncs {
		if strings.Contains(fn.String(), "swarmtest") || strings.Contains(fn.String(), "p2ptest") {
			continue
		}
		for _, f := range []*ssa.Function{fn} {
			for _, in := range core.AllInstrs(f) {
				a, ok := in.(*ssa.Alloc)
				if !ok || !isMessageType(p, derefType(a.Type())) {
					continue // any local Message (composite literal or named variable) whose fields are stored
				}
				for _, fld := range []string{"Src", "Dst"} {
					other := "Dst"
					if fld == "Dst" {
						other = "Src"
					}
					R := map[string]bool{}
					nvals := 0
					for _, v := range addrFieldValues(a, fld) {
						if fa, isFA := v.(*ssa.FieldAddr); isFA {
							for _, sub := range nestedStores(fa) {
								nvals++
								roles(sub, 0, R)
							}
							continue
						}
						nvals++
						roles(v, 0, R)
					}
					if nvals == 0 {
						continue
					}
					c := fmt.Sprintf("%s Message.%s", core.FnName(f), fld)
					var rs []string
					for k := range R {
						rs = append(rs, k)
					}
					sort.Strings(rs)
					desc := strings.Join(rs, ",")
					switch {
					case R[other]:
						r.Violation("C01-ADDR-PROVENANCE", c, p.Pos(a.Pos()), "the "+fld+" of a re-wrapped message derives from the inbound message's "+other+" (origins: "+desc+"): receivers see the wrong sender/recipient")
					case R[fld] || R["local"] || R["told-dst"]:
						nProv++
						r.OK("C01-ADDR-PROVENANCE", c, p.Pos(a.Pos()), "origins of "+fld+": "+desc+" (never the inbound "+other+")")
					default:
						r.Trivial("C01-ADDR-PROVENANCE", c, p.Pos(a.Pos()), "origins of "+fld+": "+desc+" — the address does not come from an inbound message (origination from the transport)")
					}
				}
			}
		}
	}
	// callers of the queue's vector entry pass (src, dst) in that order
	if dv := h.fns["Queue.DeliverVec"]; dv != nil {
		for _, cs := range p.StaticCallSites(dv) {
			args := cs.Common().Args
			if len(args) < 3 {
				continue
			}
			rs, rd := map[string]bool{}, map[string]bool{}
			roles(args[1], 0, rs)
			roles(args[2], 0, rd)
			c := core.FnName(cs.Parent()) + " DeliverVec(src, dst)"
			nProv++
			r.Check(!rs["Dst"] && !rs["told-dst"] && !rd["Src"], "C01-ADDR-PROVENANCE", c, p.Pos(cs.Pos()), "the source argument is not the told destination / inbound Dst and the destination argument is not the inbound Src", "DeliverVec is called with source and destination crossed")
		}
	}
	// the queue stores src into Src and dst into Dst
	if dv := h.fns["Queue.DeliverVec"]; dv != nil {
		okQ, n := true, 0
		for _, in := range core.AllInstrs(dv) {
			st, ok := in.(*ssa.Store)
			if !ok {
				continue
			}
			f, _ := core.FieldOfAddr(st.Addr)
			if f == nil {
				continue
			}
			switch f.Name() {
			case "Src":
				n++
				okQ = okQ && core.Through(st.Val) == ssa.Value(dv.Params[1])
			case "Dst":
				n++
				okQ = okQ && core.Through(st.Val) == ssa.Value(dv.Params[2])
			}
		}
		nProv++
		r.Check(okQ && n == 2, "C01-ADDR-PROVENANCE", core.FnName(dv), p.Pos(dv.Pos()), "src is stored as Src and dst as Dst", "the queue stores the sender as destination or vice versa")
	}
	var recvLit *ssa.Function
	if rf := needFn(r, "", "Receive"); rf != nil && len(rf.AnonFuncs) == 1 {
		recvLit = rf.AnonFuncs[0]
	} else {
		r.Fail("unresolved anchor: the callback literal of p2p.Receive")
	}
	for _, cm := range []*ssa.Function{needFn(r, "s/swarmutil", "copyMessage"), recvLit} {
		if cm == nil {
			continue
		}
		okC, n := true, 0
		for _, in := range core.AllInstrs(cm) {
			st, ok := in.(*ssa.Store)
			if !ok {
				continue
			}
			f, _ := core.FieldOfAddr(st.Addr)
			f2, _ := core.FieldRead(st.Val)
			if f != nil && (f.Name() == "Src" || f.Name() == "Dst") {
				n++
				okC = okC && f2 != nil && f2.Name() == f.Name()
			}
		}
		nProv++
		r.Check(okC && n == 2, "C01-ADDR-PROVENANCE", core.FnName(cm), p.Pos(cm.Pos()), "Src is copied to Src and Dst to Dst", "source and destination are crossed when the message is copied")
	}
	r.Extra["functions_visited_by_borrow_analysis"] = len(bw.Visited)
	used := map[string]string{}
	for n := range bw.NoRetainUsed {
		used[n] = bw.NoRetain[n]
	}
	r.Extra["audited_no_retain_externals_consulted"] = used
	_ = nProv
}

func nestedStores(fa *ssa.FieldAddr) []ssa.Value {
	var out []ssa.Value
	for _, ref := range *fa.Referrers() {
		switch x := ref.(type) {
		case *ssa.FieldAddr:
			for _, r2 := range *x.Referrers() {
				if st, ok := r2.(*ssa.Store); ok && st.Addr == ssa.Value(x) {
					out = append(out, st.Val)
				}
			}
		case *ssa.Store:
			if x.Addr == ssa.Value(fa) {
				out = append(out, x.Val)
			}
		}
	}
	return out
}

// localAddrOrigin: an address the layer knows locally (its own id, LocalAddr of a connection).
func localAddrOrigin(v ssa.Value) bool {
	return core.DerivesFrom(v, func(x ssa.Value) bool {
		if f, _ := core.FieldRead(x); f != nil && (f.Name() == "localID" || f.Name() == "localAddr") {
			return true
		}
		if c, ok := x.(*ssa.Call); ok {
			n := core.CalleeName(c.Common())
			return strings.HasSuffix(n, ".LocalAddr") || strings.HasSuffix(n, ".LocalID") || strings.HasSuffix(n, "makeLocalAddr")
		}
		return false
	})
}

func derefType(t types.Type) types.Type {
	if pt, ok := t.Underlying().(*types.Pointer); ok {
		return pt.Elem()
	}
	return t
}

// newBorrowEngine: the borrow/escape engine with the module's audited tables (shared by C01, C11, C14).
func newBorrowEngine(p *core.Prog, h *hubSlots) *core.Borrow {
	bw := core.NewBorrow(p)
	bw.SyncHandOff[h.fns["TellHub.Deliver"]] = true
	bw.SyncHandOff[h.fns["AskHub.Deliver"]] = true
	bw.NoRetain = map[string]string{
		"(*net.UDPConn).WriteToUDP":                            "copies the datagram into the kernel during the call",
		"(*net.Buffers).WriteTo":                               "consumes the vector (which Tell may modify), writes the buffers' bytes to w, keeps no reference",
		"(net.Buffers).WriteTo":                                "same",
		"(golang.org/x/crypto/ssh.Conn).SendRequest":           "marshals the payload into the outgoing packet before returning",
		"(*github.com/flynn/noise.HandshakeState).ReadMessage": "decrypts into its out argument; e and s are copied out of message (state.go: copy(s.re, message), DecryptAndHash(s.rs[:0], ...))",
		"google.golang.org/protobuf/proto.Unmarshal":           "copies bytes fields into the message (no aliasing by default)",
		"(*bytes.Buffer).Write":                                "copies p into the buffer",
		"(*strings.Builder).Write":                             "copies",
		"(io.WriteCloser).Write":                               "io.Writer contract",
		"fmt.Fprintf":                                          "formats", "fmt.Sprintf": "formats", "fmt.Errorf": "formats (error text only)",
		"github.com/pkg/errors.Errorf": "formats", "log.Println": "formats",
	}
	return bw
}

// borrowReport turns the engine's events for one root into obligations.
func borrowReport(r *core.Report, rule, c string, fn *ssa.Function, evs []core.BorrowEvent) {
	p := r.P
	seen := map[string]bool{}
	bad := 0
	for _, e := range evs {
		k := fmt.Sprintf("%s|%s|%s", e.Kind, core.FnName(e.Fn), p.Pos(e.In.Pos()))
		if seen[k] {
			continue
		}
		seen[k] = true
		bad++
		switch e.Kind {
		case "unknown-call":
			r.Undecided(rule, c+" -> "+core.FnName(e.Fn), p.Pos(e.In.Pos()), e.What+" (add it to the audited no-retain table with its reason, or it retains the buffer)")
		default:
			r.Violation(rule, c+" -> "+core.FnName(e.Fn)+" "+e.Kind, p.Pos(e.In.Pos()), e.What+": the owner may reuse the buffer as soon as the call returns, so what is delivered later (or what the owner still holds) changes")
		}
	}
	if bad == 0 {
		r.OK(rule, c, p.Pos(fn.Pos()), "every alias of the borrowed bytes is read, copied or lent synchronously; none is written or kept")
	}
}

// ruleBorrowRecv: in every function handed a received message by value (receive callbacks, handlers,
// the queue) and in mbapp's handleMessage, no alias of the payload is written or outlives the call.
// Shared by C01 (delivered bytes stay what was sent), C11 (an ask reply kept by reference is
// overwritten by the next reply) and C14 (callback buffer ownership).
func ruleBorrowRecv(r *core.Report, h *hubSlots, bw *core.Borrow, ruleID string) {
	p := r.P
	type work struct {
		fn  *ssa.Function
		msg ssa.Value
	}
	var queue []work
	seenW := map[*ssa.Function]bool{}
	for _, fn := range p.ModFuncs {
		if strings.Contains(fn.String(), "swarmtest") || strings.Contains(fn.String(), "p2ptest") {
			continue
		}
		for _, prm := range fn.Params {
			// by value: the callee sees a message it was lent. By pointer: only copyMessage's source
			// (the other *Message parameters are out-parameters that the callee fills with its own buffers)
			_, isPtr := prm.Type().Underlying().(*types.Pointer)
			byPtrIn := isPtr && isMessageType(p, prm.Type()) && fn.Name() == "copyMessage" && prm.Name() == "src"
			if ((isMessageType(p, prm.Type()) && !isPtr) || byPtrIn) && !seenW[fn] {
				// the hubs themselves lend the message on
				if fn == h.fns["TellHub.Deliver"] || fn == h.fns["AskHub.Deliver"] || fn.Name() == "NoOpAskHandler" {
					continue
				}
				seenW[fn] = true
				queue = append(queue, work{fn, prm})
			}
		}
	}
	for _, w := range queue {
		r.Analysed(w.fn)
		seeds := payloadReads(w.fn, w.msg)
		if len(seeds) == 0 {
			r.Trivial(ruleID, core.FnName(w.fn), p.Pos(w.fn.Pos()), "the payload is not read here (the message is passed on whole)")
			continue
		}
		borrowReport(r, ruleID, core.FnName(w.fn), w.fn, bw.AnalyseSeeds(w.fn, seeds))
	}
	// byte-slice parameters that carry a received payload whose buffer the caller reuses
	for _, extra := range []struct{ pkg, fn, param string }{
		{"p/mbapp", "Swarm.handleMessage", "data"}, // recvLoop reuses m.Payload on the next p2p.Receive
	} {
		fn := needFn(r, extra.pkg, extra.fn)
		if fn == nil {
			continue
		}
		idx := -1
		for i, prm := range fn.Params {
			if prm.Name() == extra.param {
				idx = i
			}
		}
		if idx < 0 {
			r.Fail("%s: %s: parameter %s not found", ruleID, core.FnName(fn), extra.param)
			continue
		}
		r.Analysed(fn)
		borrowReport(r, ruleID, core.FnName(fn)+" "+extra.param, fn, bw.AnalyseParam(fn, idx))
	}
}

// ruleBorrowSend: in every Tell/Ask method, framing function and send helper that is handed the caller's
// vector, no alias of an element of the vector is written or outlives the call (the caller may reuse or
// share its buffers as soon as Tell/Ask returned; a layer that passes them on by reference to a callback,
// a queue or a goroutine hands out the caller's memory). Shared by C01, C11 (Ask) and C14.
func ruleBorrowSend(r *core.Report, bw *core.Borrow, ruleID string) {
	p := r.P
	sendRoots := ctxMethods(p, "Tell", "Ask")
	for _, n := range []string{"stringMuxFunc", "varintMuxFunc", "uint16MuxFunc", "uint32MuxFunc", "uint64MuxFunc"} {
		if f := needFn(r, "p/p2pmux", n); f != nil {
			sendRoots = append(sendRoots, f)
		}
	}
	for _, extra := range [][2]string{{"s/vswarm", "SecureRealm.tell"}, {"s/vswarm", "SecureRealm.ask"}, {"p/p2pmux", "muxCore.tell"}, {"p/p2pmux", "muxCore.ask"}, {"s/swarmutil", "Queue.DeliverVec"}, {"p/p2pke", "Channel.Send"}, {"p/mbapp", "Swarm.send"}, {"s/fragswarm", "newMessage"}, {"s/quicswarm", "writeFrame"}} {
		if f := needFn(r, extra[0], extra[1]); f != nil {
			sendRoots = append(sendRoots, f)
		}
	}
	for _, fn := range sendRoots {
		r.Analysed(fn)
		idx := -1
		for i, prm := range fn.Params {
			tn := prm.Type().String()
			if strings.HasSuffix(tn, "p2p.IOVec") || strings.HasSuffix(tn, "net.Buffers") {
				idx = i
			}
			if st, ok := prm.Type().Underlying().(*types.Struct); ok && fn.Name() == "send" {
				_ = st
				idx = i // sendParams carries the vector
			}
		}
		if idx < 0 {
			continue
		}
		borrowReport(r, ruleID, core.FnName(fn), fn, bw.AnalyseParam(fn, idx))
	}

}
