package rules

import (
	"fmt"
	"go/token"
	"go/types"
	"strings"

	"golang.org/x/tools/go/ssa"

	"p2pverif/core"
)

func init() { All["C14"] = c14 }

// guardTable: mutex field -> fields it guards (frozen after reading the code;
// candidates came from the "accessed under lock k of n times" statistic).
var guardTable = []struct {
	rel, typ, mu string
	fields       []string
	extra        []string // "rel:Type" whose listed fields are guarded by this mutex as well
}{
	{"p/p2pke", "Channel", "mu", []string{"sessions", "remoteKey", "remoteTimestamp", "ready", "lastReceived", "lastSent"}, nil},
	{"p/p2pke", "Timer", "mu", []string{"isPending"}, nil},
	{"s/p2pkeswarm", "store", "mu", []string{"m"}, nil},
	{"s/fragswarm", "swarm", "mu", []string{"aggs", "msgIDs"}, nil},
	{"s/fragswarm", "aggregator", "mu", []string{"parts"}, nil},
	{"p/mbapp", "collector", "mu", []string{"bitMap", "buf"}, nil},
	{"p/mbapp", "fragLayer", "mu", []string{"collectors"}, nil},
	{"p/mbapp", "asker", "mu", []string{"inFlight"}, nil},
	{"p/kademlia", "Cache", "mu", []string{"count", "buckets"}, nil},
	{"s/quicswarm", "Swarm", "mu", []string{"sessCache"}, nil},
	{"s/sshswarm", "Swarm", "mu", []string{"conns"}, nil},
	{"s/vswarm", "SecureRealm", "mu", []string{"swarms"}, nil},
	{"p/p2pmux", "muxedSwarm", "mu", []string{"isClosed"}, nil},
	{"p2pconn", "packetConn", "mu", []string{"readDeadline", "writeDeadline"}, nil},
}

// sessionFields of p2pke.Session are guarded by the owning Channel's mutex on
// every module call path (Session has no lock of its own).
var sessionGuarded = []string{"hsIndex", "msgCache", "hs", "initHelloTime", "remoteKey", "cipherOut", "cipherIn", "nonce", "rp"}

// functions whose accesses to guarded state are accepted without a lock in
// the static lockset, one line of reason each.
var auditedUnlocked = map[string]string{
	"(*p2p/p/p2pke.Session).String": "diagnostic formatter with no module caller other than the logger, which formats zap.Any(session) synchronously inside Channel methods that hold Channel.mu (proposeNewSession)",
}

// foreign calls accepted under a lock, keyed by "function what lock".
var auditedForeign = map[string]string{
	"(*p2p/p/mbapp.Swarm[A, Pub]).handleTell hub Deliver collector.mu":       "collector.withBuffer hands the reassembled buffer to the hub while holding only that one message's collector lock; no other message, sender or layer takes it, so nothing can wait on it except a duplicate fragment of the same (already complete) message",
	"(*p2p/p/mbapp.Swarm[A, Pub]).handleAskRequest hub Deliver collector.mu": "same: per-message collector lock held across the ask handler",
	"(*p2p/p/mbapp.Swarm[A, Pub]).send inner swarm Tell collector.mu":        "same: the ask reply is sent while the request's own collector lock is held; the inner Tell never touches mbapp collectors",
}

// mutexes that exist but guard no field the analysis relies on (one line of reason each).
var unguardingMutexes = map[string]string{
	"p2p/p/kademlia.DHTNode.mu": "redundant outer lock around Cache calls; Cache has its own mutex, which is what is checked",
	"p2p/p/p2pke.Timer.runMu":   "serialises timer callbacks; guards no field",
}

func c14(r *core.Report) {
	p := r.P
	r.Explanation = "Static necessary conditions of 'concurrent use is race free and callbacks own their buffers': (LOCKED) for the frozen table of mutex-guarded fields, every read or write in the module happens with the guarding mutex in the must-held lockset (exclusively for writes); locksets are computed per function by forward dataflow and entry locksets are the intersection over all module call sites, with literals passed to lock-holding helpers (doThenSend, store.getOrCreate/purge, sync.Once.Do) inheriting the helper's lockset at the invocation; objects still under construction are exempt; p2pke.Session's state is guarded by the owning Channel's mutex on every module call path; (TABLE) every struct with a mutex is in the table; (NO-FOREIGN-UNDER-LOCK) no transport send, inner-swarm call or hub delivery runs while a table lock is held; (FREELIST) a queue buffer returns to the freelist only after the callback returned and was zeroed, and a buffer taken from the freelist has its payload rebuilt from length 0 before it is queued. The Go memory model over all interleavings, state without a mutex (channels, atomics, sync.Map) and dependencies are not decided; lock identity is by mutex field, not by instance."
	r.Assumptions = []string{"lock identity = the mutex field of the struct type (instances are not distinguished)", "module callees return with the locks they were entered with"}
	r.Trusted = []string{"go/types, go/ssa (x/tools v0.29.0)", "sync.Mutex/RWMutex/Once semantics"}
	L := core.NewLocks(p, false)
	Lmay := core.NewLocks(p, true)

	// ---- table resolution
	type guard struct {
		mu     *types.Var
		fields map[*types.Var]bool
		owner  string
	}
	guardOf := map[*types.Var]*guard{}
	var guards []*guard
	inTable := map[*types.Var]bool{}
	for _, g := range guardTable {
		mu := needField(r, g.rel, g.typ, g.mu)
		if mu == nil {
			continue
		}
		inTable[mu] = true
		gg := &guard{mu: mu, fields: map[*types.Var]bool{}, owner: g.typ}
		for _, f := range g.fields {
			fv := needField(r, g.rel, g.typ, f)
			if fv != nil {
				gg.fields[fv] = true
				guardOf[fv] = gg
			}
		}
		guards = append(guards, gg)
	}
	chanMu := p.Field("p/p2pke", "Channel", "mu")
	if chanMu != nil {
		for _, f := range sessionGuarded {
			fv := needField(r, "p/p2pke", "Session", f)
			if fv != nil {
				guardOf[fv] = &guard{mu: chanMu, owner: "Session(by Channel.mu)"}
			}
		}
	}
	if len(r.Failures) > 0 {
		return
	}

	// ---- C14-TABLE
	r.Rule("C14-TABLE", "every struct with a mutex field is in the guarded-field table", 14)
	for _, n := range moduleStructs(p) {
		st := n.Underlying().(*types.Struct)
		for i := 0; i < st.NumFields(); i++ {
			f := st.Field(i)
			tn := f.Type().String()
			if tn != "sync.Mutex" && tn != "sync.RWMutex" {
				continue
			}
			if strings.Contains(n.Obj().Pkg().Path(), "swarmtest") || strings.Contains(n.Obj().Pkg().Path(), "p2ptest") {
				continue
			}
			key := typeName(n) + "." + f.Name()
			if inTable[f] {
				r.OK("C14-TABLE", key, p.Pos(f.Pos()), "listed with the fields it guards")
			} else if why, ok := unguardingMutexes[key]; ok {
				r.OK("C14-TABLE", key, p.Pos(f.Pos()), "audited: "+why)
			} else {
				r.Violation("C14-TABLE", key, p.Pos(f.Pos()), "a mutex that is not in the guarded-field table: the fields it protects are unchecked (add a table line)")
			}
		}
	}

	// ---- C14-LOCKED
	r.Rule("C14-LOCKED", "every access to a guarded field holds its mutex (exclusively for writes)", 60)
	type accKey struct {
		fn    *ssa.Function
		field *types.Var
		write bool
	}
	worst := map[accKey]ssa.Instruction{}
	okCount := map[accKey]int{}
	for _, fn := range p.ModFuncs {
		if strings.Contains(fn.String(), "swarmtest") || strings.Contains(fn.String(), "p2ptest") {
			continue
		}
		if why, ok := auditedUnlocked[core.FnName(fn)]; ok {
			r.OK("C14-LOCKED", core.FnName(fn)+" audited", p.Pos(fn.Pos()), "audited: "+why)
			continue
		}
		for _, in := range core.AllInstrs(fn) {
			var f *types.Var
			var base ssa.Value
			write := false
			switch x := in.(type) {
			case *ssa.FieldAddr:
				f, base = core.FieldOfAddr(x)
				for _, ref := range *x.Referrers() {
					switch y := ref.(type) {
					case *ssa.Store:
						if y.Addr == ssa.Value(x) {
							write = true
						}
					case *ssa.IndexAddr:
						for _, r2 := range *y.Referrers() {
							if st, ok := r2.(*ssa.Store); ok && st.Addr == ssa.Value(y) {
								write = true
							}
						}
					case *ssa.UnOp:
						for _, r2 := range *y.Referrers() {
							switch z := r2.(type) {
							case *ssa.MapUpdate:
								if z.Map == ssa.Value(y) {
									write = true
								}
							case ssa.CallInstruction:
								if core.IsBuiltin(z.Common(), "delete") && z.Common().Args[0] == ssa.Value(y) {
									write = true
								}
							}
						}
					case ssa.CallInstruction:
						// address passed to a call (atomic ops, methods with pointer receivers on the field)
						name := core.CalleeName(y.Common())
						if strings.HasPrefix(name, "sync/atomic.Add") || strings.HasPrefix(name, "sync/atomic.Store") {
							write = true
						}
					}
				}
			case *ssa.Field:
				st, _ := x.X.Type().Underlying().(*types.Struct)
				if st != nil {
					f, base = st.Field(x.Field).Origin(), x.X
				}
			}
			if f == nil {
				continue
			}
			g := guardOf[f.Origin()]
			if g == nil {
				continue
			}
			// construction: the object is allocated in this function and not yet shared
			if core.DerivesFromDirect(base, func(v ssa.Value) bool {
				a, ok := v.(*ssa.Alloc)
				return ok && a.Parent() == fn
			}) {
				continue
			}
			ls := L.At[in]
			mode, held := ls[g.mu.Origin()]
			k := accKey{fn, f.Origin(), write}
			if held && (mode || !write) {
				okCount[k]++
			} else if _, seen := worst[k]; !seen {
				worst[k] = in
			}
		}
	}
	seenOK := map[accKey]bool{}
	for k := range okCount {
		if _, bad := worst[k]; bad {
			continue
		}
		seenOK[k] = true
		g := guardOf[k.field]
		kind := "read"
		if k.write {
			kind = "write"
		}
		r.OK("C14-LOCKED", fmt.Sprintf("%s %s %s.%s", core.FnName(k.fn), kind, g.owner, k.field.Name()), p.Pos(k.fn.Pos()), fmt.Sprintf("%d access(es) with %s held", okCount[k], g.mu.Name()))
	}
	for k, in := range worst {
		g := guardOf[k.field]
		kind := "read"
		if k.write {
			kind = "write"
		}
		r.Analysed(k.fn)
		r.Violation("C14-LOCKED", fmt.Sprintf("%s %s %s.%s", core.FnName(k.fn), kind, g.owner, k.field.Name()), p.Pos(in.Pos()),
			fmt.Sprintf("%s of %s without holding %s (held here: %s; entry lockset of the function: %s): a concurrent writer under the lock races with this access", kind, k.field.Name(), g.mu.Name(), L.At[in], L.Entry[k.fn]))
	}

	// ---- C14-WRITES-EXCLUSIVE
	r.Rule("C14-WRITES-EXCLUSIVE", "every store to any field of a struct that carries a table mutex holds that mutex exclusively (construction excepted)", 20)
	ruleWritesExclusive(r, L, "C14-WRITES-EXCLUSIVE")

	// ---- C14-NO-FOREIGN-UNDER-LOCK
	r.Rule("C14-NO-FOREIGN-UNDER-LOCK", "no transport send, inner-swarm call or hub delivery while a table lock is held", 10)
	h := resolveHubs(r)
	sendField := p.Field("p/p2pke", "ChannelConfig", "Send")
	foreign := func(c *ssa.CallCommon) string {
		if c.IsInvoke() {
			switch c.Method.Name() {
			case "Tell", "Ask", "Receive", "ServeAsk":
				return "inner swarm " + c.Method.Name()
			}
			return ""
		}
		if f, _ := core.FieldRead(c.Value); f != nil && core.SameField(f, sendField) {
			return "transport send (ChannelConfig.Send)"
		}
		if sc := core.StaticCallee(c); sc != nil && (sc == h.fns["TellHub.Deliver"] || sc == h.fns["AskHub.Deliver"]) {
			return "hub Deliver"
		}
		return ""
	}
	for _, fn := range p.ModFuncs {
		if strings.Contains(fn.String(), "swarmtest") || strings.Contains(fn.String(), "p2ptest") {
			continue
		}
		for _, in := range core.AllInstrs(fn) {
			ci, ok := in.(*ssa.Call)
			if !ok {
				continue
			}
			what := foreign(ci.Common())
			if what == "" {
				continue
			}
			ls := Lmay.At[in]
			held := ""
			for _, g := range guards {
				if _, ok := ls[g.mu.Origin()]; ok {
					held = g.owner + "." + g.mu.Name()
				}
			}
			c := core.FnName(fn) + " " + what
			if held == "" {
				r.Trivial("C14-NO-FOREIGN-UNDER-LOCK", c, p.Pos(in.Pos()), "no table lock can be held here (may-lockset empty)")
			} else if why, ok := auditedForeign[core.FnName(fn)+" "+what+" "+held]; ok {
				r.OK("C14-NO-FOREIGN-UNDER-LOCK", c, p.Pos(in.Pos()), "audited: "+why)
			} else {
				r.Violation("C14-NO-FOREIGN-UNDER-LOCK", c, p.Pos(in.Pos()), what+" while holding "+held+": a synchronous transport (memswarm delivers in the caller's goroutine) re-enters the layer and deadlocks, and the lock is held across arbitrary user code")
			}
		}
	}

	// ---- C14-COMMIT (shared with C13): the layers below recycle their receive buffer as
	// soon as the hub's Deliver returns, so Deliver must not return success before the
	// callback has finished with the message
	r.Rule("C14-COMMIT", "hub Deliver returns success only after the callback finished (buffer ownership hand-back)", 8)
	ruleCommit(r, h, "C14-COMMIT")
	r.Rule("C14-DONE-AFTER-CALLBACK", "hub Receive/ServeAsk signal completion only after the callback returned (the buffer is the callback's until then)", 9)
	ruleDoneAfterCallback(r, h, "C14-DONE-AFTER-CALLBACK")
	// the callback's side of the same ownership rule (shared with C01-BORROW-RECV): whoever is handed a
	// message keeps no alias of its payload past the call and does not write it
	// an atomicity violation that the lockset rules cannot see (every access is locked): the id counter
	// read and its advance must share one critical section (shared with C10-ID-ATOMIC)
	r.Rule("C14-ID-ATOMIC", "fragment ids are read and advanced in one critical section (or by one atomic add)", 2)
	ruleFragIDAtomic(r, "C14-ID-ATOMIC")
	r.Rule("C14-CHECK-THEN-INSERT", "p2pkeswarm's channel table inserts only on the miss edge of a lookup made under the same write lock", 1)
	ruleCheckThenInsert(r, "C14-CHECK-THEN-INSERT")
	r.Rule("C14-BORROW-RECV", "no alias of a received message's payload is written or outlives the function it was lent to", 9)
	ruleBorrowRecv(r, h, newBorrowEngine(p, h), "C14-BORROW-RECV")

	// ---- C14-BORROW-SEND (shared with C01): what a callback receives is its own only if the sending side did not
	// pass the asker's/teller's buffer on by reference
	r.Rule("C14-BORROW-SEND", "no alias of a Tell/Ask payload element is written or outlives the call", 24)
	ruleBorrowSend(r, newBorrowEngine(p, h), "C14-BORROW-SEND")

	// ---- C14-COLLECTOR-EXCLUSIVE: mbapp hands the collector's own reassembly buffer to the callback;
	// handlePart runs addPart / isComplete / withBuffer as three separate critical sections and drops the
	// collector only afterwards, so a second worker that sees the same collector complete must be kept
	// out until the first callback has returned: the callback runs with the collector's mutex held
	// (this is the audited exception of NO-CALLBACK-UNDER-LOCK, and here it is REQUIRED)
	r.Rule("C14-COLLECTOR-EXCLUSIVE", "collector.withBuffer invokes the callback on the collector's buffer while holding the collector's mutex", 1)
	if wb := needFn(r, "p/mbapp", "collector.withBuffer"); wb != nil {
		cmu := needField(r, "p/mbapp", "collector", "mu")
		n := 0
		for _, in := range core.AllInstrs(wb) {
			c, ok := in.(*ssa.Call)
			if !ok || !core.IsParamFuncCall(c.Common()) {
				continue
			}
			n++
			_, held := L.At[in][cmu.Origin()]
			r.Check(held, "C14-COLLECTOR-EXCLUSIVE", core.FnName(wb), p.Pos(c.Pos()), "the callback is invoked with collector.mu held", "the reassembly buffer is handed to the callback after collector.mu was released: a second receive worker that finds the same collector complete (duplicate or simultaneous last fragments) delivers the same buffer to another callback while the first still uses it")
		}
		if n == 0 {
			r.Fail("C14-COLLECTOR-EXCLUSIVE: no callback invocation found in collector.withBuffer")
		}
	}

	// ---- C14-RESP-FENCE (shared with C11): the caller's response buffer is the caller's again when Ask
	// returns
	r.Rule("C14-RESP-FENCE", "mbapp writes the asker's response buffer only under the ask's once, and a cancelled Ask passes through that once before returning", 2)
	ruleRespFence(r, "C14-RESP-FENCE")

	// ---- C14-DELIVER-OWNED
	r.Rule("C14-DELIVER-OWNED", "the payload a layer hands to a hub or queue is not backed by a slice held in shared state (a struct field another worker also decrypts/assembles into)", 8)
	ruleDeliverOwned(r, h, "C14-DELIVER-OWNED")

	// ---- C14-FREELIST
	r.Rule("C14-FREELIST", "queue buffers: back to the freelist only after the callback, zeroed; payload rebuilt from length 0 before queueing", 3)
	ruleFreelist(r, h, "C14-FREELIST")
}

// ruleFreelist: queue slots return to the freelist only after the receive callback returned, zeroed, and
// a queued message has its payload rebuilt from length 0. Shared by C14 (buffer ownership) and C13 (a slot
// handed back early is overwritten by the next Deliver while the callback still runs: one message is seen
// by two callbacks and another by none).
func ruleFreelist(r *core.Report, h *hubSlots, ruleID string) {
	p := r.P
	{
		recv := h.fns["Queue.Receive"]
		zero := needFn(r, "s/swarmutil", "zeroMessage")
		isFn := func(in ssa.Instruction) bool {
			c, ok := in.(*ssa.Call)
			return ok && core.IsParamFuncCall(c.Common())
		}
		isZero := func(in ssa.Instruction) bool {
			c, ok := in.(*ssa.Call)
			return ok && core.IsCallToFn(c.Common(), zero)
		}
		for _, in := range core.AllInstrs(recv) {
			sd, ok := in.(*ssa.Send)
			if !ok {
				continue
			}
			cr := core.ClassifyChan(sd.Chan)
			if cr.Kind != "field" || !core.SameField(cr.Field, h.freelist) {
				continue
			}
			afterFn := !core.Reach(recv, nil, nil, isFn)[sd]
			afterZero := !core.Reach(recv, nil, nil, isZero)[sd]
			// zero happens after the callback too
			zeroAfterFn := true
			for _, z := range core.AllInstrs(recv) {
				if isZero(z) && core.Reach(recv, nil, nil, isFn)[z] {
					zeroAfterFn = false
				}
			}
			r.Check(afterFn && afterZero && zeroAfterFn, ruleID, core.FnName(recv)+" return to freelist", p.Pos(sd.Pos()), "the buffer is zeroed and returned only after the callback returned", "a buffer can go back to the freelist before the callback has returned (another Deliver overwrites a message the callback is still reading), or without being zeroed")
		}
		// every send on the queue channel, in whichever function of the package it sits: the message sent
		// had its Payload rebuilt from [:0]; a message that arrives as a parameter (an enqueue helper) is
		// checked at each call site of the helper
		for _, fn := range p.ModFuncs {
			if fn.Pkg == nil || fn.Pkg.Pkg.Path() != core.ModPath+"/s/swarmutil" {
				continue
			}
			var sent []struct {
				v  ssa.Value
				at ssa.Instruction
			}
			for _, in := range core.AllInstrs(fn) {
				if sd, ok := in.(*ssa.Send); ok {
					if cr := core.ClassifyChan(sd.Chan); cr.Kind == "field" && core.SameField(cr.Field, h.queueQ) {
						sent = append(sent, struct {
							v  ssa.Value
							at ssa.Instruction
						}{sd.X, sd})
					}
				}
			}
			for _, sel := range core.AllSelects(fn) {
				for _, st := range sel.States {
					cr := core.ClassifyChan(st.Chan)
					if st.Dir == types.SendOnly && cr.Kind == "field" && core.SameField(cr.Field, h.queueQ) {
						sent = append(sent, struct {
							v  ssa.Value
							at ssa.Instruction
						}{st.Send, sel})
					}
				}
			}
			const good, bad = "the queued message's payload was rebuilt by appending to payload[:0]", "a recycled buffer is queued without its payload being rebuilt from length 0: old contents become visible as part of another message"
			for _, sv := range sent {
				if prm, isPrm := core.Through(sv.v).(*ssa.Parameter); isPrm {
					idx := -1
					for i, q := range fn.Params {
						if q == prm {
							idx = i
						}
					}
					sites := 0
					for _, caller := range p.ModFuncs {
						for _, in := range core.AllInstrs(caller) {
							ci, ok := in.(ssa.CallInstruction)
							if !ok {
								continue
							}
							sc := core.StaticCallee(ci.Common())
							if sc == nil || (sc != fn && sc.Origin() != fn) || idx >= len(ci.Common().Args) {
								continue
							}
							sites++
							r.Analysed(caller)
							r.Check(rebuiltFromZero(p, ci.Common().Args[idx], 0), ruleID, core.FnName(caller)+" queue send via "+fn.Name(), p.Pos(in.Pos()), good, bad)
						}
					}
					if sites == 0 {
						r.Undecided(ruleID, core.FnName(fn)+" queue send", p.Pos(sv.at.Pos()), "the queued message is a parameter and no call site was found")
					}
					continue
				}
				r.Check(rebuiltFromZero(p, sv.v, 0), ruleID, core.FnName(fn)+" queue send", p.Pos(sv.at.Pos()), good, bad)
			}
		}
	}
}

// rebuiltFromZero: the message value v has its Payload field stored from
// append(old[:0], …) / VecBytes(old[:0], …), directly or inside copyMessage.
func rebuiltFromZero(p *core.Prog, v ssa.Value, depth int) bool {
	ok := false
	isZeroSlice := func(x ssa.Value) bool {
		s, isS := x.(*ssa.Slice)
		if !isS || s.High == nil {
			return false
		}
		k, isK := core.ConstInt(s.High)
		return isK && k == 0
	}
	cell := core.CellOf(v)
	if cell == nil {
		return false
	}
	fn := cell.Parent()
	for _, in := range core.AllInstrs(fn) {
		switch x := in.(type) {
		case *ssa.Store:
			f, base := core.FieldOfAddr(x.Addr)
			if f == nil || f.Name() != "Payload" || core.CellOfAddr(base) != cell {
				continue
			}
			c, isC := core.Peel(x.Val).(*ssa.Call)
			if isC && len(c.Call.Args) > 0 && isZeroSlice(c.Call.Args[0]) {
				ok = true
			}
		case *ssa.Call:
			// helper taking &m2 (copyMessage): check its body for the same store shape on its dst parameter
			callee := core.StaticCallee(x.Common())
			if callee == nil || !p.InModule(callee) || depth > 0 {
				continue
			}
			for ai, a := range x.Call.Args {
				if core.CellOfAddr(a) != cell {
					continue
				}
				for _, in2 := range core.AllInstrs(callee) {
					st, isSt := in2.(*ssa.Store)
					if !isSt {
						continue
					}
					f, base := core.FieldOfAddr(st.Addr)
					if f == nil || f.Name() != "Payload" || base != ssa.Value(callee.Params[ai]) {
						continue
					}
					c, isC := core.Peel(st.Val).(*ssa.Call)
					if isC && len(c.Call.Args) > 0 && isZeroSlice(c.Call.Args[0]) {
						ok = true
					}
				}
			}
		}
	}
	return ok
}

var _ = token.ADD

// ruleRespFence (shared by C14 and C11): mbapp copies an ask's reply into the caller's buffer on the
// receive worker. Ask may give up first (context ended). The two are fenced by the ask's sync.Once:
// the copy runs inside once.Do, and the giving-up path runs once.Do too (abort), so it either wins —
// the copy never happens — or waits until the copy has finished. Without the abort on the cancel path a
// late reply is written into a buffer the caller already owns again.
func ruleRespFence(r *core.Report, ruleID string) {
	p := r.P
	aw := needFn(r, "p/mbapp", "ask.await")
	cm := needFn(r, "p/mbapp", "ask.complete")
	onceF := needField(r, "p/mbapp", "ask", "once")
	bufF := needField(r, "p/mbapp", "ask", "respBuf")
	if aw == nil || cm == nil || onceF == nil || bufF == nil {
		return
	}
	isOnceDo := func(in ssa.Instruction) bool {
		ci, ok := in.(ssa.CallInstruction)
		if !ok || core.CalleeName(ci.Common()) != "(*sync.Once).Do" || len(ci.Common().Args) < 1 {
			return false
		}
		f, _ := core.FieldOfAddr(ci.Common().Args[0])
		return core.SameField(f, onceF)
	}
	var passesOnce func(fn *ssa.Function, d int) bool
	passesOnce = func(fn *ssa.Function, d int) bool {
		if fn == nil || fn.Blocks == nil || d > 2 {
			return false
		}
		return mustPass(fn, func(in ssa.Instruction) bool {
			if isOnceDo(in) {
				return true
			}
			ci, ok := in.(ssa.CallInstruction)
			if !ok {
				return false
			}
			g := core.StaticCallee(ci.Common())
			return g != nil && p.InModule(g) && passesOnce(g, d+1)
		})
	}
	// (1) every copy into respBuf lies in a literal handed to once.Do
	n1, ok1 := 0, true
	for _, fn := range p.ModFuncs {
		if fn.Pkg != aw.Pkg || strings.Contains(fn.String(), "_test") {
			continue
		}
		for _, in := range core.AllInstrs(fn) {
			c, ok := in.(*ssa.Call)
			if !ok || !core.IsBuiltin(c.Common(), "copy") {
				continue
			}
			if !core.DerivesFrom(c.Call.Args[0], func(x ssa.Value) bool {
				f, _ := core.FieldRead(x)
				return core.SameField(f, bufF)
			}) {
				continue
			}
			n1++
			// fn must be a literal bound into a once.Do call of its parent
			fenced := false
			if par := fn.Parent(); par != nil {
				for _, pin := range core.AllInstrs(par) {
					if isOnceDo(pin) {
						if core.ClosureFn(pin.(ssa.CallInstruction).Common().Args[1]) == fn {
							fenced = true
						}
					}
				}
			}
			ok1 = ok1 && fenced
		}
	}
	r.Check(n1 > 0 && ok1, ruleID, "copy into ask.respBuf", p.Pos(cm.Pos()), "the reply is copied into the caller's buffer only inside the ask's once.Do", "the caller's response buffer is written outside the ask's once: a reply can be copied while, or after, Ask gives up")
	// (2) the cancel path of await goes through the once
	n2, ok2 := 0, true
	for _, sel := range core.AllSelects(aw) {
		for i, st := range sel.States {
			cr := core.ClassifyChan(st.Chan)
			if st.Dir != types.RecvOnly || cr.Kind != "ctx" {
				continue
			}
			n2++
			blk := core.SelectCaseBlock(sel, i)
			if blk == nil {
				ok2 = false
				continue
			}
			ok2 = ok2 && mustPassAt(aw, blk.Instrs[0], func(in ssa.Instruction) bool {
				if isOnceDo(in) {
					return true
				}
				ci, ok := in.(ssa.CallInstruction)
				if !ok {
					return false
				}
				g := core.StaticCallee(ci.Common())
				return g != nil && p.InModule(g) && passesOnce(g, 0)
			})
		}
	}
	r.Check(n2 > 0 && ok2, ruleID, core.FnName(aw)+" cancel path", p.Pos(aw.Pos()), "when the context ends, await runs the ask's once (abort) before returning", "await returns on a cancelled context without passing through the ask's once: a reply that arrives at that moment is still copied into the response buffer after Ask has returned it to the caller (a write into memory the caller owns again)")
}

// ruleDeliverOwned: every call of TellHub.Deliver / AskHub.Deliver / Queue.Deliver outside swarmutil passes a
// message whose Payload does not derive from a slice stored in a field of heap state. The receive workers of a
// layer run concurrently (1+GOMAXPROCS of them) and the callback runs after the layer's own locks are released,
// so a payload decrypted or assembled into a per-peer or per-swarm buffer is overwritten by the next message
// while the callback still reads it. Derivation is the backward slice of the Payload component (through call
// arguments, and through the results of module callees two levels deep).
func ruleDeliverOwned(r *core.Report, h *hubSlots, ruleID string) {
	p := r.P
	targets := map[*ssa.Function]string{}
	for _, n := range []string{"TellHub.Deliver", "AskHub.Deliver", "Queue.Deliver"} {
		if f := h.fns[n]; f != nil {
			targets[f] = n
		}
	}
	isByteSlice := func(t types.Type) bool {
		sl, ok := t.Underlying().(*types.Slice)
		if !ok {
			return false
		}
		if b, ok := sl.Elem().Underlying().(*types.Basic); ok && b.Kind() == types.Byte {
			return true
		}
		if s2, ok := sl.Elem().Underlying().(*types.Slice); ok {
			b, ok := s2.Elem().Underlying().(*types.Basic)
			return ok && b.Kind() == types.Byte
		}
		return false
	}
	// shared: the backing array may be the one held in a byte-slice field of a module struct that is
	// reached through a pointer (heap state), not through a local cell
	sharedIn := func(v ssa.Value) (ssa.Value, bool) {
		var hit ssa.Value
		core.BackingOrigins(p, v, 3, func(x ssa.Value) bool {
			if hit != nil {
				return false
			}
			fa, ok := x.(*ssa.FieldAddr)
			if !ok {
				return true
			}
			st, _ := derefType(fa.X.Type()).Underlying().(*types.Struct)
			if st == nil {
				return true
			}
			f := st.Field(fa.Field)
			if !isByteSlice(f.Type()) {
				return true
			}
			if _, local := fa.X.(*ssa.Alloc); local {
				return true
			}
			if f.Pkg() == nil || !strings.HasPrefix(f.Pkg().Path(), core.ModPath) {
				return false // a library object's own buffer (ssh.Request.Payload): one per request
			}
			if isMessageType(p, derefType(fa.X.Type())) {
				return false // the payload of a message the function was lent (C14-BORROW-RECV decides those)
			}
			hit = fa
			return false
		})
		return hit, hit != nil
	}
	for _, fn := range p.ModFuncs {
		if strings.Contains(fn.String(), "swarmtest") || strings.Contains(fn.String(), "p2ptest") || strings.Contains(fn.String(), "/swarmutil.") {
			continue
		}
		for _, in := range core.AllInstrs(fn) {
			ci, ok := in.(ssa.CallInstruction)
			if !ok {
				continue
			}
			callee := core.StaticCallee(ci.Common())
			if callee == nil {
				continue
			}
			name, isT := targets[callee.Origin()]
			if !isT {
				name, isT = targets[callee]
			}
			if !isT {
				continue
			}
			var msg ssa.Value
			for _, a := range ci.Common().Args {
				if isMessageType(p, a.Type()) {
					msg = a
				}
			}
			if msg == nil {
				continue
			}
			r.Analysed(fn)
			// the Payload component: stores into the Payload field of the literal's cell, else the whole value
			var srcs []ssa.Value
			if u, isLoad := msg.(*ssa.UnOp); isLoad {
				if a := core.CellOf(u); a != nil {
					for _, ref := range *a.Referrers() {
						if fa, isFA := ref.(*ssa.FieldAddr); isFA {
							st := derefType(fa.X.Type()).Underlying().(*types.Struct)
							if st.Field(fa.Field).Name() == "Payload" {
								srcs = append(srcs, nestedStores(fa)...)
							}
						}
					}
				}
			}
			if len(srcs) == 0 {
				srcs = []ssa.Value{msg}
			}
			c := fmt.Sprintf("%s call %s", core.FnName(fn), name)
			var bad ssa.Value
			for _, sv := range srcs {
				if hv, isBad := sharedIn(sv); isBad {
					bad = hv
				}
			}
			if bad != nil {
				r.Violation(ruleID, c, p.Pos(in.Pos()), fmt.Sprintf("the delivered payload derives from the slice held in %s (%s): the next message handled by another worker overwrites it while the callback still reads this one", bad.String(), p.Pos(bad.Pos())))
			} else {
				r.OK(ruleID, c, p.Pos(in.Pos()), "the payload derives from the incoming message, a call-local buffer or a fresh allocation only")
			}
		}
	}
}

// writesAuditedUnlocked: fields of mutex-bearing structs that are written after construction without the
// mutex, "Type.field" -> reason.
var writesAuditedUnlocked = map[string]string{}

// ruleWritesExclusive: the guarded-field table lists the fields found by reading the code; a field added later
// (a cache, a scratch buffer, a counter) is not in it. Whatever its name, a field of a struct that carries a table
// mutex is shared state: a store to it (also to an element of it, a map update or delete) outside construction
// must hold the mutex in write mode. A store under RLock (or none) races with the other readers.
// only restricts the rule to the named struct types ("rel:Type").
func ruleWritesExclusive(r *core.Report, L *core.Locks, ruleID string, only ...string) {
	p := r.P
	muOf := map[*types.Var]*types.Var{}
	owner := map[*types.Var]string{}
	for _, g := range guardTable {
		if len(only) > 0 && !containsStr(only, g.rel+":"+g.typ) {
			continue
		}
		mu := needField(r, g.rel, g.typ, g.mu)
		n := needNamed(r, g.rel, g.typ)
		if mu == nil || n == nil {
			continue
		}
		st, _ := n.Underlying().(*types.Struct)
		if st == nil {
			continue
		}
		for i := 0; i < st.NumFields(); i++ {
			f := st.Field(i)
			tn := f.Type().String()
			if f == mu || strings.HasPrefix(tn, "sync.") || strings.HasPrefix(tn, "sync/atomic.") || strings.HasPrefix(tn, "atomic.") {
				continue
			}
			muOf[f.Origin()] = mu.Origin()
			owner[f.Origin()] = g.typ
		}
	}
	type wk struct {
		fn *ssa.Function
		f  *types.Var
	}
	bad := map[wk]ssa.Instruction{}
	good := map[wk]int{}
	for _, fn := range p.ModFuncs {
		if strings.Contains(fn.String(), "swarmtest") || strings.Contains(fn.String(), "p2ptest") {
			continue
		}
		for _, in := range core.AllInstrs(fn) {
			fa, ok := in.(*ssa.FieldAddr)
			if !ok {
				continue
			}
			f, base := core.FieldOfAddr(fa)
			if f == nil || muOf[f.Origin()] == nil {
				continue
			}
			write := false
			for _, ref := range *fa.Referrers() {
				switch y := ref.(type) {
				case *ssa.Store:
					write = write || y.Addr == ssa.Value(fa)
				case *ssa.IndexAddr:
					for _, r2 := range *y.Referrers() {
						if st, ok := r2.(*ssa.Store); ok && st.Addr == ssa.Value(y) {
							write = true
						}
					}
				case *ssa.UnOp:
					for _, r2 := range *y.Referrers() {
						switch z := r2.(type) {
						case *ssa.MapUpdate:
							write = write || z.Map == ssa.Value(y)
						case ssa.CallInstruction:
							if core.IsBuiltin(z.Common(), "delete") && z.Common().Args[0] == ssa.Value(y) {
								write = true
							}
						}
					}
				}
			}
			if !write {
				continue
			}
			if core.DerivesFromDirect(base, func(v ssa.Value) bool {
				a, ok := v.(*ssa.Alloc)
				return ok && a.Parent() == fn
			}) {
				continue // under construction
			}
			if optionAppliedAtConstruction(p, fn, base) {
				continue
			}
			k := wk{fn, f.Origin()}
			mode, held := L.At[in][muOf[f.Origin()]]
			if held && mode {
				good[k]++
			} else if _, seen := bad[k]; !seen {
				bad[k] = in
			}
		}
	}
	for k, n := range good {
		if _, isBad := bad[k]; isBad {
			continue
		}
		r.OK(ruleID, fmt.Sprintf("%s write %s.%s", core.FnName(k.fn), owner[k.f], k.f.Name()), p.Pos(k.fn.Pos()), fmt.Sprintf("%d store(s) with %s held exclusively", n, muOf[k.f].Name()))
	}
	for k, in := range bad {
		c := fmt.Sprintf("%s write %s.%s", core.FnName(k.fn), owner[k.f], k.f.Name())
		if why, ok := writesAuditedUnlocked[owner[k.f]+"."+k.f.Name()]; ok {
			r.OK(ruleID, c, p.Pos(in.Pos()), "audited: "+why)
			continue
		}
		r.Analysed(k.fn)
		r.Violation(ruleID, c, p.Pos(in.Pos()), fmt.Sprintf("store to %s.%s without holding %s in write mode (held here: %s): the struct is shared, concurrent callers (readers under RLock included) race on this field", owner[k.f], k.f.Name(), muOf[k.f].Name(), L.At[in]))
	}
}

// optionAppliedAtConstruction: fn is a function literal whose single parameter is the object written (a
// functional option), its signature is that of a named func type of its package, and every dynamic call of a
// value of that type in the module passes an object that is still under construction in the calling function.
func optionAppliedAtConstruction(p *core.Prog, fn *ssa.Function, base ssa.Value) bool {
	if fn.Parent() == nil || len(fn.Params) != 1 || fn.Pkg == nil {
		return false
	}
	if core.Through(base) != ssa.Value(fn.Params[0]) {
		return false
	}
	var optT *types.Named
	sc := fn.Pkg.Pkg.Scope()
	for _, name := range sc.Names() {
		tn, ok := sc.Lookup(name).(*types.TypeName)
		if !ok {
			continue
		}
		n, ok := tn.Type().(*types.Named)
		if !ok {
			continue
		}
		if sig, isSig := n.Underlying().(*types.Signature); isSig && sig.Params().Len() == 1 && sig.Results().Len() == 0 {
			// generic option types: compare the parameter's named origin
			a, b := namedOrigin(derefType(sig.Params().At(0).Type())), namedOrigin(derefType(fn.Params[0].Type()))
			if a != nil && a == b {
				optT = n
			}
		}
	}
	if optT == nil {
		return false
	}
	calls := 0
	for _, g := range p.ModFuncs {
		for _, in := range core.AllInstrs(g) {
			ci, ok := in.(ssa.CallInstruction)
			if !ok || ci.Common().IsInvoke() || core.StaticCallee(ci.Common()) != nil {
				continue
			}
			if namedOrigin(ci.Common().Value.Type()) != optT.Origin() || len(ci.Common().Args) != 1 {
				continue
			}
			calls++
			if !core.DerivesFromDirect(ci.Common().Args[0], func(v ssa.Value) bool {
				a, ok := v.(*ssa.Alloc)
				return ok && a.Parent() == g
			}) {
				return false
			}
		}
	}
	return calls > 0
}
