package rules

import (
	"fmt"
	"go/token"
	"go/types"
	"strings"

	"golang.org/x/tools/go/ssa"

	"p2pverif/core"
)

func init() { All["C10"] = c10 }

func c10(r *core.Report) {
	r.Explanation = "Static necessary conditions of 'reassembly never invents or mixes messages': (KEY) the key under which partial messages are kept has one component originating from the packet's source address and one from the message id parsed from that same packet, and lookup, insertion and removal use that one key value (fragswarm aggKey; mbapp collectorID, traced from recvLoop through handleMessage and handlePart); (COMPLETE) assembling/delivering is reachable only after the completion test succeeded, and the completion tests return true only by falling out of a loop over all parts whose body leaves with false on a missing part; (COPY-THEN-MARK) a part is copied into the buffer before it is marked present; (OWN-COPY) fragments are copied out of the borrowed packet buffer before being kept. Offset arithmetic, id reuse after counter wrap and duplicate delivery of completed messages are not decided; bounds of the reassembly tables are C08."
	r.Assumptions = []string{"keyForAddr/String of an address is injective on the addresses of one swarm (C16)"}
	r.Trusted = []string{"go/types, go/ssa (x/tools v0.29.0)"}
	r.Rule("C10-KEY", "the reassembly key is (packet source, message id of that packet) and is used consistently", 8)
	ruleReassemblyKeyFrag(r, "C10-KEY")
	ruleReassemblyKeyMbapp(r, "C10-KEY")
	r.Rule("C10-COMPLETE", "assembly/delivery only after the completion test; the test covers every part", 5)
	ruleComplete(r, "C10-COMPLETE")
	r.Rule("C10-COPY-THEN-MARK", "a part is copied before it is marked present", 1)
	r.Rule("C10-OWN-COPY", "fragments are copied out of the borrowed packet buffer", 2)
	ruleCopies(r)
	r.Rule("C10-OFFSET-ORDER-FREE", "the position a fragment is copied to depends on that fragment and on fields fixed at construction only", 1)
	ruleOffsetOrderFree(r, "C10-OFFSET-ORDER-FREE")
	r.Rule("C10-PART-FIELDS-FIT", "part counts and indexes are narrowed to the header field width only under a range guard (a wrapped count of 0 or 1 makes the receiver deliver a lone fragment or an all-zero buffer)", 4)
	ruleNarrow(r, "C10-PART-FIELDS-FIT")
	r.Rule("C10-ID-ATOMIC", "a fragmented message's id is read and advanced in one critical section (or by one atomic add)", 2)
	ruleFragIDAtomic(r, "C10-ID-ATOMIC")
}

// ruleFragIDAtomic: the receiver keeps partial messages by (source, message id); two messages of one
// sender to one destination must therefore never carry the same id while both are in flight. fragswarm
// allocates ids from a per-destination counter under a mutex: every path from the read of the counter
// to the release of the mutex must pass the store that advances it (read and advance in ONE critical
// section). mbapp allocates with a single atomic add. Shared by C10, C01 (no mixture of messages) and C14.
func ruleFragIDAtomic(r *core.Report, ruleID string) {
	p := r.P
	tell := needFn(r, "s/fragswarm", "swarm.Tell")
	ids := needField(r, "s/fragswarm", "swarm", "msgIDs")
	if tell == nil || ids == nil {
		return
	}
	isIDs := func(v ssa.Value) bool {
		f, _ := core.FieldRead(v)
		return core.SameField(f, ids)
	}
	isAdvance := func(in ssa.Instruction) bool {
		mu, ok := in.(*ssa.MapUpdate)
		return ok && isIDs(mu.Map)
	}
	isUnlock := func(in ssa.Instruction) bool {
		ci, ok := in.(ssa.CallInstruction)
		if !ok {
			return false
		}
		if _, isDefer := in.(*ssa.Defer); isDefer {
			return false
		}
		switch core.CalleeName(ci.Common()) {
		case "(*sync.Mutex).Unlock", "(*sync.RWMutex).Unlock", "(*sync.RWMutex).RUnlock":
			return true
		}
		return false
	}
	n := 0
	for _, fn := range p.ModFuncs {
		// Tell itself or any helper of the package that it delegates the allocation to
		if fn.Pkg != tell.Pkg || strings.Contains(fn.String(), "_test") {
			continue
		}
		for _, in := range core.AllInstrs(fn) {
			lk, ok := in.(*ssa.Lookup)
			if !ok || !isIDs(lk.X) {
				continue
			}
			// the read that feeds the id (not the read inside `m[k]++` itself, which is followed
			// immediately by its own update)
			n++
			reach := core.Reach(fn, lk, nil, isAdvance)
			released := false
			for i2 := range reach {
				if isUnlock(i2) {
					released = true
				}
			}
			atReturn := false
			for _, ret := range core.Returns(fn) {
				if reach[ret] {
					atReturn = true
				}
			}
			r.Check(!released && !atReturn, ruleID, fmt.Sprintf("%s read of msgIDs #%d", core.FnName(fn), n), p.Pos(lk.Pos()), "every path from this read of the id counter reaches the store that advances it before the mutex is released", "the id counter is read here and the mutex is released (or the function returns) before the counter is advanced: two concurrent Tells to one destination read the same id, their fragments share one reassembly key and the receiver delivers a mixture of both messages")
		}
	}
	if n == 0 {
		r.Fail("%s: no read of fragswarm's msgIDs found in the package (anchor stale)", ruleID)
	}
	// mbapp: ids come from one atomic add
	if gc := needFn(r, "p/mbapp", "Swarm.getCounter"); gc != nil {
		okAtomic := false
		for _, in := range core.AllInstrs(gc) {
			if c, ok := in.(*ssa.Call); ok && strings.HasPrefix(core.CalleeName(c.Common()), "sync/atomic.Add") {
				okAtomic = true
			}
		}
		for _, in := range core.AllInstrs(gc) {
			if st, ok := in.(*ssa.Store); ok {
				if f, _ := core.FieldOfAddr(st.Addr); f != nil && f.Name() == "counter" {
					okAtomic = false
				}
			}
		}
		r.Check(okAtomic, ruleID, core.FnName(gc), p.Pos(gc.Pos()), "the group counter advances by one atomic add", "mbapp's group counter is not advanced by a single atomic add: concurrent sends can share a group id and their fragments are reassembled into one message")
	}
}

// mapOpsOn returns the key operands of lookups, updates and deletes on the map field.
func mapOpsOn(fn *ssa.Function, field *types.Var) (lookups, updates, deletes []ssa.Value) {
	isMap := func(v ssa.Value) bool {
		f, _ := core.FieldRead(v)
		return core.SameField(f, field)
	}
	for _, in := range core.AllInstrs(fn) {
		switch x := in.(type) {
		case *ssa.Lookup:
			if isMap(x.X) {
				lookups = append(lookups, x.Index)
			}
		case *ssa.MapUpdate:
			if isMap(x.Map) {
				updates = append(updates, x.Key)
			}
		case ssa.CallInstruction:
			if core.IsBuiltin(x.Common(), "delete") && isMap(x.Common().Args[0]) {
				deletes = append(deletes, x.Common().Args[1])
			}
		}
	}
	return
}

// structFieldStores: for a struct value built in a local (composite literal)
// return the values stored into the named field.
func litFieldValues(v ssa.Value, field *types.Var) []ssa.Value {
	var out []ssa.Value
	core.BackSlice(v, func(x ssa.Value) bool {
		if a, ok := x.(*ssa.Alloc); ok {
			for _, ref := range *a.Referrers() {
				if fa, ok := ref.(*ssa.FieldAddr); ok {
					if ff, _ := core.FieldOfAddr(fa); core.SameField(ff, field) {
						for _, r2 := range *fa.Referrers() {
							if st, ok := r2.(*ssa.Store); ok && st.Addr == fa {
								out = append(out, st.Val)
							}
						}
					}
				}
			}
		}
		_, isCall := x.(*ssa.Call)
		return !isCall
	})
	return out
}

func ruleReassemblyKeyFrag(r *core.Report, rule string) {
	p := r.P
	ht := needFn(r, "s/fragswarm", "swarm.handleTell")
	aggs := needField(r, "s/fragswarm", "swarm", "aggs")
	kAddr := needField(r, "s/fragswarm", "aggKey", "addr")
	kID := needField(r, "s/fragswarm", "aggKey", "id")
	kfa := needFn(r, "s/fragswarm", "keyForAddr")
	pm := needFn(r, "s/fragswarm", "parseMessage")
	if ht == nil || aggs == nil || kAddr == nil || kID == nil || kfa == nil || pm == nil {
		return
	}
	msg := ht.Params[2] // x p2p.Message[A]
	fromMsgField := func(v ssa.Value, name string) bool {
		return core.DerivesFromDirect(v, func(x ssa.Value) bool {
			f, base := core.FieldRead(x)
			return f != nil && f.Name() == name && core.Through(base) == ssa.Value(msg) || f != nil && f.Name() == name && core.CellOfAddrOrLoad(base, msg)
		})
	}
	lk, up, del := mapOpsOn(ht, aggs)
	all := append(append(append([]ssa.Value{}, lk...), up...), del...)
	r.Check(len(lk) >= 1 && len(up) >= 1 && len(del) >= 1, rule, core.FnName(ht)+" map ops", p.Pos(ht.Pos()), "partial messages are looked up, inserted and removed", "the aggregator table is not looked up, inserted into and cleaned in handleTell")
	for i, k := range all {
		if i > 0 {
			r.Check(core.SameSource(k, all[0]), rule, core.FnName(ht)+" same key", p.Pos(ht.Pos()), "lookup, insertion and removal use the same key value", "lookup/insert/delete of partial messages use different key values: parts land in, or are removed from, another message's aggregator")
		}
	}
	if len(all) == 0 {
		return
	}
	key := all[0]
	addrs := litFieldValues(key, kAddr)
	okA := len(addrs) > 0
	for _, v := range addrs {
		c, _, ok := core.CallResult(v)
		if !ok || !core.IsCallToFn(c.Common(), kfa) || !fromMsgField(c.Call.Args[0], "Src") {
			okA = false
		}
	}
	r.Check(okA, rule, core.FnName(ht)+" key.addr", p.Pos(ht.Pos()), "the key's address component is the packet's source", "the reassembly key does not contain the packet's SOURCE address: parts from different senders with equal ids are combined into one message")
	ids := litFieldValues(key, kID)
	okI := len(ids) > 0
	for _, v := range ids {
		c, idx, ok := core.CallResult(v)
		if !ok || !core.IsCallToFn(c.Common(), pm) || idx != 0 || !fromMsgField(c.Call.Args[0], "Payload") {
			okI = false
		}
	}
	r.Check(okI, rule, core.FnName(ht)+" key.id", p.Pos(ht.Pos()), "the key's id component is the message id parsed from this packet", "the reassembly key does not contain the message id parsed from this packet: parts of different messages are combined")
	// part, total, data passed to addPart come from the same parse
	addPart := needFn(r, "s/fragswarm", "aggregator.addPart")
	for _, ci := range core.CallsToFn(ht, addPart) {
		ok := true
		for i, want := range []int{1, 2, 3} {
			c, idx, isC := core.CallResult(ci.Common().Args[1+i])
			if !isC || !core.IsCallToFn(c.Common(), pm) || idx != want {
				ok = false
			}
		}
		r.Check(ok, rule, core.FnName(ht)+" addPart args", p.Pos(ci.Pos()), "part index, part count and data given to the aggregator are the ones parsed from this packet, in that order", "part index / count / data given to the aggregator are not the parsed fields in order")
	}
}

func ruleReassemblyKeyMbapp(r *core.Report, rule string) {
	p := r.P
	rl := needFn(r, "p/mbapp", "Swarm.recvLoop")
	hm := needFn(r, "p/mbapp", "Swarm.handleMessage")
	hp := needFn(r, "p/mbapp", "fragLayer.handlePart")
	gc := needFn(r, "p/mbapp", "fragLayer.getCollector")
	dc := needFn(r, "p/mbapp", "fragLayer.dropCollector")
	pmsg := needFn(r, "p/mbapp", "ParseMessage")
	cols := needField(r, "p/mbapp", "fragLayer", "collectors")
	cRemote := needField(r, "p/mbapp", "collectorID", "Remote")
	cGroup := needField(r, "p/mbapp", "collectorID", "GroupID")
	if rl == nil || hm == nil || hp == nil || gc == nil || dc == nil || pmsg == nil || cols == nil || cRemote == nil || cGroup == nil {
		return
	}
	// recvLoop: handleMessage(ctx, m.Src, m.Dst, m.Payload) of one received message
	for _, ci := range core.CallsToFn(rl, hm) {
		a := ci.Common().Args
		fieldOf := func(v ssa.Value) (string, ssa.Value) {
			f, base := core.FieldRead(v)
			if f == nil {
				return "", nil
			}
			return f.Name(), base
		}
		n1, b1 := fieldOf(a[2])
		n2, b2 := fieldOf(a[3])
		n3, b3 := fieldOf(a[4])
		ok := n1 == "Src" && n2 == "Dst" && n3 == "Payload" && b1 == b2 && b2 == b3
		r.Check(ok, rule, core.FnName(rl)+" handleMessage args", p.Pos(ci.Pos()), "source, destination and payload handed on are those of one received message, in that order", "recvLoop hands handleMessage the wrong address (source/destination swapped) or fields of different messages")
	}
	// handleMessage: handlePart(src, gid-from-this-header, index, count, size, body-from-this-parse)
	for _, ci := range core.CallsToFn(hm, hp) {
		a := ci.Common().Args
		okSrc := core.Through(core.Peel(a[1])) == ssa.Value(hm.Params[2])
		r.Check(okSrc, rule, core.FnName(hm)+" remote", p.Pos(ci.Pos()), "the fragment layer is keyed by the packet's source", "the fragment layer is given an address other than the packet's SOURCE as the remote: fragments of different senders that share a group id are assembled into one message")
		fromParse := func(v ssa.Value, idx int) bool {
			return core.DerivesFromDirectOrCalls(v, func(x ssa.Value) bool {
				c, i, ok := core.CallResult(x)
				return ok && core.IsCallToFn(c.Common(), pmsg) && i == idx && core.Through(c.Call.Args[0]) == ssa.Value(hm.Params[4])
			})
		}
		r.Check(fromParse(a[2], 0), rule, core.FnName(hm)+" group id", p.Pos(ci.Pos()), "the group id comes from this packet's header", "the group id given to the fragment layer is not read from this packet's header")
		r.Check(fromParse(a[6], 1), rule, core.FnName(hm)+" body", p.Pos(ci.Pos()), "the fragment body is this packet's body", "the fragment body is not this packet's body")
	}
	// handlePart: cid = {remote.String(), gid}; same cid to getCollector and dropCollector
	var cids []ssa.Value
	for _, ci := range core.CallsToFn(hp, gc) {
		cids = append(cids, ci.Common().Args[1])
	}
	for _, in := range core.AllInstrs(hp) {
		if d, ok := in.(*ssa.Defer); ok && core.IsCallToFn(d.Common(), dc) {
			cids = append(cids, d.Common().Args[1])
		}
		if c, ok := in.(*ssa.Call); ok && core.IsCallToFn(c.Common(), dc) {
			cids = append(cids, c.Call.Args[1])
		}
	}
	r.Check(len(cids) >= 2, rule, core.FnName(hp)+" collector ops", p.Pos(hp.Pos()), "a collector is fetched and dropped", "handlePart does not both fetch and drop a collector")
	for i := range cids {
		if i > 0 {
			r.Check(core.SameSource(cids[i], cids[0]), rule, core.FnName(hp)+" same key", p.Pos(hp.Pos()), "fetch and drop use the same collector id", "a collector is dropped under a different id than it was fetched")
		}
	}
	if len(cids) > 0 {
		rem := litFieldValues(cids[0], cRemote)
		okR := len(rem) > 0
		for _, v := range rem {
			c, ok := v.(*ssa.Call)
			if !ok || !c.Call.IsInvoke() || c.Call.Method.Name() != "String" || core.Through(c.Call.Value) != ssa.Value(hp.Params[1]) {
				okR = false
			}
		}
		r.Check(okR, rule, core.FnName(hp)+" id.Remote", p.Pos(hp.Pos()), "the collector id's remote is the text of the remote address", "the collector id does not contain the remote address")
		grp := litFieldValues(cids[0], cGroup)
		okG := len(grp) > 0
		for _, v := range grp {
			if core.Through(v) != ssa.Value(hp.Params[2]) {
				okG = false
			}
		}
		r.Check(okG, rule, core.FnName(hp)+" id.GroupID", p.Pos(hp.Pos()), "the collector id's group is the packet's group id", "the collector id does not contain the packet's group id")
	}
	// getCollector / dropCollector use their cid parameter on the table
	for _, fn := range []*ssa.Function{gc, dc} {
		lk, up, del := mapOpsOn(fn, cols)
		ok := len(lk)+len(up)+len(del) > 0
		for _, k := range append(append(lk, up...), del...) {
			if core.Through(k) != ssa.Value(fn.Params[1]) {
				ok = false
			}
		}
		r.Check(ok, rule, core.FnName(fn)+" table key", p.Pos(fn.Pos()), "the table is accessed with the id passed in", "the collector table is accessed with a key other than the id passed in")
	}
}

func ruleComplete(r *core.Report, ruleID string) {
	p := r.P
	ht := needFn(r, "s/fragswarm", "swarm.handleTell")
	addPart := needFn(r, "s/fragswarm", "aggregator.addPart")
	assemble := needFn(r, "s/fragswarm", "aggregator.assemble")
	hp := needFn(r, "p/mbapp", "fragLayer.handlePart")
	isComplete := needFn(r, "p/mbapp", "collector.isComplete")
	withBuffer := needFn(r, "p/mbapp", "collector.withBuffer")
	allSet := needFn(r, "p/mbapp", "bitMap.allSet")
	if ht == nil || addPart == nil || assemble == nil || hp == nil || isComplete == nil || withBuffer == nil || allSet == nil {
		return
	}
	cutT := core.CutWhere(core.BoolCallGuard(func(c *ssa.CallCommon) bool { return core.IsCallToFn(c, addPart) }, true))
	for _, ci := range core.CallsToFn(ht, assemble) {
		r.Check(core.GuardEdges(ht, cutT) > 0 && core.GuardedFromEntry(ht, ci.(ssa.Instruction), cutT), ruleID, core.FnName(ht)+" assemble", p.Pos(ci.Pos()), "assembly is reachable only when addPart reported completion", "a message is assembled and delivered although addPart did not report it complete: a message with missing fragments is delivered")
		// same aggregator
		var ap ssa.CallInstruction
		for _, a := range core.CallsToFn(ht, addPart) {
			ap = a
		}
		r.Check(ap != nil && core.SameSource(ap.Common().Args[0], ci.Common().Args[0]), ruleID, core.FnName(ht)+" same aggregator", p.Pos(ci.Pos()), "the aggregator assembled is the one the part was added to", "the aggregator that is assembled is not the one the part was added to")
	}
	cutC := core.CutWhere(core.BoolCallGuard(func(c *ssa.CallCommon) bool { return core.IsCallToFn(c, isComplete) }, true))
	for _, ci := range core.CallsToFn(hp, withBuffer) {
		r.Check(core.GuardEdges(hp, cutC) > 0 && core.GuardedFromEntry(hp, ci.(ssa.Instruction), cutC), ruleID, core.FnName(hp)+" withBuffer", p.Pos(ci.Pos()), "the buffer is handed out only when the collector is complete", "the reassembly buffer is handed to the application although the collector is not complete")
	}
	// completion tests: true only by falling out of a loop over all parts
	for _, fn := range []*ssa.Function{addPart, allSet} {
		ok := false
		var why string
		// find the loop-exit edge: an If on `i < n` whose false edge leaves the loop
		for _, b := range fn.Blocks {
			iff, isIf := b.Instrs[len(b.Instrs)-1].(*ssa.If)
			if !isIf {
				continue
			}
			bo, isB := iff.Cond.(*ssa.BinOp)
			if !isB || bo.Op != token.LSS {
				continue
			}
			// loop: the true successor reaches this block again
			if !core.ReachAt(fn, b.Succs[0].Instrs[0], nil, nil)[iff] {
				continue
			}
			// the bound is the number of parts: len(a.parts) / bm.len()
			boundOK := false
			switch y := core.Peel(bo.Y).(type) {
			case *ssa.Call:
				if core.IsBuiltin(y.Common(), "len") {
					if f, _ := core.FieldRead(y.Call.Args[0]); f != nil && f.Name() == "parts" {
						boundOK = true
					}
				}
				if sc := core.StaticCallee(y.Common()); sc != nil && sc.Name() == "len" {
					boundOK = true
				}
			}
			if !boundOK {
				why = "the loop bound is not the number of parts"
				continue
			}
			// starts at 0
			cutExit := core.CutFunc(func(bb *ssa.BasicBlock, i int) bool { return bb == b && i == 1 })
			okRet := true
			reached := core.Reach(fn, nil, cutExit, nil)
			for _, ret := range core.Returns(fn) {
				if !reached[ret] {
					continue
				}
				for _, v := range core.ReturnValues(ret, 0) {
					if bv, isK := core.ConstBool(v); !isK || bv {
						okRet = false
					}
				}
			}
			// and after the exit edge only `true`
			if okRet {
				ok = true
			} else {
				why = "true can be returned before every part was examined"
			}
		}
		r.Check(ok, ruleID, core.FnName(fn)+" covers all parts", p.Pos(fn.Pos()), "true is returned only after the loop over all parts ran to its end; inside the loop only false is returned", "the completion test can report complete without examining every part ("+why+"): a message with missing fragments is delivered")
	}
}

func ruleCopies(r *core.Report) {
	p := r.P
	cap := needFn(r, "p/mbapp", "collector.addPart")
	bmSet := needFn(r, "p/mbapp", "bitMap.set")
	aap := needFn(r, "s/fragswarm", "aggregator.addPart")
	if cap == nil || bmSet == nil || aap == nil {
		return
	}
	isCopy := func(in ssa.Instruction) bool {
		ci, ok := in.(ssa.CallInstruction)
		return ok && core.IsBuiltin(ci.Common(), "copy")
	}
	reached := core.Reach(cap, nil, nil, isCopy)
	okM := true
	n := 0
	for _, ci := range core.CallsToFn(cap, bmSet) {
		n++
		if reached[ci.(ssa.Instruction)] {
			okM = false
		}
	}
	r.Check(okM && n > 0, "C10-COPY-THEN-MARK", core.FnName(cap), p.Pos(cap.Pos()), "the part is marked present only after its bytes were copied", "a part can be marked present before (or without) its bytes being copied: the message completes with a hole")
	// the copy's source is the data parameter and its destination the collector's own buffer
	for _, in := range core.AllInstrs(cap) {
		if !isCopy(in) {
			continue
		}
		ci := in.(ssa.CallInstruction)
		dstOwn := core.DerivesFromDirect(ci.Common().Args[0], func(x ssa.Value) bool { f, _ := core.FieldRead(x); return f != nil && f.Name() == "buf" })
		srcData := core.Through(ci.Common().Args[1]) == ssa.Value(cap.Params[2])
		r.Check(dstOwn && srcData, "C10-OWN-COPY", core.FnName(cap), p.Pos(in.Pos()), "fragment bytes are copied into the collector's own buffer", "the fragment is not copied into the collector's own buffer")
	}
	// fragswarm: the stored part is a fresh copy of data
	okF, nst := true, 0
	for _, in := range core.AllInstrs(aap) {
		st, ok := in.(*ssa.Store)
		if !ok {
			continue
		}
		ia, ok := st.Addr.(*ssa.IndexAddr)
		if !ok {
			continue
		}
		if f, _ := core.FieldRead(ia.X); f == nil || f.Name() != "parts" {
			continue
		}
		nst++
		c, isC := core.Peel(st.Val).(*ssa.Call)
		if !isC || !core.IsBuiltin(c.Common(), "append") {
			okF = false
			continue
		}
		// append(fresh, data...): first argument must not alias the data parameter
		if core.DerivesFromDirect(c.Call.Args[0], func(x ssa.Value) bool { return x == ssa.Value(aap.Params[3]) }) {
			okF = false
		}
		if core.Through(core.Peel(c.Call.Args[1])) != ssa.Value(aap.Params[3]) {
			okF = false
		}
	}
	r.Check(okF && nst > 0, "C10-OWN-COPY", core.FnName(aap), p.Pos(aap.Pos()), "the part kept is a fresh copy of the packet's bytes", "the aggregator keeps a slice of the borrowed packet buffer: the next packet received into that buffer rewrites a part of a message still being assembled")
}

// ruleOffsetOrderFree (shared by C10 and C11): fragments arrive in any order, so where a fragment is
// copied to must be a function of that fragment (its index, its length) and of collector fields that
// are fixed when the collector is created. A field the collector learns from whichever fragment is
// handled first (a remembered part size) makes the layout depend on arrival order: with the short last
// part first, the other parts land at overlapping offsets and a full-length message of wrong bytes is
// delivered.
func ruleOffsetOrderFree(r *core.Report, ruleID string) {
	p := r.P
	ap := needFn(r, "p/mbapp", "collector.addPart")
	nc := needFn(r, "p/mbapp", "newCollector")
	col := needNamed(r, "p/mbapp", "collector")
	if ap == nil || nc == nil || col == nil {
		return
	}
	// fields of collector written outside newCollector
	mutable := map[string]string{}
	st := col.Underlying().(*types.Struct)
	for i := 0; i < st.NumFields(); i++ {
		f := st.Field(i)
		for _, fn := range p.ModFuncs {
			if fn == nc || strings.Contains(fn.String(), "_test") {
				continue
			}
			if len(core.StoresToField(fn, f)) > 0 {
				mutable[f.Name()] = core.FnName(fn)
			}
		}
	}
	n := 0
	for _, in := range core.AllInstrs(ap) {
		c, ok := in.(*ssa.Call)
		if !ok || !core.IsBuiltin(c.Common(), "copy") {
			continue
		}
		sl, ok := core.Through(c.Call.Args[0]).(*ssa.Slice)
		if !ok || sl.Low == nil {
			continue
		}
		n++
		bad := ""
		core.BackSlice(sl.Low, func(x ssa.Value) bool {
			if f, base := core.FieldRead(x); f != nil && base != nil && isNamed(base.Type(), col) {
				if w, isMut := mutable[f.Name()]; isMut {
					bad = f.Name() + " (written by " + w + ")"
				}
			}
			return true
		})
		r.Check(bad == "", ruleID, core.FnName(ap)+" copy offset", p.Pos(c.Pos()), "the offset derives from the fragment's own index and length and from fields set only by newCollector", "the copy offset depends on collector state that is written while fragments arrive: "+bad+": the layout of the reassembled message depends on the order of arrival (short last part first => overlapping parts, wrong bytes delivered as a complete message)")
	}
	if n == 0 {
		r.Fail("%s: no copy into the collector buffer at a computed offset found in addPart", ruleID)
	}
}
