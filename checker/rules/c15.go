package rules

import (
	"fmt"
	"go/token"
	"go/types"
	"sort"
	"strings"

	"golang.org/x/tools/go/ssa"

	"p2pverif/core"
)

func init() { All["C15"] = c15 }

// muxPairs is the confirmed table of (mux, demux) function pairs.
var muxPairs = [][2]string{
	{"stringMuxFunc", "stringDemuxFunc"},
	{"varintMuxFunc", "varintDemuxFunc"},
	{"uint16MuxFunc", "uint16DemuxFunc"},
	{"uint32MuxFunc", "uint32DemuxFunc"},
	{"uint64MuxFunc", "uint64DemuxFunc"},
}

var codecFamily = map[string][2]string{ // callee -> (family, role)
	"encoding/binary.PutUvarint":               {"uvarint", "enc"},
	"encoding/binary.AppendUvarint":            {"uvarint", "enc"},
	"encoding/binary.AppendVarint":             {"varint", "enc"},
	"encoding/binary.Uvarint":                  {"uvarint", "dec"},
	"encoding/binary.PutVarint":                {"varint", "enc"},
	"encoding/binary.Varint":                   {"varint", "dec"},
	"(encoding/binary.bigEndian).PutUint16":    {"be16", "enc"},
	"(encoding/binary.bigEndian).Uint16":       {"be16", "dec"},
	"(encoding/binary.bigEndian).PutUint32":    {"be32", "enc"},
	"(encoding/binary.bigEndian).Uint32":       {"be32", "dec"},
	"(encoding/binary.bigEndian).PutUint64":    {"be64", "enc"},
	"(encoding/binary.bigEndian).Uint64":       {"be64", "dec"},
	"(encoding/binary.littleEndian).PutUint16": {"le16", "enc"},
	"(encoding/binary.littleEndian).Uint16":    {"le16", "dec"},
	"(encoding/binary.littleEndian).PutUint32": {"le32", "enc"},
	"(encoding/binary.littleEndian).Uint32":    {"le32", "dec"},
	"(encoding/binary.littleEndian).PutUint64": {"le64", "enc"},
	"(encoding/binary.littleEndian).Uint64":    {"le64", "dec"},
}

var familyWidth = map[string]int64{"be16": 2, "be32": 4, "be64": 8, "le16": 2, "le32": 4, "le64": 8}

func codecCalls(fn *ssa.Function, role string) (fams []string, calls []*ssa.Call) {
	for _, in := range core.AllInstrs(fn) {
		c, ok := in.(*ssa.Call)
		if !ok {
			continue
		}
		if fr, ok := codecFamily[core.CalleeName(c.Common())]; ok && fr[1] == role {
			fams = append(fams, fr[0])
			calls = append(calls, c)
		}
	}
	return
}

func c15(r *core.Report) {
	p := r.P
	r.Explanation = "Static necessary conditions of 'multiplexed channels are isolated and framing is unambiguous': (DEMUX-ERR) on the error edge of every call of the demultiplexing function no channel lookup or hub delivery is reachable; (DISPATCH) the hub a message is delivered to is a field of the swarm returned by getSwarm for the channel id demultiplexed from that very message, getSwarm succeeds only on a map hit, and a muxed swarm frames with its own immutable channel id; (PAIR) for each of the five (mux, demux) pairs the encoder and decoder belong to the same codec family and width, the header width constants agree, slice offsets derive from the codec's returned length, the payload is appended unchanged after the header and the body is the remaining suffix; (REGISTERED) every newMuxCore call passes a pair from the confirmed table. With the library contracts (Uvarint self-delimiting, fixed-width big-endian) this is the structural content of 'prefix-free injection'; equality of decoded values for all inputs is not decided."
	r.Assumptions = []string{"encoding/binary: Uvarint(PutUvarint(x)) = x and consumes exactly the bytes written; fixed-width Put/Get are inverse", "sync.Map.Load returns ok=true only for a stored key"}
	r.Trusted = []string{"go/types, go/ssa (x/tools v0.29.0)", "encoding/binary"}

	demuxField := needField(r, "p/p2pmux", "muxCore", "demuxFunc")
	muxField := needField(r, "p/p2pmux", "muxCore", "muxFunc")
	getSwarm := needFn(r, "p/p2pmux", "muxCore.getSwarm")
	handleRecv := needFn(r, "p/p2pmux", "muxCore.handleRecv")
	serveLoop := needFn(r, "p/p2pmux", "muxCore.serveLoop")
	newMuxCore := needFn(r, "p/p2pmux", "newMuxCore")
	newMuxed := needFn(r, "p/p2pmux", "newMuxedSwarm")
	tellHubF := needField(r, "p/p2pmux", "muxedSwarm", "tellHub")
	askHubF := needField(r, "p/p2pmux", "muxedSwarm", "askHub")
	cidF := needField(r, "p/p2pmux", "muxedSwarm", "cid")
	h := resolveHubs(r)
	if len(r.Failures) > 0 {
		return
	}
	isDemuxCall := func(c *ssa.CallCommon) bool {
		if c.IsInvoke() {
			return false
		}
		f, _ := core.FieldRead(c.Value)
		return core.SameField(f, demuxField)
	}
	isDeliver := func(c *ssa.CallCommon) bool {
		f := core.StaticCallee(c)
		return f != nil && (f == h.fns["TellHub.Deliver"] || f == h.fns["AskHub.Deliver"])
	}

	// ---- C15-DEMUX-ERR and C15-DISPATCH
	r.Rule("C15-DEMUX-ERR", "on the error edge of the demux call no channel lookup or delivery is reachable", 2)
	r.Rule("C15-DISPATCH", "delivery goes to the hub of the swarm looked up for the channel id demultiplexed from this message", 7)
	// every function of the package that calls the demultiplexing function (handleRecv and serveLoop's
	// callback on the pinned tree; a helper they are split into is found the same way)
	var sites []*ssa.Function
	seenSite := map[*ssa.Function]bool{}
	for _, f := range p.ModFuncs {
		if f.Pkg == nil || f.Pkg.Pkg.Path() != core.ModPath+"/p/p2pmux" {
			continue
		}
		for _, g := range core.WithAnons(f) {
			if !seenSite[g] {
				seenSite[g] = true
				sites = append(sites, g)
			}
		}
	}
	_, _ = handleRecv, serveLoop
	nDemux := 0
	for _, fn := range sites {
		for _, ci := range core.Calls(fn, func(ci ssa.CallInstruction) bool { return isDemuxCall(ci.Common()) }) {
			call, ok := ci.(*ssa.Call)
			if !ok {
				continue
			}
			nDemux++
			r.Analysed(fn)
			c := core.FnName(fn) + " demux"
			cut := cutErrNilOf(call)
			reached := core.Reach(fn, call, cut, nil)
			bad := ""
			for in := range reached {
				if x, ok := in.(ssa.CallInstruction); ok {
					if core.IsCallToFn(x.Common(), getSwarm) {
						bad = "getSwarm at " + p.Pos(in.Pos())
					}
					if isDeliver(x.Common()) {
						bad = "hub Deliver at " + p.Pos(in.Pos())
					}
				}
			}
			if core.GuardEdges(fn, cut) == 0 {
				bad = "the demux error is never tested"
			}
			r.Check(bad == "", "C15-DEMUX-ERR", c, p.Pos(call.Pos()), "the error edge leaves without looking up or delivering",
				"after a demultiplexing error control still reaches "+bad+": a malformed frame is dispatched to the swarm opened for the zero channel id")
			// DISPATCH: getSwarm's argument is this call's channel id; Deliver's hub belongs to getSwarm's result
			for _, gi := range core.CallsToFn(fn, getSwarm) {
				arg := gi.Common().Args[1]
				c2, idx, ok := core.CallResult(arg)
				r.Check(ok && c2 == call && idx == 0, "C15-DISPATCH", core.FnName(fn)+" getSwarm(cid)", p.Pos(gi.Pos()),
					"the lookup key is the channel id demultiplexed from this message", "the swarm is looked up with a channel id that does not come from this message's demultiplexing")
				for _, di := range core.Calls(fn, func(ci ssa.CallInstruction) bool { return isDeliver(ci.Common()) }) {
					recv := di.Common().Args[0]
					f, base := core.FieldOfAddr(recv)
					if f == nil {
						// the hub read into a local first (hub := s.tellHub; hub.Deliver(...)), or a pointer field
						v := recv
						if a, isA := v.(*ssa.Alloc); isA {
							var stored []ssa.Value
							for _, ref := range *a.Referrers() {
								if st, ok := ref.(*ssa.Store); ok && st.Addr == ssa.Value(a) {
									stored = append(stored, st.Val)
								}
							}
							if len(stored) == 1 {
								v = stored[0]
							}
						}
						f, base = core.FieldRead(core.Through(v))
					}
					okHub := (core.SameField(f, tellHubF) || core.SameField(f, askHubF))
					okBase := false
					if base != nil {
						c3, idx3, ok3 := core.CallResult(base)
						okBase = ok3 && c3 == gi.(ssa.Value) && idx3 == 0
					}
					r.Check(okHub && okBase, "C15-DISPATCH", core.FnName(fn)+" deliver hub", p.Pos(di.Pos()),
						"the message is delivered to a hub of the swarm returned by that lookup", "the message is delivered to a hub that is not the looked-up channel's")
					// the body delivered is the demux body
					msg := di.Common().Args[len(di.Common().Args)-1]
					bodyOK := core.DerivesFrom(msg, func(x ssa.Value) bool {
						c4, idx4, ok4 := core.CallResult(x)
						return ok4 && c4 == call && idx4 == 1
					})
					r.Check(bodyOK, "C15-DISPATCH", core.FnName(fn)+" deliver body", p.Pos(di.Pos()), "the delivered payload is the demultiplexed body", "the delivered payload is not the demultiplexed body of this message")
				}
			}
		}
	}
	if nDemux < 2 {
		r.Fail("found %d demux call sites, expected 2", nDemux)
	}
	// getSwarm: nil-error return only on the map-hit edge
	{
		cut := core.CutWhere(func(cond ssa.Value) int {
			e, ok := cond.(*ssa.Extract)
			if !ok || e.Index != 1 {
				return 0
			}
			c, ok := e.Tuple.(*ssa.Call)
			if !ok || core.CalleeName(c.Common()) != "(*sync.Map).Load" {
				return 0
			}
			// the key looked up must be the channel id passed in
			if core.Peel(c.Call.Args[1]) != ssa.Value(getSwarm.Params[1]) {
				return 0
			}
			return 1
		})
		okG := core.GuardEdges(getSwarm, cut) > 0
		reached := core.Reach(getSwarm, nil, cut, nil)
		for _, ret := range core.Returns(getSwarm) {
			for _, v := range core.ReturnValues(ret, 0) {
				if core.IsNilConst(v) {
					continue
				}
				// the swarm returned is the value stored under that key
				if !core.DerivesFrom(v, func(x ssa.Value) bool {
					c2, idx, ok := core.CallResult(x)
					return ok && idx == 0 && core.CalleeName(c2.Common()) == "(*sync.Map).Load" && core.Peel(c2.Call.Args[1]) == ssa.Value(getSwarm.Params[1])
				}) || hasOtherLoad(getSwarm) {
					okG = false
				}
			}
			if !reached[ret] {
				continue
			}
			for _, v := range core.ReturnValues(ret, 1) {
				if !nnShared(p).At(v, ret) {
					okG = false
				}
			}
		}
		r.Check(okG, "C15-DISPATCH", core.FnName(getSwarm)+" hit", p.Pos(getSwarm.Pos()), "a swarm is returned without error only when the channel id is in the table", "getSwarm can succeed for a channel id that is not open (default dispatch)")
	}
	// cid is immutable: stored only by newMuxedSwarm; tell/ask frame with the receiver's cid
	for _, fn := range p.ModFuncs {
		for _, st := range core.StoresToField(fn, cidF) {
			r.Check(fn == newMuxed, "C15-DISPATCH", core.FnName(fn)+" store cid", p.Pos(st.Pos()), "the channel id is set once, at construction", "a muxed swarm's channel id is reassigned after construction")
		}
	}
	for _, nm := range []string{"muxedSwarm.Tell", "muxedSwarm.Ask"} {
		fn := needFn(r, "p/p2pmux", nm)
		if fn == nil {
			continue
		}
		target := needFn(r, "p/p2pmux", "muxCore."+strings.ToLower(nm[len("muxedSwarm."):]))
		ok := false
		for _, ci := range core.CallsToFn(fn, target) {
			arg := ci.Common().Args[2]
			f, base := core.FieldRead(arg)
			ok = core.SameField(f, cidF) && core.SameSource(base, fn.Params[0])
		}
		r.Check(ok, "C15-DISPATCH", core.FnName(fn)+" frames with own cid", p.Pos(fn.Pos()), "the frame carries the receiver swarm's own channel id", "Tell/Ask frames the message with a channel id other than the swarm's own")
	}
	for _, nm := range []string{"muxCore.tell", "muxCore.ask"} {
		fn := needFn(r, "p/p2pmux", nm)
		if fn == nil {
			continue
		}
		ok := false
		for _, ci := range core.Calls(fn, func(ci ssa.CallInstruction) bool {
			f, _ := core.FieldRead(ci.Common().Value)
			return !ci.Common().IsInvoke() && core.SameField(f, muxField)
		}) {
			args := ci.Common().Args
			ok = len(args) == 2 && args[0] == ssa.Value(fn.Params[2]) || len(args) == 2 && args[0] == ssa.Value(fn.Params[1]) && false
			if len(args) == 2 {
				// tell(ctx, cid, dst, x): Params = recv, ctx, cid, ...
				ok = args[0] == ssa.Value(fn.Params[2])
			}
		}
		r.Check(ok, "C15-DISPATCH", core.FnName(fn)+" mux(cid, x)", p.Pos(fn.Pos()), "the mux function is applied to the caller's channel id", "the mux function is not applied to the channel id passed in")
	}

	// ---- C15-PAIR
	r.Rule("C15-PAIR", "each (mux, demux) pair agrees on codec family, width, offsets and payload placement", 20)
	for _, pair := range muxPairs {
		mf := needFn(r, "p/p2pmux", pair[0])
		df := needFn(r, "p/p2pmux", pair[1])
		if mf == nil || df == nil {
			continue
		}
		c := pair[0] + "/" + pair[1]
		// The header may be built by a helper of the package that the mux function hands its channel id to
		// (stringHeader(c)), and the vector may be assembled by a helper it hands the header and the payload to
		// (prependHeader(header, x)). entry is the registered mux function; from here on mf is the function that
		// holds the codec call and cidParam its parameter that carries the channel id.
		entry := mf
		cidParam := ssa.Value(mf.Params[0])
		if fams0, _ := codecCalls(mf, "enc"); len(fams0) == 0 {
			for _, in := range core.AllInstrs(entry) {
				hc, ok := in.(*ssa.Call)
				if !ok {
					continue
				}
				g := core.StaticCallee(hc.Common())
				if g == nil || g.Pkg != entry.Pkg || g.Blocks == nil {
					continue
				}
				if fg, _ := codecCalls(g, "enc"); len(fg) == 0 {
					continue
				}
				for ai, a := range hc.Call.Args {
					if core.Through(a) == ssa.Value(entry.Params[0]) && ai < len(g.Params) {
						mf, cidParam = g, ssa.Value(g.Params[ai])
					}
				}
			}
		}
		ef, ecalls := codecCalls(mf, "enc")
		dfm, dcalls := codecCalls(df, "dec")
		sort.Strings(ef)
		sort.Strings(dfm)
		famOK := len(ef) == 1 && len(dfm) == 1 && ef[0] == dfm[0]
		r.Check(famOK, "C15-PAIR", c+" family", p.Pos(mf.Pos()), fmt.Sprintf("encoder %v and decoder %v are the same codec", ef, dfm), fmt.Sprintf("encoder uses %v but decoder uses %v: framing then unframing does not return the channel id", ef, dfm))
		if !famOK {
			continue
		}
		fam := ef[0]
		enc, dec := ecalls[0], dcalls[0]
		// the header buffer belongs to this one message: allocated by this call and handed to nothing
		// but the encoder (a pooled or shared buffer can be overwritten by the next framing call while
		// the first message is still waiting to be serialised: it is then delivered to the other channel)
		{
			root := headerRoot(enc)
			owned := false
			why := "the header buffer is not allocated by this call"
			switch root.(type) {
			case *ssa.Alloc, *ssa.MakeSlice:
				owned = true
				seen := map[ssa.Value]bool{}
				var walk func(v ssa.Value)
				walk = func(v ssa.Value) {
					if seen[v] || v.Referrers() == nil {
						return
					}
					seen[v] = true
					for _, ref := range *v.Referrers() {
						switch x := ref.(type) {
						case *ssa.Slice:
							walk(x)
						case *ssa.Phi:
							walk(x)
						case ssa.CallInstruction:
							cc := x.Common()
							if _, isB := cc.Value.(*ssa.Builtin); isB {
								if v2, ok := x.(ssa.Value); ok && isByteSliceT(v2.Type()) {
									walk(v2) // append(header, ...) keeps being the header
								}
								continue
							}
							if _, ok := codecFamily[core.CalleeName(cc)]; ok {
								continue
							}
							if g := core.StaticCallee(cc); g != nil && g.Pkg == entry.Pkg && g.Blocks != nil && onlyPlacedInFreshVector(g, cc.Args, v) {
								continue
							}
							owned = false
							why = "the header buffer is handed to " + core.CalleeName(cc) + " (deferred or direct): it can be reused for another message"
						case *ssa.Store:
							if x.Val == v {
								if _, local := x.Addr.(*ssa.Alloc); !local {
									if ia, isIA := x.Addr.(*ssa.IndexAddr); !isIA || core.CellOfAddr(ia.X) == nil {
										owned = false
										why = "the header buffer is stored outside this call"
									}
								}
							}
						}
					}
				}
				walk(root)
			}
			r.Check(owned, "C15-PAIR", c+" header owned", p.Pos(mf.Pos()), "the header buffer is allocated per call and handed only to the encoder", why+": the channel id of a framed but not yet serialised message can change, so it is delivered to a swarm opened for a different channel")
		}
		if w, fixed := familyWidth[fam]; fixed {
			// header array length
			// the buffer the encoder writes into is a slice of a [w]byte array (wherever it comes from)
			arrOK := false
			if root := headerRoot(enc); root != nil {
				if pt, ok := root.Type().Underlying().(*types.Pointer); ok {
					if at, ok := pt.Elem().Underlying().(*types.Array); ok {
						arrOK = at.Len() == w
					}
				}
			}
			r.Check(arrOK, "C15-PAIR", c+" header width", p.Pos(mf.Pos()), fmt.Sprintf("the header array has the codec's width (%d)", w), "the header array length differs from the codec's width")
			// demux: every constant slice bound and every constant compared with len(data) equals w
			consts := map[int64]bool{}
			for _, in := range core.AllInstrs(df) {
				switch x := in.(type) {
				case *ssa.Slice:
					for _, b := range []ssa.Value{x.Low, x.High} {
						if b != nil {
							if k, ok := core.ConstInt(b); ok {
								consts[k] = true
							}
						}
					}
				case *ssa.BinOp:
					if isLenCall(x.X) {
						if k, ok := core.ConstInt(x.Y); ok {
							consts[k] = true
						}
					}
				}
			}
			okC := len(consts) > 0
			for k := range consts {
				if k != w {
					okC = false
				}
			}
			r.Check(okC, "C15-PAIR", c+" consumed width", p.Pos(df.Pos()), fmt.Sprintf("the decoder checks for, reads and skips exactly %d bytes", w), fmt.Sprintf("the decoder's length check / slice bounds %v differ from the %d bytes the encoder writes", keys(consts), w))
			// a frame that holds exactly the header (an empty payload) is a valid frame: the decoder may
			// refuse only frames SHORTER than the header: on every error return len(data) <= w-1 is provable
			{
				bd := core.NewBounds(p)
				okEmpty, nErr := true, 0
				for _, ret := range core.Returns(df) {
					ei := len(ret.Results) - 1
					isErr := false
					for _, v := range core.ReturnValues(ret, ei) {
						if !core.IsNilConst(v) {
							isErr = true
						}
					}
					if !isErr {
						continue
					}
					nErr++
					proved := false
					for _, in2 := range core.AllInstrs(df) {
						lc, ok := in2.(*ssa.Call)
						if ok && core.IsBuiltin(lc.Common(), "len") && core.Through(lc.Call.Args[0]) == ssa.Value(df.Params[0]) {
							if bd.ProveAtMost(ret, lc, w-1) {
								proved = true
							}
						}
					}
					if !proved {
						okEmpty = false
					}
				}
				r.Check(nErr > 0 && okEmpty, "C15-PAIR", c+" empty payload", p.Pos(df.Pos()), fmt.Sprintf("the decoder rejects a frame only when it is shorter than the %d-byte header", w), fmt.Sprintf("the decoder rejects frames that are not shorter than the %d-byte header (a frame carrying an empty payload is refused): framing then unframing does not return every payload", w))
			}
			_ = enc
			_ = dec
		} else {
			// varint families: header is cut at the encoder's returned length; body starts at the decoder's returned length
			hdrOK := false
			for _, in := range core.AllInstrs(mf) {
				if s, ok := in.(*ssa.Slice); ok && s.High != nil && s.High == ssa.Value(enc) {
					hdrOK = true
				}
			}
			// the Append* encoders return the header already cut to length
			if strings.Contains(core.CalleeName(enc.Common()), ".Append") && isByteSliceT(enc.Type()) {
				hdrOK = true
			}
			r.Check(hdrOK, "C15-PAIR", c+" header length", p.Pos(mf.Pos()), "the header is cut at the length the encoder reports", "the header is not cut at the encoder's reported length")
			bodyOK := false
			for _, in := range core.AllInstrs(df) {
				if s, ok := in.(*ssa.Slice); ok && s.Low != nil && s.High == nil {
					c2, idx, ok := core.CallResult(s.Low)
					if ok && c2 == dec && idx == 1 {
						bodyOK = true
					}
				}
			}
			r.Check(bodyOK, "C15-PAIR", c+" consumed length", p.Pos(df.Pos()), "the decoder skips exactly the bytes the codec consumed", "the decoder does not skip the number of bytes the codec consumed")
			// the encoded value
			if pair[0] == "stringMuxFunc" {
				// length prefix = len(c) and the channel bytes follow; decoder reads chanLength bytes
				lenOK := false
				if cc, ok := core.Peel(enc.Call.Args[1]).(*ssa.Call); ok && core.IsBuiltin(cc.Common(), "len") && core.Through(cc.Call.Args[0]) == cidParam {
					lenOK = true
				}
				r.Check(lenOK, "C15-PAIR", c+" length prefix", p.Pos(enc.Pos()), "the length prefix is len(channel)", "the length prefix is not the channel name's length")
				readOK := 0
				for _, in := range core.AllInstrs(df) {
					if s, ok := in.(*ssa.Slice); ok {
						for _, b := range []ssa.Value{s.Low, s.High} {
							if b == nil {
								continue
							}
							if core.DerivesFrom(b, func(x ssa.Value) bool {
								c2, idx, ok := core.CallResult(x)
								return ok && c2 == dec && idx == 0
							}) {
								readOK++
							}
						}
					}
				}
				r.Check(readOK >= 2, "C15-PAIR", c+" name bytes", p.Pos(df.Pos()), "the decoder reads exactly the announced number of name bytes and the body starts after them", "the decoder does not split name and body at the announced length")
			} else {
				r.Check(core.Through(enc.Call.Args[1]) == cidParam, "C15-PAIR", c+" encoded value", p.Pos(enc.Pos()), "the encoded value is the channel id", "the encoded value is not the channel id")
			}
		}
		// the codec is on every path: a return that bypasses the encoder (hand-rolled fast
		// path) is accepted only in the one form that is provably the codec's own output:
		// a single byte byte(c) under the guard c <= 127 (uvarint of a 7-bit value).
		{
			isEnc := func(in ssa.Instruction) bool { return in == ssa.Instruction(enc) }
			reached := core.Reach(mf, nil, nil, isEnc)
			okPath := true
			why := ""
			for _, ret := range core.Returns(mf) {
				if !reached[ret] {
					continue
				}
				if fam != "uvarint" || pair[0] != "varintMuxFunc" || !singleByteFastPath(mf, ret) {
					okPath = false
					why = "return at " + p.Pos(ret.Pos()) + " frames the message without going through the codec"
				}
			}
			if entry != mf {
				isHelperCall := func(in ssa.Instruction) bool {
					ci, ok := in.(ssa.CallInstruction)
					return ok && core.StaticCallee(ci.Common()) == mf
				}
				re := core.Reach(entry, nil, nil, isHelperCall)
				for _, ret := range core.Returns(entry) {
					if re[ret] {
						okPath = false
						why = "return at " + p.Pos(ret.Pos()) + " frames the message without going through the header helper"
					}
				}
			}
			r.Check(okPath, "C15-PAIR", c+" encoder on every path", p.Pos(mf.Pos()), "every framed message is produced by the codec (or by its provably equal one-byte form)", why+": that path's framing is not what the decoder parses, so some channel ids are delivered to another channel or with a damaged payload")
			isDec := func(in ssa.Instruction) bool { return in == ssa.Instruction(dec) }
			reachedD := core.Reach(df, nil, nil, isDec)
			okD := true
			for _, ret := range core.Returns(df) {
				if !reachedD[ret] {
					continue
				}
				ei := len(ret.Results) - 1
				for _, v := range core.ReturnValues(ret, ei) {
					if core.IsNilConst(v) {
						// fixed-width decoders check the length before decoding: an early error return is fine, an early success is not
						okD = false
					}
				}
			}
			r.Check(okD, "C15-PAIR", c+" decoder on every path", p.Pos(df.Pos()), "every successful unframing goes through the codec", "the decoder can succeed on a path that bypasses the codec")
		}
		// payload appended unchanged after the header; decoder returns a suffix of its input
		payOK := false
		appendsPayload := func(fn *ssa.Function, pay ssa.Value) bool {
			okAll, some := true, false
			for _, ret := range core.Returns(fn) {
				for _, v := range core.ReturnValues(ret, 0) {
					c3, ok := v.(*ssa.Call)
					if ok && core.IsBuiltin(c3.Common(), "append") && core.Peel(c3.Call.Args[1]) == pay {
						some = true
					} else {
						okAll = false
					}
				}
			}
			return okAll && some
		}
		if appendsPayload(entry, ssa.Value(entry.Params[1])) {
			payOK = true
		} else {
			// every return of the entry is the result of one same-package helper that receives the payload
			// parameter unchanged and appends it after what it was given
			okAll, some := true, false
			for _, ret := range core.Returns(entry) {
				for _, v := range core.ReturnValues(ret, 0) {
					hc, ok := v.(*ssa.Call)
					g := (*ssa.Function)(nil)
					if ok {
						g = core.StaticCallee(hc.Common())
					}
					if g == nil || g.Pkg != entry.Pkg || g.Blocks == nil {
						okAll = false
						continue
					}
					found := false
					for ai, a := range hc.Call.Args {
						if core.Through(a) == ssa.Value(entry.Params[1]) && ai < len(g.Params) && appendsPayload(g, ssa.Value(g.Params[ai])) {
							found = true
						}
					}
					if found {
						some = true
					} else {
						okAll = false
					}
				}
			}
			payOK = okAll && some
		}
		r.Check(payOK, "C15-PAIR", c+" payload", p.Pos(mf.Pos()), "the payload vector is appended unchanged after the header", "the payload is not appended unchanged after the header")
		sufOK := true
		for _, ret := range core.Returns(df) {
			for _, v := range core.ReturnValues(ret, 1) {
				if core.IsNilConst(v) {
					continue
				}
				if !core.DerivesFrom(v, func(x ssa.Value) bool {
					s, ok := x.(*ssa.Slice)
					return ok && s.High == nil && core.DerivesFrom(s.X, func(y ssa.Value) bool { return y == ssa.Value(df.Params[0]) })
				}) {
					sufOK = false
				}
			}
		}
		r.Check(sufOK, "C15-PAIR", c+" body", p.Pos(df.Pos()), "the body is the remaining suffix of the input", "the body returned is not the remaining suffix of the input")
	}

	// ---- C15-REGISTERED
	r.Rule("C15-REGISTERED", "every newMuxCore call passes a (mux, demux) pair from the confirmed table", 20)
	valid := map[[2]string]bool{}
	for _, pr := range muxPairs {
		valid[pr] = true
	}
	for _, fn := range p.ModFuncs {
		for _, ci := range core.CallsToFn(fn, newMuxCore) {
			args := ci.Common().Args
			fname := func(v ssa.Value) string {
				if f := core.ClosureFn(v); f != nil {
					return f.Name()
				}
				return "?"
			}
			pr := [2]string{fname(args[2]), fname(args[3])}
			r.Check(valid[pr], "C15-REGISTERED", core.FnName(fn), p.Pos(ci.Pos()), fmt.Sprintf("registered pair %v", pr), fmt.Sprintf("mux constructed with the unregistered pair %v: frames written by one side are not what the other side parses", pr))
		}
	}

	// ---- C15-LOAN-COMMIT / C15-LOAN-DONE (C13's commit-shape and done-after-callback rules, shared after
	// seed C15-s7): the mux delivers out of the transport's receive buffer, inside the transport's callback,
	// through the channel's hub. If the hub's Deliver can return before the channel's callback has finished
	// (e.g. on the hub's closed signal) the transport recycles the buffer and the next frame — for any other
	// channel — is written under the first channel's callback: one channel sees another channel's bytes.
	r.Rule("C15-LOAN-COMMIT", "hub Deliver returns only after the completion wait that follows the rendezvous send (the mux lends the transport's buffer across channels)", 8)
	ruleCommit(r, h, "C15-LOAN-COMMIT")
	r.Rule("C15-LOAN-DONE", "hub Receive/ServeAsk signal completion only after the callback returned", 9)
	ruleDoneAfterCallback(r, h, "C15-LOAN-DONE")
}

func isLenCall(v ssa.Value) bool {
	c, ok := core.Peel(v).(*ssa.Call)
	return ok && core.IsBuiltin(c.Common(), "len")
}

func keys(m map[int64]bool) []int64 {
	var out []int64
	for k := range m {
		out = append(out, k)
	}
	sort.Slice(out, func(i, j int) bool { return out[i] < out[j] })
	return out
}

// hasOtherLoad: getSwarm consults the table with a key other than its parameter.
func hasOtherLoad(fn *ssa.Function) bool {
	for _, in := range core.AllInstrs(fn) {
		if c, ok := in.(*ssa.Call); ok && strings.HasPrefix(core.CalleeName(c.Common()), "(*sync.Map).Load") {
			if core.Peel(c.Call.Args[1]) != ssa.Value(fn.Params[1]) {
				return true
			}
		}
	}
	return false
}

// singleByteFastPath: the returned vector's header is the one-byte slice
// {byte(c)} and the return is reachable only under c <= 127.
func singleByteFastPath(mf *ssa.Function, ret *ssa.Return) bool {
	c := ssa.Value(mf.Params[0])
	cut := core.CutWhere(func(cond ssa.Value) int {
		b, ok := cond.(*ssa.BinOp)
		if !ok || b.X != c {
			return 0
		}
		k, isK := core.ConstInt(b.Y)
		if !isK {
			return 0
		}
		switch b.Op {
		case token.LSS:
			if k <= 128 {
				return 1
			}
		case token.LEQ:
			if k <= 127 {
				return 1
			}
		case token.GEQ:
			if k <= 128 {
				return -1
			}
		case token.GTR:
			if k <= 127 {
				return -1
			}
		}
		return 0
	})
	if core.GuardEdges(mf, cut) == 0 || !core.GuardedFromEntry(mf, ret, cut) {
		return false
	}
	// header: a [1]byte whose only element is convert(c)
	ok := false
	core.BackSlice(ret.Results[0], func(x ssa.Value) bool {
		if a, isA := x.(*ssa.Alloc); isA {
			if at, isArr := a.Type().(*types.Pointer).Elem().Underlying().(*types.Array); isArr && at.Len() == 1 {
				if bt, isB := at.Elem().Underlying().(*types.Basic); isB && bt.Kind() == types.Byte {
					for _, ref := range *a.Referrers() {
						if ia, isIA := ref.(*ssa.IndexAddr); isIA {
							for _, r2 := range *ia.Referrers() {
								if st, isSt := r2.(*ssa.Store); isSt && core.Peel(st.Val) == c {
									ok = true
								}
							}
						}
					}
				}
			}
		}
		return true
	})
	return ok
}

// headerRoot: the array/slice allocation behind the []byte argument of an encoder call.
func headerRoot(enc *ssa.Call) ssa.Value {
	for _, a := range enc.Call.Args {
		if !isByteSliceT(a.Type()) {
			continue
		}
		v := a
		for i := 0; i < 8; i++ {
			switch x := v.(type) {
			case *ssa.Slice:
				v = x.X
				continue
			case *ssa.UnOp:
				if t := core.Through(x); t != v {
					v = t
					continue
				}
			}
			break
		}
		return v
	}
	return nil
}

func isByteSliceT(t types.Type) bool {
	s, ok := t.Underlying().(*types.Slice)
	if !ok {
		return false
	}
	b, ok := s.Elem().Underlying().(*types.Basic)
	return ok && b.Kind() == types.Byte
}

// onlyPlacedInFreshVector: helper g receives the header (the argument equal to v) and does nothing with that
// parameter but append it, as one element, to a vector it builds itself (no store into a field or global, no defer,
// no further call that receives it).
func onlyPlacedInFreshVector(g *ssa.Function, args []ssa.Value, v ssa.Value) bool {
	idx := -1
	for i, a := range args {
		if a == v {
			idx = i
		}
	}
	if idx < 0 || idx >= len(g.Params) {
		return false
	}
	prm := g.Params[idx]
	var refs []ssa.Instruction
	collect := func(x ssa.Value) {
		if x.Referrers() != nil {
			refs = append(refs, *x.Referrers()...)
		}
	}
	collect(prm)
	for i := 0; i < len(refs); i++ {
		switch x := refs[i].(type) {
		case *ssa.Store:
			// the varargs array of append(ret, header), or the spill of the parameter
			if x.Val != ssa.Value(prm) {
				if u, isU := x.Val.(*ssa.UnOp); !isU || core.Through(u) != ssa.Value(prm) {
					continue
				}
			}
			switch a := x.Addr.(type) {
			case *ssa.IndexAddr:
				if _, local := a.X.(*ssa.Alloc); !local {
					return false
				}
			case *ssa.Alloc:
				collect(a)
			default:
				return false
			}
		case *ssa.UnOp:
			collect(x)
		case *ssa.DebugRef:
		case ssa.CallInstruction:
			return false
		case *ssa.Return:
			return false
		default:
			if _, isVal := x.(ssa.Value); isVal {
				return false
			}
		}
	}
	return true
}
