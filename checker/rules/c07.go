package rules

import (
	"go/token"
	"strings"

	"golang.org/x/tools/go/ssa"

	"p2pverif/core"
)

func init() { All["C07"] = c07 }

func c07(r *core.Report) {
	p := r.P
	r.Explanation = "Static necessary conditions of 'channels establish, converge and keep working': (PROMOTE) in Channel.Deliver every path from a successful session delivery passes the readiness re-check and, when the session became ready, promotes it before data is handed out; (KEEPALIVE) data from the current session refreshes the keep-alive clock before it is handed out; (ARM) every new initiator session arms the handshake timer, the handshake timer re-arms itself while there is something to send, getOrInit triggers a rekey when there is neither a current nor a prospective session, proposeNewSession installs every session it returns, and an unknown InitHello reaches newResp and then proposeNewSession. Time bounds, tie-break convergence and restart histories are not decided."
	r.Assumptions = []string{"Timer.Reset eventually runs the timer's function (timer.go, time.AfterFunc)"}
	r.Trusted = []string{"go/types, go/ssa (x/tools v0.29.0)"}
	c := resolveChan(r)
	if len(r.Failures) > 0 {
		return
	}
	lit := c.deliverLit

	r.Rule("C07-PROMOTE", "Channel.Deliver re-checks readiness after every successful session delivery and promotes before handing out data", 2)
	ruleAppAfterRecheck(r, c, "C07-PROMOTE")
	r.Rule("C07-NEW-HANDSHAKE", "an established session lets a fresh InitHello fall through to the channel (error or empty reply)", 2)
	r.Rule("C07-APP-READY", "every session transition that returns application data ends in a ready state (so the session is promoted)", 2)
	if ts := buildTypestate(r); ts != nil {
		if ts.err != nil {
			r.Fail("typestate extraction failed: %v", ts.err)
		} else {
			ts.checkAppImpliesReady("C07-APP-READY")
			ts.checkEstablishedIgnoresHello("C07-NEW-HANDSHAKE")
		}
	}

	// ---- C07-EXPIRE-ON-SEND: a sender notices a dead peer (restart, silence) only because getOrInit
	// retires the current session through expireSessions before it hands one out; expireSessions must
	// keep its keep-alive clause (lastReceived against KeepAliveTimeout), not just the hard expiry
	r.Rule("C07-EXPIRE-ON-SEND", "getOrInit runs expireSessions before it returns a session; expireSessions retires the current session on keep-alive silence", 2)
	if exp := needFn(r, "p/p2pke", "Channel.expireSessions"); exp != nil {
		isExp := func(in ssa.Instruction) bool {
			ci, ok := in.(ssa.CallInstruction)
			return ok && core.IsCallToFn(ci.Common(), exp)
		}
		r.Check(mustPass(c.getOrInit, isExp), "C07-EXPIRE-ON-SEND", core.FnName(c.getOrInit)+" expires first", p.Pos(c.getOrInit.Pos()), "every path through getOrInit calls expireSessions before returning", "getOrInit can return a session without having called expireSessions: a current session whose peer restarted or went silent is used for every Send until its hard expiry, and nothing reaches the new peer")
		// the keep-alive clause: a condition in expireSessions reads lastReceived and KeepAliveTimeout and
		// guards the store that clears the current slot
		kaF := p.Field("p/p2pke", "ChannelConfig", "KeepAliveTimeout")
		if kaF == nil {
			kaF = p.Field("p/p2pke", "ChannelParams", "KeepAliveTimeout")
		}
		readsLR, readsKA := false, false
		for _, in := range core.AllInstrs(exp) {
			iff, ok := in.(*ssa.If)
			if !ok {
				continue
			}
			core.BackSlice(iff.Cond, func(x ssa.Value) bool {
				if f, _ := core.FieldRead(x); f != nil {
					if core.SameField(f, c.lastReceived) {
						readsLR = true
					}
					if f.Name() == "KeepAliveTimeout" {
						readsKA = true
					}
				}
				return true
			})
		}
		_ = kaF
		r.Check(readsLR && readsKA, "C07-EXPIRE-ON-SEND", core.FnName(exp)+" keep-alive clause", p.Pos(exp.Pos()), "a condition in expireSessions compares the time since lastReceived with KeepAliveTimeout", "expireSessions no longer looks at lastReceived / KeepAliveTimeout: a silent peer is noticed only at the hard expiry")
	}

	// ---- C07-TIMER: retransmission works by the handshake callback re-arming its own timer from
	// inside the callback (onHandshake -> handshakeTimer.Reset). That only sticks if the timer's fire
	// routine marks itself not-pending BEFORE it runs the callback and never clears the flag afterwards.
	r.Rule("C07-TIMER", "the timer's fire routine clears its pending flag before the callback and never after it; Reset sets it", 3)
	ruleTimer(r, "C07-TIMER")

	// ---- C07-SINGLE-CHANNEL: two nodes converge on a pair of channels only if each node has ONE channel
	// per remote address: the table's get-or-create looks the key up and inserts under one and the same
	// write lock (a lookup under the read lock followed by an unconditional insert under the write lock
	// creates two channels when first contact happens in both directions at once; replies then go to
	// whichever channel was stored last and the other never completes)
	r.Rule("C07-SINGLE-CHANNEL", "p2pkeswarm's channel table inserts only on the miss edge of a lookup made under the same write lock", 1)
	ruleCheckThenInsert(r, "C07-SINGLE-CHANNEL")

	// ---- C07-HELLO-FLOOR (after seed C07-s7): Channel.remoteTimestamp is the floor below which a peer's InitHello is
	// refused as a replay. It may only ever be raised to the hello time of a session that was established — a value
	// the peer's next genuine hello is guaranteed to exceed — never to a reading of the local clock: a restarted
	// peer whose hello was created before the old handshake's last message landed would be refused for ever.
	r.Rule("C07-HELLO-FLOOR", "Channel.remoteTimestamp is only ever set to the InitHello time of the established session, never from the local clock", 1)
	{
		rtF := needField(r, "p/p2pke", "Channel", "remoteTimestamp")
		iht := needFn(r, "p/p2pke", "Session.InitHelloTime")
		if rtF != nil && iht != nil {
			for _, fn := range p.ModFuncs {
				for _, st := range core.StoresToField(fn, rtF) {
					r.Analysed(fn)
					ok := false
					for _, rv := range core.ReachingValues(core.Through(st.Val)) {
						if c, isC := core.Through(rv).(*ssa.Call); isC && core.StaticCallee(c.Common()) == iht {
							ok = true
						} else {
							ok = false
							break
						}
					}
					r.Check(ok, "C07-HELLO-FLOOR", core.FnName(fn)+" store remoteTimestamp", p.Pos(st.Pos()), "the stored floor is Session.InitHelloTime() of the session being promoted",
						"the InitHello floor is set from something other than the established session's hello time (e.g. the local clock): a genuine InitHello created before that instant — a peer that restarted while the old handshake's last message was in flight — is refused as 'too early' on every retransmission, and its Send never completes")
				}
			}
		}
	}

	// ---- C07-KEEPALIVE
	// ---- C07-GIVE-UP-IS-LOCAL: the channel for a remote address is shared by every caller waiting on that
	// address. A caller whose own context ended may only return: removing the channel from the table or closing
	// it (its handshake and rekey timers) strands the callers still waiting on it.
	r.Rule("C07-GIVE-UP-IS-LOCAL", "on the error edge of Channel.WaitReady no removal from the channel table and no Channel.Close is reachable", 1)
	{
		waitReady := needFn(r, "p/p2pke", "Channel.WaitReady")
		chClose := needFn(r, "p/p2pke", "Channel.Close")
		n := 0
		for _, fn := range p.ModFuncs {
			if fn.Pkg == nil || fn.Pkg.Pkg.Path() != core.ModPath+"/s/p2pkeswarm" {
				continue
			}
			for _, ci := range core.CallsToFn(fn, waitReady) {
				call, ok := ci.(*ssa.Call)
				if !ok {
					continue
				}
				n++
				r.Analysed(fn)
				reached := core.Reach(fn, call, cutErrNilOf(call), nil)
				bad := ""
				for in := range reached {
					c2, isCall := in.(ssa.CallInstruction)
					if !isCall {
						continue
					}
					g := core.StaticCallee(c2.Common())
					if g == nil {
						continue
					}
					if g == chClose || (g.Pkg != nil && g.Pkg.Pkg.Path() == core.ModPath+"/s/p2pkeswarm" && (strings.HasPrefix(g.Name(), "delete") || g.Name() == "purge")) {
						bad = core.FnName(g) + " at " + p.Pos(in.Pos())
					}
				}
				r.Check(bad == "", "C07-GIVE-UP-IS-LOCAL", core.FnName(fn)+" WaitReady error edge", p.Pos(call.Pos()),
					"a caller that gives up only returns", "after WaitReady failed for this caller (its context ended) control reaches "+bad+": the channel other callers are still waiting on is taken out of the table or stopped, their handshake is never retransmitted and their Tell never completes")
			}
		}
		if n == 0 {
			r.Fail("C07-GIVE-UP-IS-LOCAL: no WaitReady call found in p2pkeswarm")
		}
	}

	r.Rule("C07-KEEPALIVE", "data from the current session refreshes lastReceived before it is handed out", 2)
	{
		calls := core.CallsToFn(lit, c.sessDeliver)
		stores := appDataStores(c)
		if len(calls) == 1 && len(stores) > 0 {
			sd := calls[0].(*ssa.Call)
			// consider the current slot: remove edges on which the slot index is known != 1
			cutNotCurrent := core.CutWhere(func(cond ssa.Value) int {
				b, ok := cond.(*ssa.BinOp)
				if !ok {
					return 0
				}
				k, isK := core.ConstInt(b.Y)
				if !isK || k != 1 || !isRangeIndex(b.X) {
					return 0
				}
				switch b.Op {
				case token.EQL:
					return -1 // false edge: index != 1
				case token.NEQ:
					return 1
				}
				return 0
			})
			isLR := func(in ssa.Instruction) bool {
				st, ok := in.(*ssa.Store)
				if !ok {
					return false
				}
				f, _ := core.FieldOfAddr(st.Addr)
				return core.SameField(f, c.lastReceived)
			}
			reached := core.Reach(lit, sd, cutNotCurrent, func(in ssa.Instruction) bool {
				if isLR(in) {
					return true
				}
				// promotion refreshes the clock too
				cc, ok := in.(*ssa.Call)
				return ok && core.IsCallToFn(cc.Common(), c.onReady)
			})
			bad := false
			for _, st := range stores {
				if reached[st] {
					bad = true
				}
			}
			r.Check(!bad, "C07-KEEPALIVE", core.FnName(lit)+" current-session data", p.Pos(sd.Pos()), "application data from the current session is handed out only after lastReceived was refreshed", "application data from the current session is handed out without refreshing lastReceived: expireSessions retires a busy session once KeepAliveTimeout has passed since its handshake")
		} else {
			r.Fail("C07-KEEPALIVE: anchors in the Deliver literal not found")
		}
		// onReadySession refreshes it as well
		r.Check(len(core.StoresToField(c.onReady, c.lastReceived)) > 0, "C07-KEEPALIVE", core.FnName(c.onReady), p.Pos(c.onReady.Pos()), "promotion sets lastReceived", "promotion does not start the keep-alive clock")
	}

	// ---- C07-ARM
	r.Rule("C07-ARM", "timers are armed wherever progress depends on them; new sessions are installed", 6)
	isReset := func(fld string) func(ssa.Instruction) bool {
		f := c.handshakeTimer
		if fld == "rekey" {
			f = c.rekeyTimer
		}
		return func(in ssa.Instruction) bool {
			cc, ok := in.(ssa.CallInstruction)
			if !ok || !core.IsCallToFn(cc.Common(), c.timerReset) {
				return false
			}
			ff, _ := core.FieldRead(cc.Common().Args[0])
			return core.SameField(ff, f)
		}
	}
	// (a) every newInit is followed by handshakeTimer.Reset
	nInit := 0
	for _, fn := range p.ModFuncs {
		for _, ci := range core.CallsToFn(fn, c.newInit) {
			nInit++
			r.Analysed(fn)
			r.Check(mustPassFrom(fn, ci.(ssa.Instruction), isReset("handshake")), "C07-ARM", core.FnName(fn)+" newInit", p.Pos(ci.Pos()), "every path after creating an initiator session arms the handshake timer", "an initiator session is created without arming the handshake timer: its InitHello is never (re)transmitted")
			r.Check(mustPassFrom(fn, ci.(ssa.Instruction), func(in ssa.Instruction) bool {
				cc, ok := in.(ssa.CallInstruction)
				return ok && core.IsCallToFn(cc.Common(), c.propose)
			}), "C07-ARM", core.FnName(fn)+" newInit proposed", p.Pos(ci.Pos()), "the new initiator session is proposed as the prospective session", "a new initiator session is dropped without being proposed")
		}
	}
	if nInit == 0 {
		r.Fail("C07-ARM: no call of newInit found")
	}
	// (b) onHandshake re-arms on len(toSend) > 0
	{
		fn := c.onHandshake
		ok := false
		for _, b := range fn.Blocks {
			iff, isIf := b.Instrs[len(b.Instrs)-1].(*ssa.If)
			if !isIf {
				continue
			}
			bo, isB := iff.Cond.(*ssa.BinOp)
			if !isB || bo.Op != token.GTR || !isLenCall(bo.X) {
				continue
			}
			if k, isK := core.ConstInt(bo.Y); !isK || k != 0 {
				continue
			}
			if mustPassAt(fn, b.Succs[0].Instrs[0], isReset("handshake")) {
				ok = true
			}
		}
		r.Check(ok, "C07-ARM", core.FnName(fn)+" re-arm", p.Pos(fn.Pos()), "while there is a handshake message to send the timer re-arms itself", "the handshake timer does not re-arm: a lost handshake message is never retransmitted")
		// and it sends what it collected
		sends := false
		for _, in := range core.AllInstrs(fn) {
			if cc, isC := in.(ssa.CallInstruction); isC && !cc.Common().IsInvoke() {
				if f, _ := core.FieldRead(cc.Common().Value); f != nil && f.Name() == "Send" {
					sends = true
				}
			}
		}
		r.Check(sends, "C07-ARM", core.FnName(fn)+" send", p.Pos(fn.Pos()), "collected handshake messages are sent", "onHandshake never sends")
	}
	// (c) getOrInit: with no current and no prospective session, rekeyTimer.Reset before waiting
	{
		fn := c.getOrInit
		cutHave := core.CutWhere(func(cond ssa.Value) int {
			x, isEq, ok := core.NilCheck(cond)
			if !ok {
				return 0
			}
			f, _ := core.FieldRead(x)
			if !core.SameField(f, c.entrySession) {
				return 0
			}
			if isEq {
				return -1
			}
			return 1
		})
		reached := core.Reach(fn, nil, cutHave, isReset("rekey"))
		blocked := false
		for in := range reached {
			if s, ok := in.(*ssa.Select); ok && s.Blocking {
				blocked = true
			}
		}
		r.Check(core.GuardEdges(fn, cutHave) > 0 && !blocked, "C07-ARM", core.FnName(fn)+" kick", p.Pos(fn.Pos()), "with neither a current nor a prospective session the rekey timer is fired before waiting", "getOrInit can wait for readiness with no session and no timer armed: Send blocks forever on a fresh or fully expired channel")
	}
	// (d) proposeNewSession installs what it returns
	{
		fn := c.propose
		reached := core.Reach(fn, nil, nil, func(in ssa.Instruction) bool {
			cc, ok := in.(ssa.CallInstruction)
			return ok && core.IsCallToFn(cc.Common(), c.setNext)
		})
		ok := true
		for _, ret := range core.Returns(fn) {
			if !reached[ret] {
				continue
			}
			for _, v := range core.ReturnValues(ret, 0) {
				if core.DerivesFrom(v, func(x ssa.Value) bool { return x == ssa.Value(fn.Params[2]) }) {
					ok = false
				}
			}
		}
		r.Check(ok, "C07-ARM", core.FnName(fn), p.Pos(fn.Pos()), "the proposed session is returned only after it was installed as the prospective session", "proposeNewSession can return the new session without installing it: its handshake reply is sent but later messages find no session")
	}
	// (e0) a repeated InitHello is recognised against EVERY session slot before a new
	// responder session is created: otherwise a late duplicate of the hello of an
	// established (or previous) session parks an uncompletable session in the
	// prospective slot, which blocks rekeying and re-initiation.
	{
		calls := core.CallsToFn(lit, c.newResp)
		okRep := false
		why := "no loop over all session slots compares the hello's id before newResp"
		idF := p.Field("p/p2pke", "sessionEntry", "ID")
		for _, b := range lit.Blocks {
			iff, isIf := b.Instrs[len(b.Instrs)-1].(*ssa.If)
			if !isIf || len(calls) != 1 || idF == nil {
				continue
			}
			bo, isB := iff.Cond.(*ssa.BinOp)
			if !isB || bo.Op != token.EQL {
				continue
			}
			fx, bx := core.FieldRead(bo.X)
			if !core.SameField(fx, idF) {
				continue
			}
			// the compared entry is the element of a range over the whole sessions array
			fromRange := core.DerivesFromDirect(bx, func(x ssa.Value) bool {
				ix, ok := x.(*ssa.Index)
				if !ok || !isRangeIndex(ix.Index) {
					return false
				}
				f, _ := core.FieldRead(ix.X)
				return core.SameField(f, c.sessions)
			})
			if !fromRange {
				why = "the repeated-hello test does not range over all session slots"
				continue
			}
			// the other operand is the hash of the incoming message
			if _, _, isCall := core.CallResult(bo.Y); !isCall {
				continue
			}
			// match edge must not reach newResp; newResp only after the loop ran to its end
			if core.ReachAt(lit, b.Succs[0].Instrs[0], nil, nil)[calls[0].(ssa.Instruction)] {
				why = "a hello matching an existing session still reaches newResp"
				continue
			}
			// loop exit edge: the rangeindex.loop block of this loop
			var exitCut core.CutFunc
			for _, lb := range lit.Blocks {
				li, ok := lb.Instrs[len(lb.Instrs)-1].(*ssa.If)
				if !ok {
					continue
				}
				lbo, ok := li.Cond.(*ssa.BinOp)
				if !ok || lbo.Op != token.LSS || !isRangeIndex(lbo.X) {
					continue
				}
				if core.ReachAt(lit, lb.Succs[0].Instrs[0], nil, func(in ssa.Instruction) bool { return in == ssa.Instruction(li) })[iff] {
					lb2 := lb
					exitCut = func(bb *ssa.BasicBlock, i int) bool { return bb == lb2 && i == 1 }
				}
			}
			if exitCut != nil && core.GuardedFromEntry(lit, calls[0].(ssa.Instruction), exitCut) {
				okRep = true
			} else {
				why = "newResp is reachable without the repeated-hello loop having run to its end"
			}
		}
		r.Check(okRep, "C07-ARM", core.FnName(lit)+" repeated hello", p.Pos(lit.Pos()), "a new responder session is created only after the hello's id was compared with every session slot", why+": a late duplicate InitHello of an established session creates a session that can never complete and occupies the prospective slot, so rekey and re-initiation stall until it expires")
	}
	// (e) unknown InitHello reaches newResp, and a created responder is proposed
	{
		calls := core.CallsToFn(lit, c.newResp)
		ok := len(calls) == 1 && core.Reach(lit, nil, nil, nil)[calls[0].(ssa.Instruction)]
		r.Check(ok, "C07-ARM", core.FnName(lit)+" newResp reachable", p.Pos(lit.Pos()), "a message that matches no session can reach newResp", "the tail of Deliver that creates responder sessions is unreachable: a restarted peer can never re-establish")
		if len(calls) == 1 {
			call := calls[0].(*ssa.Call)
			cut := cutErrNilOf(call)
			// after success, every path passes proposeNewSession
			okP := true
			rs := core.Reach(lit, call, func(b *ssa.BasicBlock, i int) bool {
				// remove the err != nil edge instead: keep only success
				iff, isIf := b.Instrs[len(b.Instrs)-1].(*ssa.If)
				if !isIf {
					return false
				}
				return !cut(b, i) && cut(b, 1-i) && false || (isIf && iff != nil && cut(b, 1-i) && !cut(b, i))
			}, func(in ssa.Instruction) bool {
				cc, ok := in.(ssa.CallInstruction)
				return ok && core.IsCallToFn(cc.Common(), c.propose)
			})
			for _, ret := range core.Returns(lit) {
				if rs[ret] {
					okP = false
				}
			}
			r.Check(okP, "C07-ARM", core.FnName(lit)+" responder proposed", p.Pos(call.Pos()), "a successfully created responder session is proposed on every path", "a responder session is created and then dropped")
		}
	}
}

// isRangeIndex: v is the index of a `for i := range` loop (phi+1 form of go/ssa).
func isRangeIndex(v ssa.Value) bool {
	b, ok := v.(*ssa.BinOp)
	if ok && b.Op == token.ADD {
		if ph, ok := b.X.(*ssa.Phi); ok {
			return ph.Comment == "rangeindex"
		}
	}
	if ph, ok := v.(*ssa.Phi); ok {
		return ph.Comment == "rangeindex"
	}
	return false
}

// ruleTimer (shared by C07 and C06: retransmission of handshake messages is the callback re-arming
// its own timer): the timer's fire routine clears its pending flag before the callback and never
// after it; Reset sets the flag.
func ruleTimer(r *core.Report, ruleID string) {
	p := r.P
	if nt := needFn(r, "p/p2pke", "newTimer"); nt != nil && len(nt.AnonFuncs) >= 1 {
		pend := needField(r, "p/p2pke", "Timer", "isPending")
		fire := nt.AnonFuncs[0]
		r.Analysed(fire)
		// functions (module) that store the pending flag, with the value stored
		storesPending := func(fn *ssa.Function, want *bool) bool {
			seen := map[*ssa.Function]bool{}
			var walk func(f *ssa.Function, d int) bool
			walk = func(f *ssa.Function, d int) bool {
				if f == nil || seen[f] || d > 3 || f.Blocks == nil {
					return false
				}
				seen[f] = true
				for _, st := range core.StoresToField(f, pend) {
					if want == nil {
						return true
					}
					if b, isK := core.ConstBool(st.Val); !isK || b == *want {
						return true
					}
				}
				for _, g := range p.Callees(f, nil) {
					if walk(g, d+1) {
						return true
					}
				}
				return false
			}
			return walk(fn, 0)
		}
		fls := false
		isClear := func(in ssa.Instruction) bool {
			if st, ok := in.(*ssa.Store); ok {
				if f, _ := core.FieldOfAddr(st.Addr); core.SameField(f, pend) {
					b, isK := core.ConstBool(st.Val)
					return isK && !b
				}
			}
			return false
		}
		var cb ssa.Instruction
		for _, in := range core.AllInstrs(fire) {
			if c, ok := in.(*ssa.Call); ok && core.IsParamFuncCall(c.Common()) {
				cb = in
			}
		}
		if cb == nil || pend == nil {
			r.Fail("C07-TIMER: callback invocation or Timer.isPending not found in newTimer's fire routine")
		} else {
			// a helper that reports true only after it cleared the flag (test-and-clear under the lock):
			// the edge on which its result is true counts as cleared
			clearingHelper := func(g *ssa.Function) bool {
				if g == nil || !p.InModule(g) || g.Blocks == nil || g.Signature.Results().Len() != 1 {
					return false
				}
				unclear := core.Reach(g, nil, nil, isClear)
				some := false
				for _, ret := range core.Returns(g) {
					for _, v := range core.ReturnValues(ret, 0) {
						if b, isK := core.ConstBool(v); isK && !b {
							continue
						}
						some = true
						if unclear[ret] {
							return false
						}
					}
				}
				return some
			}
			clearedEdge := core.CutWhere(func(cond ssa.Value) int {
				c, ok := cond.(*ssa.Call)
				if ok && clearingHelper(core.StaticCallee(c.Common())) {
					return 1
				}
				return 0
			})
			before := !core.Reach(fire, nil, clearedEdge, isClear)[cb]
			r.Check(before, ruleID, "timer fire routine clears before the callback", p.Pos(cb.Pos()), "every path to the callback passes isPending = false", "the callback can run while the timer still counts as pending: a Reset made by the callback is indistinguishable from the old arming")
			after := false
			for in := range core.Reach(fire, cb, nil, nil) {
				switch x := in.(type) {
				case *ssa.Store:
					if f, _ := core.FieldOfAddr(x.Addr); core.SameField(f, pend) {
						after = true
					}
				case ssa.CallInstruction:
					if g := core.StaticCallee(x.Common()); g != nil && p.InModule(g) && storesPending(g, nil) {
						after = true
					}
				}
			}
			// deferred calls run after the callback too
			for _, in := range core.AllInstrs(fire) {
				d, ok := in.(*ssa.Defer)
				if !ok {
					continue
				}
				g := core.StaticCallee(d.Common())
				if g == nil {
					g = core.ClosureFn(d.Call.Value)
				}
				if g != nil && p.InModule(g) && storesPending(g, nil) {
					after = true
				}
			}
			r.Check(!after, ruleID, "timer fire routine leaves the flag alone after the callback", p.Pos(cb.Pos()), "nothing after the callback (deferred calls included) writes isPending", "the pending flag is written after the callback returned (directly, in a callee or in a deferred call): when the callback re-arms its own timer (handshake retransmission) the re-arming is wiped, the next firing returns early, and a lost handshake message is never sent again")
		}
		if rs := needFn(r, "p/p2pke", "Timer.Reset"); rs != nil {
			tr := true
			r.Check(storesPending(rs, &tr), ruleID, "Timer.Reset sets the pending flag", p.Pos(rs.Pos()), "Reset stores isPending = true", "Reset does not mark the timer pending: the fire routine returns early and the callback never runs")
		}
		_ = fls
	}

}

// ruleCheckThenInsert (shared by C07 and C14): store.getOrCreate of p2pkeswarm.
func ruleCheckThenInsert(r *core.Report, ruleID string) {
	p := r.P
	fn := needFn(r, "s/p2pkeswarm", "store.getOrCreate")
	mf := needField(r, "s/p2pkeswarm", "store", "m")
	if fn == nil || mf == nil {
		return
	}
	isM := func(v ssa.Value) bool { f, _ := core.FieldRead(core.Through(v)); return core.SameField(f, mf) }
	isLock := func(in ssa.Instruction) bool {
		ci, ok := in.(ssa.CallInstruction)
		if !ok {
			return false
		}
		if _, isD := in.(*ssa.Defer); isD {
			return false
		}
		n := core.CalleeName(ci.Common())
		return n == "(*sync.RWMutex).Lock" || n == "(*sync.Mutex).Lock"
	}
	isUnlock := func(in ssa.Instruction) bool {
		ci, ok := in.(ssa.CallInstruction)
		if !ok {
			return false
		}
		if _, isD := in.(*ssa.Defer); isD {
			return false
		}
		n := core.CalleeName(ci.Common())
		return strings.HasSuffix(n, ").Unlock") || strings.HasSuffix(n, ").RUnlock")
	}
	n := 0
	for _, in := range core.AllInstrs(fn) {
		mu, ok := in.(*ssa.MapUpdate)
		if !ok || !isM(mu.Map) {
			continue
		}
		n++
		okIns := false
		why := "no lookup of the key precedes the insert in this function"
		for _, in2 := range core.AllInstrs(fn) {
			lk, ok := in2.(*ssa.Lookup)
			if !ok || !lk.CommaOk || !isM(lk.X) || core.Through(lk.Index) != core.Through(mu.Key) {
				continue
			}
			// the insert is reachable only through the lookup's miss edge
			cutMiss := func(b *ssa.BasicBlock, i int) bool {
				iff, ok := b.Instrs[len(b.Instrs)-1].(*ssa.If)
				if !ok {
					return false
				}
				cond, neg := core.StripNot(iff.Cond)
				ex, ok := cond.(*ssa.Extract)
				if !ok || ex.Index != 1 || ex.Tuple != ssa.Value(lk) {
					return false
				}
				miss := 1
				if neg {
					miss = 0
				}
				return i == miss
			}
			if !core.GuardedFromEntry(fn, mu, cutMiss) {
				why = "the insert does not depend on the lookup having missed"
				continue
			}
			// the lookup itself runs under the write lock: it is not reachable before a Lock call, and no
			// Unlock lies between it and the insert
			before := core.Reach(fn, nil, nil, isLock)
			if before[lk] {
				why = "the lookup can run before the write lock is taken"
				continue
			}
			between := core.Reach(fn, lk, nil, func(i3 ssa.Instruction) bool { return i3 == ssa.Instruction(mu) })
			unlocked := false
			for i3 := range between {
				if isUnlock(i3) {
					unlocked = true
				}
			}
			if unlocked {
				why = "the lock is released between the lookup and the insert"
				continue
			}
			okIns = true
		}
		r.Check(okIns, ruleID, core.FnName(fn)+" insert", p.Pos(mu.Pos()), "the entry is created only when a lookup under the same write lock missed", why+": two callers that both miss create two channels for one remote address; the later one replaces the earlier in the table, handshake replies reach only that one and the other caller's Tell never completes")
	}
	if n == 0 {
		r.Fail("%s: no insert into the channel table found in getOrCreate", ruleID)
	}
}
