package rules

import (
	"fmt"
	"go/token"
	"go/types"
	"strings"

	"golang.org/x/tools/go/ssa"

	"p2pverif/core"
)

func init() { All["C18"] = c18 }

func c18(r *core.Report) {
	p := r.P
	r.Explanation = "Static necessary conditions of 'the Kademlia cache is a faithful bounded map': (COUNT-PAIR) every Cache method that calls a bucket operation which changes the number of entries (computed: the bucket methods that write or delete map elements) adjusts Cache.count on every path on which the bucket operation reported a change; (VICTIM-NIL) a result of Cache.evict, which has a nil return, is never dereferenced without a nil check; (CAPACITY-GUARD) count is incremented only in Update and every increment is followed on all paths by the count > max test whose true edge reaches evict; (LOCK) count and buckets are accessed under Cache.mu (shared engine with C14). The map-faithfulness and eviction-order clauses range over operation histories and key values and are not decided."
	r.Assumptions = []string{"bucket.entries is only modified by methods of bucket (checked: writers computed from the SSA)"}
	r.Trusted = []string{"go/types, go/ssa (x/tools v0.29.0)"}
	cache := needNamed(r, "p/kademlia", "Cache")
	bucket := needNamed(r, "p/kademlia", "bucket")
	countF := needField(r, "p/kademlia", "Cache", "count")
	maxF := needField(r, "p/kademlia", "Cache", "max")
	entriesF := needField(r, "p/kademlia", "bucket", "entries")
	evict := needFn(r, "p/kademlia", "Cache.evict")
	update := needFn(r, "p/kademlia", "Cache.Update")
	if len(r.Failures) > 0 {
		return
	}
	// cardinality writers: functions with a MapUpdate or delete on bucket.entries
	direct := map[*ssa.Function]bool{}
	for _, fn := range p.ModFuncs {
		_, up, del := mapOpsOn(fn, entriesF)
		if len(up)+len(del) > 0 {
			direct[fn] = true
			if fn.Signature.Recv() == nil || !isNamed(fn.Signature.Recv().Type(), bucket) {
				r.Violation("C18-COUNT-PAIR", core.FnName(fn)+" writes entries", p.Pos(fn.Pos()), "bucket.entries is modified outside the bucket's methods: the cache's count cannot follow it")
			}
		}
	}
	// bucket methods that reach a direct writer
	writers := map[*ssa.Function]bool{}
	for fn := range direct {
		writers[fn] = true
	}
	for changed := true; changed; {
		changed = false
		for _, fn := range p.ModFuncs {
			if writers[fn] || fn.Signature.Recv() == nil || !isNamed(fn.Signature.Recv().Type(), bucket) {
				continue
			}
			for _, c := range p.Callees(fn, nil) {
				if writers[c] {
					writers[fn] = true
					changed = true
				}
			}
		}
	}
	isCountStore := func(in ssa.Instruction) bool {
		st, ok := in.(*ssa.Store)
		if !ok {
			return false
		}
		f, _ := core.FieldOfAddr(st.Addr)
		return core.SameField(f, countF)
	}

	// ---- C18-COUNT-PAIR
	r.Rule("C18-COUNT-PAIR", "every Cache method that calls a cardinality-changing bucket operation adjusts count when it reported a change", 4)
	for _, fn := range p.ModFuncs {
		if fn.Signature.Recv() == nil || !isNamed(fn.Signature.Recv().Type(), cache) {
			continue
		}
		for _, in := range core.AllInstrs(fn) {
			call, ok := in.(*ssa.Call)
			if !ok {
				continue
			}
			callee := core.StaticCallee(call.Common())
			if callee == nil || !writers[callee] {
				continue
			}
			r.Analysed(fn)
			c := core.FnName(fn) + " after " + callee.Name()
			// edges on which the bucket operation is known not to have changed the cardinality:
			// a false boolean result of the call (added / deleted / exists)
			cutUnchanged := core.CutWhere(func(cond ssa.Value) int {
				vals := core.ReachingValues(cond)
				if len(vals) != 1 {
					return 0
				}
				cc, _, ok := core.CallResult(vals[0])
				if ok && cc == call {
					if b, isB := cond.Type().Underlying().(*types.Basic); isB && b.Kind() == types.Bool {
						return -1
					}
				}
				return 0
			})
			reached := core.Reach(fn, call, cutUnchanged, isCountStore)
			ok2 := true
			for _, ret := range core.Returns(fn) {
				if reached[ret] {
					ok2 = false
				}
			}
			r.Check(ok2, "C18-COUNT-PAIR", c, p.Pos(call.Pos()), "every path on which the bucket changed size passes a store to count", "the bucket's size can change here without count being adjusted: the reported count drifts from the number of entries held (and the cache evicts live entries to make room for entries that are gone, or exceeds its capacity)")
		}
	}

	// ---- C18-COUNT-AMOUNT: count moves by one per added/removed entry, or by exactly the number of
	// entries one bucket operation removed: len(result) - len(the slice handed to that same call)
	r.Rule("C18-COUNT-AMOUNT", "count is adjusted by 1, or by len(result) - len(argument) of the very bucket call that removed the entries", 4)
	for _, fn := range p.ModFuncs {
		if fn.Signature.Recv() == nil || !isNamed(fn.Signature.Recv().Type(), cache) {
			continue
		}
		for _, in := range core.AllInstrs(fn) {
			if !isCountStore(in) {
				continue
			}
			st := in.(*ssa.Store)
			c := core.FnName(fn) + " count adjustment"
			b, ok := st.Val.(*ssa.BinOp)
			if !ok || (b.Op != token.ADD && b.Op != token.SUB) {
				r.Violation("C18-COUNT-AMOUNT", c, p.Pos(st.Pos()), "count is assigned something other than count ± amount")
				continue
			}
			if fx, _ := core.FieldRead(b.X); !core.SameField(fx, countF) {
				r.Violation("C18-COUNT-AMOUNT", c, p.Pos(st.Pos()), "the adjustment does not start from the current count")
				continue
			}
			if k, isK := core.ConstInt(b.Y); isK {
				r.Check(k == 1, "C18-COUNT-AMOUNT", c, p.Pos(st.Pos()), "count moves by one for one entry", fmt.Sprintf("count moves by %d for a single bucket operation", k))
				continue
			}
			okAmt := false
			why := "the amount is not of the form len(result) - len(argument)"
			if d, isD := core.Through(b.Y).(*ssa.BinOp); isD && d.Op == token.SUB && b.Op == token.SUB {
				lenOf := func(v ssa.Value) ssa.Value {
					if cl, ok := core.Through(v).(*ssa.Call); ok && core.IsBuiltin(cl.Common(), "len") {
						return cl.Call.Args[0]
					}
					return nil
				}
				res, base := lenOf(d.X), lenOf(d.Y)
				if rc, isCall := res.(*ssa.Call); isCall && base != nil {
					if callee := core.StaticCallee(rc.Common()); callee != nil && writers[callee] {
						why = "the baseline length is not taken from the slice passed to the bucket call whose result is measured (entries removed by earlier calls are subtracted again)"
						for _, a := range rc.Call.Args {
							if a == base {
								okAmt = true
							}
						}
					} else {
						why = "the measured slice is not the result of a bucket operation"
					}
				}
			}
			r.Check(okAmt, "C18-COUNT-AMOUNT", c, p.Pos(st.Pos()), "count drops by the number of entries that one bucket call appended to its output", why+": Count() drifts from the number of entries held, and the cache exceeds or undershoots its capacity")
		}
	}

	// ---- C18-DISTANCE (shared with C19-CMP-SHAPE): "sheds the farthest first" rests on the bucket index
	// being the number of leading zero bits of locus^key and on the distance order
	r.Rule("C18-DISTANCE", "LeadingZeros counts 8 bits per byte skipped; DistanceCmp is the byte-wise order of XOR distances", 6)
	ruleCmpShape(r, "C18-DISTANCE")

	// ---- C18-KEY-OWNED (after seed C18-s7): the cache keys its buckets by the bytes of Entry.Key and reports victims
	// by that slice. Every entry reaches a bucket through bucket.update, whatever the caller of Cache.Update put in
	// Entry.Key: update therefore stores a fresh copy of the key (append onto a new empty slice) before put, on
	// every path, and never replaces it by a slice it was handed.
	r.Rule("C18-KEY-OWNED", "bucket.update stores a fresh copy of the entry's key before put on every path", 1)
	if bu, bput := needFn(r, "p/kademlia", "bucket.update"), needFn(r, "p/kademlia", "bucket.put"); bu != nil && bput != nil {
		r.Analysed(bu)
		isFresh := func(v ssa.Value) bool {
			c, ok := core.Peel(v).(*ssa.Call)
			if !ok || !core.IsBuiltin(c.Common(), "append") || len(c.Call.Args) == 0 {
				return false
			}
			switch b := c.Call.Args[0].(type) {
			case *ssa.Slice:
				_, isNew := b.X.(*ssa.Alloc)
				return isNew && b.X.(*ssa.Alloc).Heap || isNew
			case *ssa.Const:
				return b.IsNil()
			case *ssa.MakeSlice:
				return true
			}
			return false
		}
		for _, pc := range core.CallsToFn(bu, bput) {
			ok := false
			why := "the entry handed to put does not come from a local entry whose key was copied"
			if ld, isLd := pc.Common().Args[len(pc.Common().Args)-1].(*ssa.UnOp); isLd {
				if cell, isA := ld.X.(*ssa.Alloc); isA {
					dom, allFresh, n := false, true, 0
					for _, in := range core.AllInstrs(bu) {
						st, isSt := in.(*ssa.Store)
						if !isSt {
							continue
						}
						f, base := core.FieldOfAddr(st.Addr)
						if f == nil || f.Name() != "Key" || base != ssa.Value(cell) {
							continue
						}
						n++
						if !isFresh(st.Val) {
							allFresh = false
						} else if core.InstrDominates(st, pc) {
							dom = true
						}
					}
					ok = n > 0 && allFresh && dom
					if !ok {
						why = "the key of the entry handed to put is not (on every path, and only) a fresh copy: an entry added through Cache.Update shares the caller's key buffer, so a later write to that buffer changes the key the entry is filed, found, evicted and reported under"
					}
				}
			}
			r.Check(ok, "C18-KEY-OWNED", core.FnName(bu)+" put", p.Pos(pc.Pos()), "the stored entry's key is a fresh copy made in update", why)
		}
	}

	// ---- C18-INDEX-PURE: an entry is found again only if its bucket index is a function of (locus, key)
	// alone: bucketIndex computes the distance in a buffer it allocates itself (zero beyond the shorter
	// operand) and writes nothing that outlives the call
	r.Rule("C18-INDEX-PURE", "bucketIndex computes the distance in a fresh local buffer and has no side effect on the cache", 1)
	if bi := needFn(r, "p/kademlia", "Cache.bucketIndex"); bi != nil {
		okPure := true
		why := ""
		for _, in := range core.AllInstrs(bi) {
			switch x := in.(type) {
			case *ssa.Store:
				if core.CellOfAddr(x.Addr) == nil {
					okPure, why = false, "bucketIndex stores to memory that outlives the call"
				}
			case *ssa.Call:
				name := core.CalleeName(x.Common())
				if strings.HasSuffix(name, ".XORBytes") || core.IsBuiltin(x.Common(), "copy") {
					dst := core.Through(x.Call.Args[0])
					if sl, ok := dst.(*ssa.Slice); ok {
						dst = core.Through(sl.X)
					}
					if _, fresh := dst.(*ssa.MakeSlice); !fresh {
						if _, arr := dst.(*ssa.Alloc); !arr {
							okPure, why = false, "the distance is computed into a buffer that is not allocated by this call (a scratch buffer kept on the cache keeps the previous key's trailing bytes when the key is shorter than the locus, and is written under the read lock)"
						}
					}
				}
			}
		}
		r.Check(okPure, "C18-INDEX-PURE", core.FnName(bi), p.Pos(bi.Pos()), "the distance buffer is allocated per call; no store outlives the call", why+": the bucket index of a key depends on earlier operations, so an entry that was put can no longer be found, overwritten or deleted")
	}

	// ---- C18-VICTIM-NIL
	r.Rule("C18-VICTIM-NIL", "results of Cache.evict are nil-checked before being dereferenced", 1)
	hasNilReturn := false
	for _, ret := range core.Returns(evict) {
		for _, v := range core.ReturnValues(ret, 0) {
			if core.IsNilConst(v) {
				hasNilReturn = true
			}
		}
	}
	nn := core.NewNonNil(p)
	nDeref := 0
	for _, fn := range p.ModFuncs {
		for _, ci := range core.CallsToFn(fn, evict) {
			call, ok := ci.(*ssa.Call)
			if !ok {
				continue
			}
			// dereferences of the result (through the named-result cell too)
			for _, in := range core.AllInstrs(fn) {
				var base ssa.Value
				switch x := in.(type) {
				case *ssa.FieldAddr:
					base = x.X
				case *ssa.UnOp:
					if x.Op == token.MUL {
						if _, isPtrToStruct := x.X.Type().Underlying().(*types.Pointer); isPtrToStruct {
							base = x.X
						}
					}
				}
				if base == nil {
					continue
				}
				isResult := base == ssa.Value(call)
				if !isResult {
					// load of a cell that holds the call's result
					if cell := core.CellOf(base); cell != nil {
						for _, r2 := range *cell.Referrers() {
							if st, ok := r2.(*ssa.Store); ok && st.Val == ssa.Value(call) {
								isResult = true
							}
						}
					}
				}
				if !isResult {
					continue
				}
				nDeref++
				ok := !hasNilReturn || nn.At(base, in)
				r.Check(ok, "C18-VICTIM-NIL", core.FnName(fn)+" deref evict()", p.Pos(in.Pos()), "the victim is dereferenced only after a nil check (or evict cannot return nil)", "evict() returns nil when no bucket is above its per-bucket minimum, and the result is dereferenced unconditionally: a Put into a full cache whose buckets are all at their minimum panics")
			}
		}
	}
	if nDeref == 0 {
		r.Fail("C18-VICTIM-NIL: no dereference of evict()'s result found (anchor stale)")
	}

	// ---- C18-CAPACITY-GUARD
	r.Rule("C18-CAPACITY-GUARD", "count grows only in Update, and every increment is followed by the capacity test that leads to evict", 2)
	for _, fn := range p.ModFuncs {
		for _, in := range core.AllInstrs(fn) {
			if !isCountStore(in) {
				continue
			}
			st := in.(*ssa.Store)
			b, ok := st.Val.(*ssa.BinOp)
			if !ok || b.Op != token.ADD {
				continue
			}
			r.Check(fn == update, "C18-CAPACITY-GUARD", core.FnName(fn)+" count++", p.Pos(in.Pos()), "count is incremented in Update only", "count is incremented outside Update, where no capacity test follows")
			if fn != update {
				continue
			}
			// every path from the increment to a return passes the capacity comparison
			isCapTest := func(i2 ssa.Instruction) bool {
				bo, ok := i2.(*ssa.BinOp)
				if !ok || bo.Op != token.GTR {
					return false
				}
				fx, _ := core.FieldRead(bo.X)
				fy, _ := core.FieldRead(bo.Y)
				return core.SameField(fx, countF) && core.SameField(fy, maxF)
			}
			okCap := mustPassFrom(fn, in, isCapTest)
			// and its true edge reaches evict on every path
			okEvict := false
			for _, i2 := range core.AllInstrs(fn) {
				if !isCapTest(i2) {
					continue
				}
				for _, ref := range *i2.(ssa.Value).Referrers() {
					iff, ok := ref.(*ssa.If)
					if ok {
						okEvict = mustPassAt(fn, iff.Block().Succs[0].Instrs[0], func(i3 ssa.Instruction) bool {
							cc, ok := i3.(ssa.CallInstruction)
							return ok && core.IsCallToFn(cc.Common(), evict)
						})
					}
				}
			}
			r.Check(okCap && okEvict, "C18-CAPACITY-GUARD", core.FnName(fn)+" capacity test", p.Pos(in.Pos()), "after count grows, count > max is tested on every path and its true edge evicts", "count can grow past max without an eviction being attempted")
		}
	}

	// ---- C18-MINEXPIRES: Expire skips a bucket whose minExpiresAt is not before now, so
	// minExpiresAt must stay a lower bound of the bucket's expiry times: it may only be lowered
	// (updateMinExpires), or reset to zero by a function that then re-derives it from every
	// remaining entry.
	r.Rule("C18-MINEXPIRES", "bucket.minExpiresAt is only lowered, or reset and recomputed from all remaining entries", 2)
	{
		minF := needField(r, "p/kademlia", "bucket", "minExpiresAt")
		upd := needFn(r, "p/kademlia", "bucket.updateMinExpires")
		if minF != nil && upd != nil {
			for _, fn := range p.ModFuncs {
				for _, st := range core.StoresToField(fn, minF) {
					c := core.FnName(fn) + " store minExpiresAt"
					if fn == upd {
						// only under: current is zero, or x is before current
						cut := core.CutWhere(func(cond ssa.Value) int {
							cc, ok := cond.(*ssa.Call)
							if !ok {
								return 0
							}
							switch core.CalleeName(cc.Common()) {
							case "(time.Time).IsZero", "(time.Time).Before":
								return 1
							}
							return 0
						})
						r.Check(core.GuardEdges(fn, cut) > 0 && core.GuardedFromEntry(fn, st, cut), "C18-MINEXPIRES", c, p.Pos(st.Pos()), "the minimum is replaced only when unset or when the new time is earlier", "updateMinExpires can raise the minimum: Expire then skips a bucket that holds an entry past its time")
						continue
					}
					// a reset: must be followed by a loop over the bucket's entries that calls updateMinExpires
					okLoop := false
					for in := range core.Reach(fn, st, nil, nil) {
						cc, ok := in.(*ssa.Call)
						if !ok || !core.IsCallToFn(cc.Common(), upd) {
							continue
						}
						// inside a range over entries
						if core.DerivesFrom(cc.Call.Args[1], func(x ssa.Value) bool {
							nx, ok := x.(*ssa.Next)
							if !ok {
								return false
							}
							rg, ok := nx.Iter.(*ssa.Range)
							if !ok {
								return false
							}
							f, _ := core.FieldRead(rg.X)
							return core.SameField(f, entriesF)
						}) {
							okLoop = true
						}
					}
					r.Check(okLoop, "C18-MINEXPIRES", c, p.Pos(st.Pos()), "after the reset the minimum is recomputed from every remaining entry", "minExpiresAt is reset without being recomputed from the remaining entries: the next Put adopts its own (later) expiry as the minimum, and Expire skips the bucket although an older entry is past its time")
				}
			}
		}
	}

	// ---- C18-EVICT-SCAN: the victim comes from the first bucket, counted from index 0 (the farthest from the
	// locus), that holds more than the per-bucket minimum. The search therefore starts at bucket 0 every time:
	// a search that starts at a remembered or derived index skips farther buckets that have grown since.
	r.Rule("C18-EVICT-SCAN", "every search for a bucket above its minimum walks the buckets from index 0", 1)
	{
		minF := needField(r, "p/kademlia", "Cache", "minPerBucket")
		bucketsFld := needField(r, "p/kademlia", "Cache", "buckets")
		n := 0
		for _, fn := range p.ModFuncs {
			if fn.Pkg == nil || fn.Pkg.Pkg.Path() != core.ModPath+"/p/kademlia" {
				continue
			}
			for _, in := range core.AllInstrs(fn) {
				b, ok := in.(*ssa.BinOp)
				if !ok || (b.Op != token.GTR && b.Op != token.LSS && b.Op != token.GEQ && b.Op != token.LEQ) {
					continue
				}
				isMin := func(v ssa.Value) bool { f, _ := core.FieldRead(v); return f != nil && core.SameField(f, minF) }
				var lenSide ssa.Value
				// "len > min" (or "min < len"): this bucket can spare an entry
				switch {
				case isMin(b.Y) && (b.Op == token.GTR || b.Op == token.GEQ):
					lenSide = b.X
				case isMin(b.X) && (b.Op == token.LSS || b.Op == token.LEQ):
					lenSide = b.Y
				default:
					continue
				}
				// the bucket whose length is compared: an element of Cache.buckets; its index
				var idx ssa.Value
				ranged := false
				core.BackSlice(lenSide, func(x ssa.Value) bool {
					switch y := x.(type) {
					case *ssa.IndexAddr:
						if f, _ := core.FieldRead(y.X); f != nil && core.SameField(f, bucketsFld) && idx == nil {
							idx = y.Index
						}
					case *ssa.Index:
						if f, _ := core.FieldRead(y.X); f != nil && core.SameField(f, bucketsFld) && idx == nil {
							idx = y.Index
						}
					}
					return idx == nil
				})
				if idx == nil {
					continue
				}
				n++
				r.Analysed(fn)
				c := fmt.Sprintf("%s bucket search #%d", core.FnName(fn), n)
				okStart := false
				why := "the bucket index is not a loop counter"
				if ph, isPhi := idx.(*ssa.Phi); isPhi {
					if ph.Comment == "rangeindex" {
						okStart, ranged = true, true
					} else {
						okStart = true
						for _, e := range ph.Edges {
							if bo, isB := e.(*ssa.BinOp); isB && bo.X == ssa.Value(ph) && bo.Op == token.ADD {
								if k, isK := core.ConstInt(bo.Y); isK && k == 1 {
									continue
								}
							}
							if k, isK := core.ConstInt(e); isK && k == 0 {
								continue
							}
							okStart = false
							why = "the loop counter starts at " + e.String() + ", not at 0"
						}
					}
				} else if bo, isB := idx.(*ssa.BinOp); isB && bo.Op == token.ADD {
					// rotated range loops index with rangeindex+1
					if ph, isPhi := bo.X.(*ssa.Phi); isPhi && ph.Comment == "rangeindex" {
						okStart, ranged = true, true
					}
				}
				_ = ranged
				r.Check(okStart, "C18-EVICT-SCAN", c, p.Pos(b.Pos()), "the buckets are walked from index 0 upward", "the search for a bucket that can spare an entry does not start at bucket 0 ("+why+"): a farther bucket that holds more than its minimum is skipped and a closer entry is evicted while the farther one is kept")
			}
		}
		if n < 1 {
			r.Fail("C18-EVICT-SCAN: found no comparison of a bucket's length with minPerBucket (evict and AcceptingPrefixLen have one each on the pinned tree, or share a helper)")
		}
	}

	// ---- C18-EXPIRY-AGREE: Expire opens a bucket on minExpiresAt-vs-now and removes entries on
	// ExpiresAt-vs-now (Entry.IsExpired). The two comparisons must put the boundary instant on the same side,
	// or whether an entry whose time is exactly now is removed depends on what else sits in its bucket.
	r.Rule("C18-EXPIRY-AGREE", "the bucket gate of Expire and Entry.IsExpired compare an expiry time with now in the same sense (the instant of expiry falls on the same side)", 2)
	{
		classes := map[string][]string{}
		n := 0
		for _, nm := range []string{"Entry.IsExpired", "Cache.Expire", "bucket.expire"} {
			fn := needFn(r, "p/kademlia", nm)
			if fn == nil {
				continue
			}
			r.Analysed(fn)
			var now ssa.Value
			for _, prm := range fn.Params {
				if prm.Type().String() == "time.Time" {
					now = prm
				}
			}
			if now == nil {
				r.Fail("C18-EXPIRY-AGREE: %s has no time.Time parameter", core.FnName(fn))
				continue
			}
			isNow := func(v ssa.Value) bool {
				return core.DerivesFromDirect(v, func(x ssa.Value) bool { return x == now })
			}
			isStamp := func(v ssa.Value) bool {
				return core.DerivesFromDirect(v, func(x ssa.Value) bool {
					f, _ := core.FieldRead(x)
					return f != nil && (f.Name() == "ExpiresAt" || f.Name() == "minExpiresAt")
				})
			}
			for _, in := range core.AllInstrs(fn) {
				call, ok := in.(*ssa.Call)
				if !ok {
					continue
				}
				name := core.CalleeName(call.Common())
				if name != "(time.Time).Before" && name != "(time.Time).After" && name != "(time.Time).Compare" && name != "(time.Time).Equal" {
					continue
				}
				a, b := call.Call.Args[0], call.Call.Args[1]
				var stampFirst bool
				switch {
				case isStamp(a) && isNow(b):
					stampFirst = true
				case isNow(a) && isStamp(b):
					stampFirst = false
				default:
					continue
				}
				n++
				c := fmt.Sprintf("%s %s", core.FnName(fn), strings.TrimPrefix(name, "(time.Time)."))
				// stamp.Before(now) and now.After(stamp) (and their negations) leave an entry whose time is
				// exactly now alive; now.Before(stamp) and stamp.After(now) (and their negations) expire it
				class := ""
				switch {
				case name == "(time.Time).Before" && stampFirst, name == "(time.Time).After" && !stampFirst:
					class = "alive at the instant of expiry"
				case name == "(time.Time).Before" && !stampFirst, name == "(time.Time).After" && stampFirst:
					class = "expired at the instant of expiry"
				default:
					r.Undecided("C18-EXPIRY-AGREE", c, p.Pos(call.Pos()), "expiry decided with Compare/Equal: the boundary side is not classified")
					continue
				}
				classes[class] = append(classes[class], c+" at "+p.Pos(call.Pos()))
			}
		}
		if n < 2 {
			r.Fail("C18-EXPIRY-AGREE: found %d comparisons of an expiry time with now, expected the bucket gate and IsExpired", n)
		}
		if len(classes) <= 1 {
			for cl, sites := range classes {
				for _, s := range sites {
					r.OK("C18-EXPIRY-AGREE", s[:strings.Index(s, " at ")], s[strings.Index(s, " at ")+4:], cl)
				}
			}
		} else {
			// the minority is reported
			var minor string
			for cl, sites := range classes {
				if minor == "" || len(sites) < len(classes[minor]) || (len(sites) == len(classes[minor]) && cl < minor) {
					minor = cl
				}
			}
			for cl, sites := range classes {
				for _, s := range sites {
					c, pos := s[:strings.Index(s, " at ")], s[strings.Index(s, " at ")+4:]
					if cl == minor {
						r.Violation("C18-EXPIRY-AGREE", c, pos, "this comparison treats an entry as "+cl+" while the other expiry comparison(s) treat it as the opposite: Expire(now) removes an entry with ExpiresAt == now only if its bucket happens to be opened by another entry")
					} else {
						r.OK("C18-EXPIRY-AGREE", c, pos, cl)
					}
				}
			}
		}
	}

	// ---- C18-LOCK (shared engine with C14)
	r.Rule("C18-LOCK", "count and buckets are accessed under Cache.mu", 10)
	L := core.NewLocks(p, false)
	mu := needField(r, "p/kademlia", "Cache", "mu")
	bucketsF := needField(r, "p/kademlia", "Cache", "buckets")
	if mu == nil || bucketsF == nil {
		return
	}
	type k struct {
		fn *ssa.Function
		f  *types.Var
	}
	bad := map[k]ssa.Instruction{}
	good := map[k]int{}
	for _, fn := range p.ModFuncs {
		for _, in := range core.AllInstrs(fn) {
			fa, ok := in.(*ssa.FieldAddr)
			if !ok {
				continue
			}
			f, base := core.FieldOfAddr(fa)
			if !core.SameField(f, countF) && !core.SameField(f, bucketsF) {
				continue
			}
			if core.DerivesFromDirect(base, func(v ssa.Value) bool { a, ok := v.(*ssa.Alloc); return ok && a.Parent() == fn }) {
				continue
			}
			write := false
			for _, ref := range *fa.Referrers() {
				if st, ok := ref.(*ssa.Store); ok && st.Addr == ssa.Value(fa) {
					write = true
				}
			}
			mode, held := L.At[in][mu.Origin()]
			if held && (mode || !write) {
				good[k{fn, f.Origin()}]++
			} else {
				bad[k{fn, f.Origin()}] = in
			}
		}
	}
	for kk, n := range good {
		if _, isBad := bad[kk]; !isBad {
			_ = n
			r.OK("C18-LOCK", core.FnName(kk.fn)+" "+kk.f.Name(), p.Pos(kk.fn.Pos()), "accessed with Cache.mu held")
		}
	}
	for kk, in := range bad {
		r.Violation("C18-LOCK", core.FnName(kk.fn)+" "+kk.f.Name(), p.Pos(in.Pos()), "accessed without Cache.mu (or written under the read lock): the count read races with Put/Delete/Expire")
	}
}
