package rules

import (
	"fmt"
	"go/constant"
	"go/token"
	"go/types"
	"sort"
	"strings"

	"golang.org/x/tools/go/ssa"

	"p2pverif/core"
)

func init() { All["C17"] = c17 }

// decoders: functions that turn untrusted bytes/text into values. Every error
// produced inside them must be looked at.
var decoderTable = [][2]string{
	{"", "PeerID.UnmarshalText"},
	{"f/x509", "ParsePublicKey"}, {"f/x509", "ParsePrivateKey"}, {"f/x509", "Registry.ParseVerifier"},
	{"s/udpswarm", "Addr.UnmarshalText"}, {"s/udpswarm", "ParseAddr"},
	{"s/sshswarm", "ParseAddr"},
	{"s/memswarm", "ParseAddr"},
	{"s/multiswarm", "AddrSchema.ParseAddr"},
	{"s/quicswarm", "ParseAddr"}, {"s/p2pkeswarm", "ParseAddr"},
	{"p/p2pke", "parseInitHello"}, {"p/p2pke", "parseRespHello"}, {"p/p2pke", "parseInitDone"},
	{"p/p2pke", "ParseMessage"}, {"p/p2pke", "unmarshal"}, {"p/p2pke", "verifyAuthClaim"}, {"p/p2pke", "Message.GetInitHello"},
	{"p/mbapp", "ParseMessage"},
	{"s/fragswarm", "parseMessage"},
	{"p/p2pmux", "stringDemuxFunc"}, {"p/p2pmux", "varintDemuxFunc"}, {"p/p2pmux", "uint16DemuxFunc"}, {"p/p2pmux", "uint32DemuxFunc"}, {"p/p2pmux", "uint64DemuxFunc"},
	{"s/quicswarm", "readFrame"},
}

var encoderTable = [][2]string{
	{"f/x509", "MarshalPublicKey"}, {"f/x509", "MarshalPrivateKey"},
	{"p/p2pke", "marshal"},
	{"", "PeerID.MarshalText"},
	{"s/quicswarm", "Addr.MarshalText"}, {"s/p2pkeswarm", "Addr.MarshalText"}, {"s/multiswarm", "Addr.MarshalText"},
	{"s/quicswarm", "writeFrame"},
}

// errResultIndex returns the index of the error result of a call, or -1.
func errResultIndex(c *ssa.CallCommon) int {
	sig := c.Signature()
	rs := sig.Results()
	for i := rs.Len() - 1; i >= 0; i-- {
		if core.IsErrorType(rs.At(i).Type()) {
			return i
		}
	}
	return -1
}

// errUses returns the non-debug referrers of the error result of call.
func errValue(call *ssa.Call) (ssa.Value, int) {
	idx := errResultIndex(call.Common())
	if idx < 0 {
		return nil, 0
	}
	if call.Common().Signature().Results().Len() == 1 {
		return call, countRefs(call)
	}
	for _, ref := range *call.Referrers() {
		if e, ok := ref.(*ssa.Extract); ok && e.Index == idx {
			return e, countRefs(e)
		}
	}
	return nil, 0
}

func countRefs(v ssa.Value) int {
	n := 0
	for _, r := range *v.Referrers() {
		if _, ok := r.(*ssa.DebugRef); !ok {
			n++
		}
	}
	return n
}

func c17(r *core.Report) {
	p := r.P
	r.Explanation = "Static necessary conditions of 'keys and identities have one canonical, lossless encoding': (DECODE-ERR) in every decoder of the module every call that returns an error has that result examined (a dropped decode error lets invalid text become some other value); (ENCODE-TOTAL) an encoder never turns an encoding error into normal output, and sibling encoders agree on what they do on that edge; (FIELDS) Marshal, Parse, Equal and IsZero of PublicKey/PrivateKey touch exactly the same field set, which is all fields of the struct; (FP-CANON) every default fingerprinter hashes the re-marshalled canonical key and nothing else, and all layers use the same hash function; (ALPHABET) the peer-id alphabet constant has 64 distinct strictly ascending bytes, the encoding is unpadded, and UnmarshalText checks the length before decoding. Round-trip equality for every OID/key body rests on encoding/asn1 and is not decided."
	r.Assumptions = []string{"encoding/base64 with a strictly ascending alphabet and no padding preserves byte order; encoding/asn1 Marshal/Unmarshal are inverse on the structures used"}
	r.Trusted = []string{"go/types, go/ssa (x/tools v0.29.0)", "encoding/base64, encoding/asn1"}

	// ---- C17-DECODE-ERR
	r.Rule("C17-DECODE-ERR", "in every decoder each error-returning call has its error examined", 20)
	for _, d := range decoderTable {
		fn := needFn(r, d[0], d[1])
		if fn == nil {
			continue
		}
		for _, f := range core.WithAnons(fn) {
			for _, in := range core.AllInstrs(f) {
				call, ok := in.(*ssa.Call)
				if !ok || errResultIndex(call.Common()) < 0 {
					continue
				}
				name := core.CalleeName(call.Common())
				if name == "" {
					name = "func value"
				}
				c := core.FnName(f) + " call " + strings.ReplaceAll(name, core.ModPath, "p2p")
				_, uses := errValue(call)
				r.Check(uses > 0, "C17-DECODE-ERR", c, p.Pos(call.Pos()), "the error result is examined",
					"the error returned by "+name+" is discarded: malformed input is accepted and decoded into some other value instead of being rejected")
			}
		}
	}
	// decoders must be complete: any function of the module named Parse*/Unmarshal*/ *DemuxFunc with a []byte parameter must be in the table
	known := map[*ssa.Function]bool{}
	for _, d := range decoderTable {
		if f := p.Func(d[0], d[1]); f != nil {
			known[f] = true
		}
	}
	for _, fn := range p.ModFuncs {
		if fn.Parent() != nil || known[fn] {
			continue
		}
		n := fn.Name()
		if !(strings.HasPrefix(n, "Parse") || strings.HasPrefix(n, "parse") || strings.HasPrefix(n, "Unmarshal") || strings.HasPrefix(n, "unmarshal") || strings.HasSuffix(n, "DemuxFunc")) {
			continue
		}
		hasBytes := false
		for _, prm := range fn.Params {
			if types.Identical(prm.Type(), types.NewSlice(types.Typ[types.Byte])) {
				hasBytes = true
			}
		}
		if !hasBytes || errResultIndex2(fn.Signature) < 0 {
			continue
		}
		if strings.Contains(fn.Pkg.Pkg.Path(), "swarmtest") || strings.Contains(fn.Pkg.Pkg.Path(), "p2ptest") || strings.HasSuffix(fn.Pkg.Pkg.Path(), "/cmd/p2putil") {
			continue
		}
		// thin delegators (a single call returning its results) need no entry
		if isThinDelegator(fn) {
			r.Trivial("C17-DECODE-ERR", core.FnName(fn)+" delegator", p.Pos(fn.Pos()), "returns the results of one inner parser unchanged")
			continue
		}
		r.Undecided("C17-DECODE-ERR", core.FnName(fn)+" not in decoder table", p.Pos(fn.Pos()), "a decoder-shaped function is missing from the decoder table: add it so its error discipline is checked")
	}

	// ---- C17-ENCODE-TOTAL
	r.Rule("C17-ENCODE-TOTAL", "an encoder never turns an encoding error into normal output", 6)
	behaviours := map[string]string{}
	for _, d := range encoderTable {
		fn := needFn(r, d[0], d[1])
		if fn == nil {
			continue
		}
		for _, in := range core.AllInstrs(fn) {
			call, ok := in.(*ssa.Call)
			if !ok || errResultIndex(call.Common()) < 0 {
				continue
			}
			name := core.CalleeName(call.Common())
			if infallibleWriters[name] {
				continue
			}
			c := core.FnName(fn) + " call " + strings.ReplaceAll(name, core.ModPath, "p2p")
			ev, uses := errValue(call)
			if uses == 0 {
				r.Violation("C17-ENCODE-TOTAL", c, p.Pos(call.Pos()), "the encoder discards the error of "+name)
				continue
			}
			_ = ev
			cut := cutErrNilOf(call)
			if core.GuardEdges(fn, cut) == 0 {
				// error returned directly
				r.OK("C17-ENCODE-TOTAL", c, p.Pos(call.Pos()), "the error is passed to the caller")
				behaviours[d[1]] = "return-error"
				continue
			}
			reached := core.Reach(fn, call, cut, nil)
			bad := false
			behaviour := "panic"
			for _, ret := range core.Returns(fn) {
				if !reached[ret] {
					continue
				}
				ei := errResultIndex2(fn.Signature)
				if ei < 0 {
					bad = true
					behaviour = "normal-return"
					continue
				}
				behaviour = "return-error"
				for _, v := range core.ReturnValues(ret, ei) {
					if core.IsNilConst(v) {
						bad = true
					}
				}
			}
			behaviours[d[1]] = behaviour
			r.Check(!bad, "C17-ENCODE-TOTAL", c, p.Pos(call.Pos()), "on the error edge the encoder panics or returns the error",
				"on the error edge of "+name+" the encoder returns normally with its output unchanged: every value the codec rejects encodes to the same (empty) bytes, so distinct keys share one encoding and one fingerprint")
		}
	}
	r.Check(behaviours["MarshalPublicKey"] == behaviours["MarshalPrivateKey"], "C17-ENCODE-TOTAL", "MarshalPublicKey/MarshalPrivateKey agreement", "-",
		"the sibling encoders treat an encoding error the same way ("+behaviours["MarshalPublicKey"]+")",
		fmt.Sprintf("sibling encoders disagree on the encoding-error edge: MarshalPublicKey=%s, MarshalPrivateKey=%s", behaviours["MarshalPublicKey"], behaviours["MarshalPrivateKey"]))

	// ---- C17-RAW-PINNED: the decoder is encoding/asn1; an encoder path that emits a key field's bytes itself
	// (behind a hand-written header, a cached prefix) writes lengths the codec would have computed. Such a path
	// agrees with the decoder for one field length only, so it must be entered on a len(field) == constant edge.
	r.Rule("C17-RAW-PINNED", "a key encoder appends a field's bytes outside the asn1 codec only where the field's length is pinned by an equality check", 2)
	for _, d := range [][2]string{{"f/x509", "MarshalPublicKey"}, {"f/x509", "MarshalPrivateKey"}} {
		fn := needFn(r, d[0], d[1])
		if fn == nil {
			continue
		}
		r.Analysed(fn)
		raw := 0
		for _, in := range core.AllInstrs(fn) {
			call, ok := in.(*ssa.Call)
			if !ok || !core.IsBuiltin(call.Common(), "append") || len(call.Call.Args) < 2 {
				continue
			}
			var fld *types.Var
			core.BackingOrigins(p, call.Call.Args[1], 0, func(x ssa.Value) bool {
				if f, _ := core.FieldRead(x); f != nil {
					if sl, isSl := f.Type().Underlying().(*types.Slice); isSl {
						if b, isB := sl.Elem().Underlying().(*types.Basic); isB && b.Kind() == types.Byte && fld == nil {
							fld = f
						}
					}
					return false
				}
				_, isCall := x.(*ssa.Call)
				_, isExt := x.(*ssa.Extract)
				return !isCall && !isExt
			})
			if fld == nil {
				continue
			}
			raw++
			pinned := core.CutWhere(func(cond ssa.Value) int {
				b, ok := cond.(*ssa.BinOp)
				if !ok || (b.Op != token.EQL && b.Op != token.NEQ) {
					return 0
				}
				isLenOf := func(v ssa.Value) bool {
					c, ok := v.(*ssa.Call)
					if !ok || !core.IsBuiltin(c.Common(), "len") {
						return false
					}
					f, _ := core.FieldRead(c.Call.Args[0])
					return f != nil && f == fld
				}
				_, kx := core.ConstInt(b.X)
				_, ky := core.ConstInt(b.Y)
				if !((isLenOf(b.X) && ky) || (isLenOf(b.Y) && kx)) {
					return 0
				}
				if b.Op == token.EQL {
					return 1
				}
				return -1
			})
			// cut the edges on which the length is pinned: the append must then be unreachable
			unpinned := core.Reach(fn, nil, pinned, nil)[in]
			r.Check(!unpinned, "C17-RAW-PINNED", fmt.Sprintf("%s raw append of %s #%d", core.FnName(fn), fld.Name(), raw), p.Pos(call.Pos()),
				"reached only where len("+fld.Name()+") equals a constant",
				"the encoder appends "+fld.Name()+" itself, outside encoding/asn1, for every length of the field: the lengths in the bytes it wrote in front are right for one length only, every other key of that kind encodes to bytes ParsePublicKey rejects or reads as a different key")
		}
		if raw == 0 {
			r.OK("C17-RAW-PINNED", core.FnName(fn)+" no raw append", p.Pos(fn.Pos()), "every byte of the output comes from encoding/asn1.Marshal")
		}
	}

	// ---- C17-FIELDS
	r.Rule("C17-FIELDS", "Marshal/Parse/Equal/IsZero of a key type touch the same field set: all fields", 7)
	ruleKeyFields(r, "C17-FIELDS", false)

	// ---- C17-EQUAL-TWO-SIDED: "equal exactly when the encodings are equal" makes EqualPublicKeys an equivalence;
	// in particular a key equals itself. Every branch of the function must therefore compare something of a with
	// something of b: a condition that looks at one operand only (an unset test, a length test) makes some key
	// unequal to itself (or to its own re-parsed encoding).
	r.Rule("C17-EQUAL-TWO-SIDED", "every branch condition of EqualPublicKeys depends on both operands", 1)
	if eq := needFn(r, "f/x509", "EqualPublicKeys"); eq != nil && len(eq.Params) == 2 {
		r.Analysed(eq)
		nIf := 0
		bad := ""
		for _, blk := range eq.Blocks {
			iff, ok := blk.Instrs[len(blk.Instrs)-1].(*ssa.If)
			if !ok {
				continue
			}
			nIf++
			conds := []ssa.Value{iff.Cond}
			// short-circuit chains are phis of the operand conditions: look at each operand
			if ph, isPhi := iff.Cond.(*ssa.Phi); isPhi {
				conds = nil
				for _, e := range ph.Edges {
					if _, isK := core.ConstBool(e); !isK {
						conds = append(conds, e)
					}
				}
			}
			for _, cnd := range conds {
				fromA := core.DerivesFrom(cnd, func(x ssa.Value) bool { return x == ssa.Value(eq.Params[0]) })
				fromB := core.DerivesFrom(cnd, func(x ssa.Value) bool { return x == ssa.Value(eq.Params[1]) })
				if fromA != fromB {
					bad = p.Pos(cnd.Pos())
				}
			}
		}
		// conditions that feed a phi without being a branch themselves (a || b): the single-operand tests are
		// the If conditions of the predecessor blocks and are visited above
		r.Check(bad == "" && nIf > 0, "C17-EQUAL-TWO-SIDED", core.FnName(eq), p.Pos(eq.Pos()), "each condition compares the two keys with each other",
			"a branch of EqualPublicKeys (at "+bad+") looks at one key only: some key is then not equal to itself, nor to the key parsed back from its own encoding, although both encode to the same bytes")
	}

	// ---- C17-FP-CANON
	r.Rule("C17-FP-CANON", "default fingerprinters hash the canonical re-marshalled key only, with the same hash everywhere", 7)
	marshalPK := needFn(r, "f/x509", "MarshalPublicKey")
	hashes := map[string]string{}
	for _, fp := range [][2]string{{"s/p2pkeswarm", "DefaultFingerprinter"}, {"s/quicswarm", "DefaultFingerprinter"}} {
		fn := needFn(r, fp[0], fp[1])
		if fn == nil || marshalPK == nil {
			continue
		}
		var hashCall *ssa.Call
		for _, in := range core.AllInstrs(fn) {
			call, ok := in.(*ssa.Call)
			if !ok {
				continue
			}
			name := core.CalleeName(call.Common())
			if strings.HasPrefix(name, "golang.org/x/crypto/sha3.") || strings.HasPrefix(name, "crypto/sha") || strings.HasPrefix(name, "golang.org/x/crypto/blake2") {
				hashCall = call
			}
		}
		c := core.FnName(fn)
		if hashCall == nil {
			r.Violation("C17-FP-CANON", c+" hash", p.Pos(fn.Pos()), "no hash call found in the fingerprinter")
			continue
		}
		hashes[fp[0]] = core.CalleeName(hashCall.Common())
		// the hashed bytes are exactly the MarshalPublicKey(nil, key) output
		okIn := false
		for _, a := range hashCall.Call.Args {
			if !types.Identical(a.Type(), types.NewSlice(types.Typ[types.Byte])) {
				continue
			}
			if c2, _, ok := core.CallResult(a); ok && core.IsCallToFn(c2.Common(), marshalPK) {
				if core.IsNilConst(c2.Call.Args[0]) && core.DerivesFromDirect(c2.Call.Args[1], func(x ssa.Value) bool { _, isP := x.(*ssa.Parameter); return isP }) {
					okIn = true
				}
			}
		}
		// the key argument is used for nothing but the canonical re-marshalling: any
		// other use (a field read feeding a cache key, a log, a second hash) makes the
		// result depend on part of the key or on history
		{
			prm := fn.Params[0]
			var uses []ssa.Instruction
			for _, ref := range *prm.Referrers() {
				if st, ok := ref.(*ssa.Store); ok && st.Val == ssa.Value(prm) {
					if a, ok := st.Addr.(*ssa.Alloc); ok {
						for _, r2 := range *a.Referrers() {
							if r2 != ssa.Instruction(st) {
								uses = append(uses, r2)
							}
						}
						continue
					}
				}
				uses = append(uses, ref)
			}
			okOnly := true
			bad := ""
			for _, u := range uses {
				if _, isDbg := u.(*ssa.DebugRef); isDbg {
					continue
				}
				if cc, ok := u.(*ssa.Call); ok && core.IsCallToFn(cc.Common(), marshalPK) {
					continue
				}
				okOnly = false
				bad = p.Pos(u.Pos())
			}
			r.Check(okOnly, "C17-FP-CANON", c+" key used only canonically", p.Pos(fn.Pos()), "the key argument is used only as the argument of x509.MarshalPublicKey", "the fingerprinter uses the key other than through its canonical encoding (at "+bad+"): the peer id can depend on part of the key (e.g. its bytes without the algorithm) or on what was fingerprinted before")
			// and every return value comes from the hash
			okRet := true
			for _, ret := range core.Returns(fn) {
				for _, v := range core.ReturnValues(ret, 0) {
					if core.DerivesFromDirect(v, func(x ssa.Value) bool { return x == ssa.Value(hashCall) }) || returnsHashOutput(v, hashCall) {
						continue
					}
					// a memo is acceptable when it is keyed by the canonical encoding
					fromCanon := func(k ssa.Value) bool {
						return core.DerivesFromDirect(k, func(y ssa.Value) bool {
							c2, _, ok := core.CallResult(y)
							return ok && core.IsCallToFn(c2.Common(), marshalPK)
						})
					}
					if core.DerivesFromDirect(v, func(x ssa.Value) bool {
						switch y := x.(type) {
						case *ssa.Lookup:
							return fromCanon(y.Index)
						case *ssa.Extract:
							if c2, ok := y.Tuple.(*ssa.Call); ok && core.CalleeName(c2.Common()) == "(*sync.Map).Load" {
								return fromCanon(c2.Call.Args[1])
							}
						}
						return false
					}) {
						continue
					}
					okRet = false
				}
			}
			r.Check(okRet, "C17-FP-CANON", c+" result", p.Pos(fn.Pos()), "every returned id is the hash output", "a path returns an id that is not the hash of the canonical key")
		}
		r.Check(okIn, "C17-FP-CANON", c+" input", p.Pos(hashCall.Pos()), "the hash input is x509.MarshalPublicKey(nil, key) of the key argument", "the fingerprint is not a hash of the canonical re-marshalled key alone (wire bytes or extra data make one key have several identities)")
	}
	{
		var names []string
		for _, v := range hashes {
			names = append(names, v)
		}
		sort.Strings(names)
		same := len(names) == 2 && names[0] == names[1]
		r.Check(same, "C17-FP-CANON", "cross-layer hash agreement", "-", "all default fingerprinters use "+strings.Join(names, ", "),
			fmt.Sprintf("the layers compute the peer id of one key with different hash functions (%s): the same key has two identities, one per transport", strings.Join(names, " vs ")))
	}

	// ---- C17-ALPHABET
	// ---- C17-OID-CODEC: the algorithm identifier is stored as 8 big-endian bytes per arc; New encodes
	// and At decodes. They must use the same fixed-width codec over the same 8 bytes, or identifiers with
	// bytes >= 0x80 (rsaEncryption 1.2.840.113549…, any arc >= 128) come back different: marshal/parse
	// stops round-tripping and distinct keys collide
	r.Rule("C17-OID-CODEC", "oids.New and OID.At use the same fixed-width codec over the same 8 bytes per arc", 2)
	if nw, at := needFn(r, "f/x509/oids", "New"), needFn(r, "f/x509/oids", "OID.At"); nw != nil && at != nil {
		ef, _ := codecCalls(nw, "enc")
		df, dcalls := codecCalls(at, "dec")
		okFam := len(ef) == 1 && len(df) == 1 && ef[0] == df[0]
		r.Check(okFam, "C17-OID-CODEC", "oids.New / OID.At codec", p.Pos(at.Pos()), fmt.Sprintf("arcs are written with %v and read with %v", ef, df), fmt.Sprintf("oids.New writes arcs with %v but OID.At reads them with %v (no library decoder of the same family: e.g. a hand-written loop over the string, which iterates runes, not bytes)", ef, df))
		if okFam {
			w := familyWidth[ef[0]]
			okWin := false
			sField := needField(r, "f/x509/oids", "OID", "s")
			// the decoder's input is oid.s[begin:end] with end - begin == width and begin == i*width
			core.BackSlice(dcalls[0].Call.Args[len(dcalls[0].Call.Args)-1], func(x ssa.Value) bool {
				sl, ok := x.(*ssa.Slice)
				if !ok || sl.Low == nil || sl.High == nil {
					return true
				}
				if f, _ := core.FieldRead(core.Through(sl.X)); !core.SameField(f, sField) {
					return true
				}
				hi, ok1 := core.Through(sl.High).(*ssa.BinOp)
				lo, ok2 := core.Through(sl.Low).(*ssa.BinOp)
				if ok1 && ok2 && hi.Op == token.ADD && core.Through(hi.X) == ssa.Value(lo) && lo.Op == token.MUL {
					k1, isK1 := core.ConstInt(hi.Y)
					k2, isK2 := core.ConstInt(lo.Y)
					if isK1 && isK2 && k1 == w && k2 == w && core.Through(lo.X) == ssa.Value(at.Params[1]) {
						okWin = true
					}
				}
				return true
			})
			r.Check(okWin, "C17-OID-CODEC", "OID.At window", p.Pos(at.Pos()), fmt.Sprintf("arc i is decoded from bytes [i*%d, i*%d+%d) of the stored string", w, w, w), "OID.At does not decode arc i from its own 8 bytes")
		}
	}

	// ---- C17-OPTIONS-FIRST: "every layer computes the peer id from the key the same way" inside one
	// swarm too: a constructor that applies functional options to a config must not read the configured
	// fingerprinter (or key registry) before the options have been applied, or the swarm's own id is
	// computed with the default while every other site uses the configured function
	r.Rule("C17-OPTIONS-FIRST", "constructors read the configured fingerprinter/registry only after the options loop", 1)
	nOpt := 0
	for _, fn := range p.ModFuncs {
		if strings.Contains(fn.String(), "_test") {
			continue
		}
		// the options loop: opt(&config) with opt an element of a slice-of-func parameter
		var header *ssa.BasicBlock
		var cell *ssa.Alloc
		for _, in := range core.AllInstrs(fn) {
			c, ok := in.(*ssa.Call)
			if !ok || c.Call.IsInvoke() || len(c.Call.Args) != 1 {
				continue
			}
			ld, ok := core.Through(c.Call.Value).(*ssa.UnOp)
			if !ok {
				continue
			}
			ia, ok := ld.X.(*ssa.IndexAddr)
			if !ok {
				continue
			}
			if prm, isP := core.Through(ia.X).(*ssa.Parameter); !isP || !prm.Parent().Signature.Variadic() {
				continue
			}
			a, ok := c.Call.Args[0].(*ssa.Alloc)
			if !ok {
				continue
			}
			if ph, isPhi := core.Through(ia.Index).(*ssa.BinOp); isPhi {
				if pp, ok2 := ph.X.(*ssa.Phi); ok2 {
					header, cell = pp.Block(), a
				}
			}
			if pp, ok2 := core.Through(ia.Index).(*ssa.Phi); ok2 {
				header, cell = pp.Block(), a
			}
		}
		if header == nil {
			continue
		}
		early := core.Reach(fn, nil, nil, func(in ssa.Instruction) bool { return in.Block() == header })
		for _, in := range core.AllInstrs(fn) {
			fa, ok := in.(*ssa.FieldAddr)
			if !ok || fa.X != ssa.Value(cell) {
				continue
			}
			f, _ := core.FieldOfAddr(fa)
			if f == nil || (f.Name() != "fingerprinter" && f.Name() != "registry") {
				continue
			}
			// reads only (the defaults are stored before the loop)
			isRead := false
			for _, ref := range *fa.Referrers() {
				if u, ok := ref.(*ssa.UnOp); ok && u.Op == token.MUL {
					isRead = true
				}
			}
			if !isRead {
				continue
			}
			nOpt++
			r.Check(!early[in] || in.Block() == header, "C17-OPTIONS-FIRST", core.FnName(fn)+" reads "+f.Name(), p.Pos(fa.Pos()), "the configured "+f.Name()+" is read after the options were applied", "the constructor reads config."+f.Name()+" before it has applied its options: the swarm's own peer id (or key) is derived with the default while AcceptKey, the dial-side check and Message.Src use the configured one, so the advertised id is not the fingerprint of the swarm's key and peers that dial it reject the handshake")
		}
	}
	if nOpt == 0 {
		r.Fail("C17-OPTIONS-FIRST: no constructor reading a configured fingerprinter/registry found (anchor stale)")
	}

	r.Rule("C17-ALPHABET", "peer-id alphabet strictly ascending, unpadded encoding, length checked before decoding", 3)
	{
		obj, _ := p.Object(core.ModPath, "Base64Alphabet").(*types.Const)
		if obj == nil {
			r.Fail("unresolved anchor: constant Base64Alphabet")
		} else {
			s := constant.StringVal(obj.Val())
			ok := len(s) == 64
			for i := 1; i < len(s); i++ {
				if s[i-1] >= s[i] {
					ok = false
				}
			}
			r.Check(ok, "C17-ALPHABET", "Base64Alphabet", p.Pos(obj.Pos()), "64 distinct bytes in strictly ascending order (text order = byte order)", "the alphabet is not 64 strictly ascending bytes: encoded ids do not sort like the ids, or two sextets share a character")
		}
		// enc = base64.NewEncoding(Base64Alphabet).WithPadding(NoPadding)
		rootPkg := p.SSA.Package(p.Pkg("").Types)
		okEnc := false
		if init := rootPkg.Func("init"); init != nil {
			for _, in := range core.AllInstrs(init) {
				st, ok := in.(*ssa.Store)
				if !ok {
					continue
				}
				g, ok := st.Addr.(*ssa.Global)
				if !ok || g.Name() != "enc" {
					continue
				}
				c1, _, ok := core.CallResult(st.Val)
				if !ok || core.CalleeName(c1.Common()) != "(encoding/base64.Encoding).WithPadding" {
					continue
				}
				pad, isK := core.ConstInt(c1.Call.Args[1])
				a0 := c1.Call.Args[0]
				if u, isU := a0.(*ssa.UnOp); isU {
					a0 = u.X
				}
				c2, _, ok2 := core.CallResult(a0)
				if !isK || pad != -1 || !ok2 || core.CalleeName(c2.Common()) != "encoding/base64.NewEncoding" {
					continue
				}
				if k, ok := c2.Call.Args[0].(*ssa.Const); ok && k.Value != nil && obj != nil && constant.StringVal(k.Value) == constant.StringVal(obj.Val()) {
					okEnc = true
				}
			}
		}
		r.Check(okEnc, "C17-ALPHABET", "enc construction", "-", "enc = base64.NewEncoding(Base64Alphabet).WithPadding(NoPadding)", "the peer-id encoding is not built from Base64Alphabet without padding")
		// UnmarshalText: Decode is guarded by the length comparison
		ruleBase64DecodeFits(r, "C17-ALPHABET", "text of the wrong length is decoded: short or long text yields an identity")
	}
}

func errResultIndex2(sig *types.Signature) int {
	rs := sig.Results()
	for i := rs.Len() - 1; i >= 0; i-- {
		if core.IsErrorType(rs.At(i).Type()) {
			return i
		}
	}
	return -1
}

// isThinDelegator: the function body is one call whose results are returned unchanged.
func isThinDelegator(fn *ssa.Function) bool {
	if len(fn.Blocks) != 1 {
		return false
	}
	calls := 0
	for _, in := range fn.Blocks[0].Instrs {
		if c, ok := in.(*ssa.Call); ok {
			if b, isB := c.Call.Value.(*ssa.Builtin); isB && b.Name() != "" {
				continue
			}
			calls++
		}
	}
	return calls == 1
}

// infallibleWriters: documented to always return a nil error.
var infallibleWriters = map[string]bool{
	"(*bytes.Buffer).Write": true, "(*bytes.Buffer).WriteString": true, "(*bytes.Buffer).WriteByte": true,
	"(*strings.Builder).Write": true, "(*strings.Builder).WriteString": true, "(*strings.Builder).WriteByte": true,
}

// returnsHashOutput: v is (a load of) the buffer the hash call wrote into
// (sha3.ShakeSum256(ret[:], data) fills its first argument).
func returnsHashOutput(v ssa.Value, hash *ssa.Call) bool {
	if len(hash.Call.Args) == 0 {
		return false
	}
	out := hash.Call.Args[0]
	// out = slice of an array cell; v = load of that cell
	cell := core.CellOf(v)
	if cell == nil {
		return false
	}
	return core.DerivesFromDirect(out, func(x ssa.Value) bool { return x == ssa.Value(cell) })
}

// ruleKeyFields (shared by C17 and, for EqualPublicKeys only, by C05): the codec, equality and zero
// functions of a key type touch every field of the type.
func ruleKeyFields(r *core.Report, ruleID string, equalOnly bool) {
	p := r.P
	for _, kt := range []struct {
		typ   string
		funcs []string
	}{
		{"PublicKey", []string{"MarshalPublicKey", "ParsePublicKey", "EqualPublicKeys", "PublicKey.IsZero"}},
		{"PrivateKey", []string{"MarshalPrivateKey", "ParsePrivateKey", "PrivateKey.IsZero"}},
	} {
		n := needNamed(r, "f/x509", kt.typ)
		if n == nil {
			continue
		}
		st := n.Underlying().(*types.Struct)
		all := map[string]bool{}
		for i := 0; i < st.NumFields(); i++ {
			all[st.Field(i).Name()] = true
		}
		for _, fnm := range kt.funcs {
			if equalOnly && fnm != "EqualPublicKeys" {
				continue
			}
			fn := needFn(r, "f/x509", fnm)
			if fn == nil {
				continue
			}
			touched := map[string]bool{}
			for _, in := range core.AllInstrs(fn) {
				switch x := in.(type) {
				case *ssa.FieldAddr:
					if isNamed(x.X.Type(), n) {
						f, _ := core.FieldOfAddr(x)
						touched[f.Name()] = true
					}
				case *ssa.Field:
					if isNamed(x.X.Type(), n) {
						touched[st.Field(x.Field).Name()] = true
					}
				}
			}
			missing := []string{}
			for f := range all {
				if !touched[f] {
					missing = append(missing, f)
				}
			}
			sort.Strings(missing)
			r.Check(len(missing) == 0, ruleID, core.FnName(fn), p.Pos(fn.Pos()), "touches every field of "+kt.typ,
				fmt.Sprintf("does not touch field(s) %v of %s: two keys that differ there are treated as the same key (or the field is lost in a round trip)", missing, kt.typ))
		}
		// Equal must compare each field of a with the same field of b
	}

}

// ruleBase64DecodeFits: base64's Decode writes DecodedLen(len(src)) bytes into dst and indexes past a shorter
// dst (a run-time panic). Every module call of (*base64.Encoding).Decode is reached only on the edge where
// len(src) equals the encoding's EncodedLen(...). Shared by C17 (only text of an id's length is an id), C16
// (parsing arbitrary address text fails cleanly) and C08 (no text from the network panics).
func ruleBase64DecodeFits(r *core.Report, ruleID, whyBad string) {
	p := r.P
	n := 0
	for _, fn := range p.ModFuncs {
		if strings.Contains(fn.String(), "swarmtest") || strings.Contains(fn.String(), "p2ptest") {
			continue
		}
		for _, ci := range core.CallsToName(fn, "(*encoding/base64.Encoding).Decode") {
			n++
			r.Analysed(fn)
			cut := core.CutWhere(func(cond ssa.Value) int {
				b, ok := cond.(*ssa.BinOp)
				if !ok || !isLenCall(b.X) {
					return 0
				}
				y := b.Y
				if gv := p.GlobalInit(y); gv != nil {
					y = gv // a package-level variable initialised once from EncodedLen(...)
				}
				c2, _, ok := core.CallResult(y)
				if !ok || core.CalleeName(c2.Common()) != "(*encoding/base64.Encoding).EncodedLen" {
					return 0
				}
				switch b.Op.String() {
				case "!=":
					return -1
				case "==":
					return 1
				}
				return 0
			})
			okLen := core.GuardEdges(fn, cut) > 0 && core.GuardedFromEntry(fn, ci.(ssa.Instruction), cut)
			r.Check(okLen, ruleID, core.FnName(fn)+" length check", p.Pos(fn.Pos()), "decoding happens only when the text has exactly the encoded length of the destination", whyBad)
		}
	}
	if n == 0 {
		r.Fail("%s: no base64 Decode call found in the module (anchor stale)", ruleID)
	}
}
