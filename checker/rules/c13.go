package rules

import (
	"fmt"
	"go/token"
	"go/types"
	"sort"
	"strings"

	"golang.org/x/tools/go/ssa"

	"p2pverif/core"
)

func init() { All["C13"] = c13 }

// ctxMethods returns the declared module methods with one of the given names
// whose first parameter is a context.Context.
func ctxMethods(p *core.Prog, names ...string) []*ssa.Function {
	want := map[string]bool{}
	for _, n := range names {
		want[n] = true
	}
	var out []*ssa.Function
	for _, fn := range p.ModFuncs {
		if fn.Parent() != nil || fn.Signature.Recv() == nil || !want[fn.Name()] {
			continue
		}
		ps := fn.Signature.Params()
		if ps.Len() == 0 || !core.IsContextType(ps.At(0).Type()) {
			continue
		}
		if strings.Contains(fn.Pkg.Pkg.Path(), "/swarmtest") || strings.Contains(fn.Pkg.Pkg.Path(), "/p2ptest") {
			continue
		}
		out = append(out, fn)
	}
	return out
}

// ctxParam returns fn's context parameter (first non-receiver parameter of
// type context.Context) or, for a literal, a captured context.
func ctxParam(fn *ssa.Function) ssa.Value {
	for _, pr := range fn.Params {
		if core.IsContextType(pr.Type()) {
			return pr
		}
	}
	return nil
}

// derivesFromCtx: v is the function's ctx parameter or a context derived from
// it (context.With*, logctx.NewContext, captured).
func derivesFromCtx(v ssa.Value, fn *ssa.Function) bool {
	return core.DerivesFrom(v, func(x ssa.Value) bool {
		if pr, ok := x.(*ssa.Parameter); ok && core.IsContextType(pr.Type()) {
			// parameter of fn or of an enclosing function
			for f := fn; f != nil; f = f.Parent() {
				if pr.Parent() == f {
					return true
				}
			}
		}
		return false
	})
}

// staticReach: module functions reachable from fn through static calls and
// literals, up to depth. Functions started with a `go` statement are not part
// of the caller's request path and are excluded.
func staticReach(p *core.Prog, fn *ssa.Function, depth int) []*ssa.Function {
	seen := map[*ssa.Function]bool{fn: true}
	out := []*ssa.Function{fn}
	frontier := []*ssa.Function{fn}
	for d := 0; d < depth; d++ {
		var next []*ssa.Function
		for _, f := range frontier {
			spawned := map[*ssa.Function]bool{}
			for _, in := range core.AllInstrs(f) {
				if g, ok := in.(*ssa.Go); ok {
					if c := core.StaticCallee(g.Common()); c != nil {
						spawned[c] = true
					}
					if c := core.ClosureFn(g.Common().Value); c != nil {
						spawned[c] = true
					}
				}
			}
			for _, c := range p.Callees(f, nil) {
				if !seen[c] && !spawned[c] {
					seen[c] = true
					out = append(out, c)
					next = append(next, c)
				}
			}
		}
		frontier = next
	}
	return out
}

func c13(r *core.Report) {
	p := r.P
	r.Explanation = "Static necessary conditions of 'cancellation is prompt and each message is handed to exactly one receiver': (SELECT-CTX) every blocking select/receive on the Receive/ServeAsk/Ask paths of swarmutil and of every swarm has a case on a context derived from the caller's; (CTX-EXTERNAL) every call on those paths to a blocking external operation (socket read, dial, SSH request, QUIC stream I/O) is given a context derived from the caller's or is made interruptible by a cancellation watcher; (COMMIT) TellHub.Deliver/AskHub.Deliver have exactly one blocking select, the rendezvous-send case is followed on every path by an unconditional wait for the request's completion and a nil error, and a nil error is returned on no other path; (DONE-AFTER-CALLBACK) after the rendezvous receive every path calls the user callback exactly once (not in a loop) and signals completion only after it, with the ask result stored before the signal; (RENDEZVOUS) the rendezvous channels are unbuffered, never closed and received from only by Receive/ServeAsk. Linearizability of deliver/receive/cancel histories is not decided."
	r.Assumptions = []string{"Go channel semantics: an unbuffered send completes with exactly one receive", "the blocking-externals table lists the blocking dependency calls on these paths (enumerated from the call sites; an unlisted external call with no context argument on these paths is reported)"}
	r.Trusted = []string{"go/types, go/ssa (x/tools v0.29.0)"}
	h := resolveHubs(r)
	askDone := needField(r, "p/mbapp", "ask", "done")
	if len(r.Failures) > 0 {
		return
	}

	// ---- C13-SELECT-CTX
	r.Rule("C13-SELECT-CTX", "every blocking select/receive on the Receive/ServeAsk/Ask paths has a case on a context derived from the caller's", 8)
	roots := ctxMethods(p, "Receive", "ServeAsk", "Ask")
	roots = append(roots, h.fns["TellHub.Deliver"], h.fns["AskHub.Deliver"])
	seenFn := map[*ssa.Function]bool{}
	var pathFns []*ssa.Function
	for _, root := range roots {
		for _, f := range staticReach(p, root, 3) {
			if !seenFn[f] {
				seenFn[f] = true
				pathFns = append(pathFns, f)
			}
		}
	}
	// functions on these paths that are *not* bound by the caller's context by
	// design: the p2pke channel internals are driven by Send/WaitReady which have
	// their own rule below; timers and cleanup loops are not on the request path.
	for _, fn := range pathFns {
		r.Analysed(fn)
		for _, op := range core.BlockingOps(fn) {
			c := core.FnName(fn) + " " + describeOp(op)
			pos := p.Pos(op.Instr.Pos())
			st0 := op.States[0]
			switch op.Kind {
			case "select":
				ok := hasState(op, func(s core.SelState) bool {
					return s.Dir == types.RecvOnly && s.Chan.Kind == "ctx" && derivesFromCtx(s.Chan.Base, fn)
				})
				r.Check(ok, "C13-SELECT-CTX", c, pos, "has a case on ctx.Done() of a context derived from the caller's", "blocking select does not watch the caller's context: cancellation is not observed here")
			case "recv":
				f := st0.Chan.Field
				switch {
				case st0.Chan.Kind == "field" && (core.SameField(f, h.drDone) || core.SameField(f, h.srDone)):
					r.OK("C13-SELECT-CTX", c, pos, "audited: post-commit wait (the deliverer is committed once a receiver took the request; rule C13-COMMIT)")
				case st0.Chan.Kind == "field" && core.SameField(f, h.queueQ):
					r.OK("C13-SELECT-CTX", c, pos, "audited: Purge/Close drain under len()>0 / after close, cannot block")
				default:
					r.Violation("C13-SELECT-CTX", c, pos, "bare blocking receive on a request path ignores the context")
				}
			case "send":
				if st0.Chan.Kind == "field" && core.SameField(st0.Chan.Field, h.freelist) {
					r.OK("C13-SELECT-CTX", c, pos, "audited: freelist has room for every message in circulation")
				} else {
					r.Violation("C13-SELECT-CTX", c, pos, "bare blocking send on a request path ignores the context")
				}
			}
		}
	}
	_ = askDone

	// ---- C13-NO-WAIT-UNDER-LOCK: Lock() does not look at a context. If a request path blocks (a select,
	// a channel operation) while it holds a mutex, every other caller that needs the mutex waits in Lock() for
	// as long as the holder waits, whatever happens to its own context.
	r.Rule("C13-NO-WAIT-UNDER-LOCK", "no blocking select or channel operation on the Receive/ServeAsk/Ask paths runs while a mutex may be held (audited: the per-message collector lock)", 8)
	{
		Lmay := core.NewLocks(p, true)
		n := 0
		for _, fn := range pathFns {
			for _, op := range core.BlockingOps(fn) {
				n++
				c := core.FnName(fn) + " " + describeOp(op)
				held := Lmay.At[op.Instr]
				var names []string
				for mu := range held {
					if mu.Name() == "mu" && mu.Pkg() != nil && strings.HasSuffix(fieldOwnerName(p, mu), "p/mbapp.collector") {
						continue // audited in C14 (auditedForeign): one message's collector lock, taken by nothing else
					}
					names = append(names, fieldOwnerName(p, mu)+"."+mu.Name())
				}
				sort.Strings(names)
				r.Check(len(names) == 0, "C13-NO-WAIT-UNDER-LOCK", c, p.Pos(op.Instr.Pos()), "no mutex can be held here",
					"blocks while "+strings.Join(names, ", ")+" may be held: a concurrent caller waits in Lock(), which ignores its context, until this wait ends — its cancelled Receive/ServeAsk/Ask does not return")
			}
		}
		if n == 0 {
			r.Fail("C13-NO-WAIT-UNDER-LOCK: no blocking operation found on the request paths")
		}
	}

	// ---- C13-CTX-EXTERNAL
	r.Rule("C13-CTX-EXTERNAL", "blocking external calls on the Receive/ServeAsk/Ask paths receive the caller's context or are interruptible by a cancellation watcher", 6)
	ruleCtxExternal(r, "C13-CTX-EXTERNAL", ctxMethods(p, "Receive", "ServeAsk", "Ask"))

	// ---- C13-COMMIT
	r.Rule("C13-COMMIT", "Deliver: one blocking select; rendezvous send is followed on every path by the completion wait and a nil error; nil error on no other path", 8)
	ruleCommit(r, h, "C13-COMMIT")

	// ---- C13-DONE-AFTER-CALLBACK
	r.Rule("C13-DONE-AFTER-CALLBACK", "after the rendezvous receive every path calls the callback once and signals completion after it", 9)
	ruleDoneAfterCallback(r, h, "C13-DONE-AFTER-CALLBACK")

	// ---- C13-RENDEZVOUS
	// ---- C13-CLOSE-REASON (shared with C12-ERR-NONNIL): a Deliver/Receive/ServeAsk woken by the closed
	// signal returns q.err; it reports success for a message no callback saw (or for no callback at all)
	// unless the reason is non-nil and published BEFORE the signal is raised
	r.Rule("C13-CLOSE-REASON", "the hubs' close reason is provably non-nil and stored before close(closed); closed cases return it", 8)
	ruleHubErrNonNil(r, h, core.NewNonNil(p), "C13-CLOSE-REASON", []*types.Var{h.tellErr, h.askErr},
		[]string{"TellHub.Receive", "TellHub.Deliver", "TellHub.checkClosed", "AskHub.ServeAsk", "AskHub.Deliver", "AskHub.checkClosed", "Queue.Receive"})

	// ---- C13-QUEUE-SLOT (shared with C14-FREELIST): a queue slot handed back before the callback returned is
	// refilled by the next Deliver while the callback still reads it: one message reaches two callbacks, another none
	r.Rule("C13-QUEUE-SLOT", "the bounded queue returns a slot to the freelist only after the receive callback returned, zeroed, and rebuilds a recycled payload from length 0", 3)
	ruleFreelist(r, h, "C13-QUEUE-SLOT")

	r.Rule("C13-RENDEZVOUS", "rendezvous channels are unbuffered, never closed and received from only by Receive/ServeAsk", 5)
	for _, d := range []struct {
		fld     *types.Var
		allowed string
	}{{h.tellDelivers, "TellHub.Receive"}, {h.askReqs, "AskHub.ServeAsk"}} {
		made := 0
		for _, fn := range p.ModFuncs {
			for _, in := range core.AllInstrs(fn) {
				switch x := in.(type) {
				case *ssa.Store:
					if f, _ := core.FieldOfAddr(x.Addr); core.SameField(f, d.fld) {
						made++
						mc, ok := core.Peel(x.Val).(*ssa.MakeChan)
						size, isConst := int64(-1), false
						if ok {
							size, isConst = core.ConstInt(mc.Size)
						}
						r.Check(ok && isConst && size == 0, "C13-RENDEZVOUS", core.FnName(fn)+" make "+d.fld.Name(), p.Pos(x.Pos()), "made with capacity 0", "rendezvous channel is buffered or not freshly made: a request can be accepted with no receiver committed to it")
					}
				case ssa.CallInstruction:
					if core.IsBuiltin(x.Common(), "close") {
						cr := core.ClassifyChan(x.Common().Args[0])
						if cr.Kind == "field" && core.SameField(cr.Field, d.fld) {
							r.Violation("C13-RENDEZVOUS", core.FnName(fn)+" close "+d.fld.Name(), p.Pos(in.Pos()), "rendezvous channel is closed: a concurrent Deliver panics on send")
						}
					}
				case *ssa.Select:
					for _, st := range x.States {
						cr := core.ClassifyChan(st.Chan)
						if st.Dir == types.RecvOnly && cr.Kind == "field" && core.SameField(cr.Field, d.fld) {
							r.Check(fn == h.fns[d.allowed], "C13-RENDEZVOUS", core.FnName(fn)+" recv "+d.fld.Name(), p.Pos(x.Pos()), "received only by "+d.allowed, "another function consumes requests from the rendezvous channel")
						}
					}
				case *ssa.UnOp:
					if x.Op == token.ARROW {
						cr := core.ClassifyChan(x.X)
						if cr.Kind == "field" && core.SameField(cr.Field, d.fld) {
							r.Check(fn == h.fns[d.allowed], "C13-RENDEZVOUS", core.FnName(fn)+" recv "+d.fld.Name(), p.Pos(x.Pos()), "received only by "+d.allowed, "another function consumes requests from the rendezvous channel")
						}
					}
				}
			}
		}
		if made == 0 {
			r.Fail("no construction of %s found", d.fld.Name())
		}
	}
	// composite literals: NewTellHub/NewAskHub build the struct by value; the
	// field stores above cover them because go/ssa lowers literals to stores.
}

// hasCancelWatcher: fn (or the root request method) installs something that
// interrupts blocking I/O when the caller's context is cancelled:
// context.AfterFunc(ctx, …), or a `go` literal that selects on ctx.Done().
func hasCancelWatcher(fn, root *ssa.Function) bool {
	// the watcher may be registered in the root, in a literal of the root that runs the I/O
	// (quicswarm: the withSession callback), or in the function that blocks
	cands := append([]*ssa.Function{fn}, core.WithAnons(root)...)
	for _, f := range cands {
		for _, in := range core.AllInstrs(f) {
			switch x := in.(type) {
			case *ssa.Call:
				if core.CalleeName(x.Common()) == "context.AfterFunc" && len(x.Call.Args) > 0 && derivesFromCtx(x.Call.Args[0], f) {
					// the watcher must be registered on EVERY path that reaches the blocking operation,
					// not only when, say, the context has no deadline: no call in f that leads to fn (or
					// the blocking call itself) is reachable from f's entry without passing the registration
					reachNoWatch := core.Reach(f, nil, nil, func(i2 ssa.Instruction) bool { return i2 == ssa.Instruction(x) })
					uncovered := false
					for i2 := range reachNoWatch {
						c2, ok := i2.(ssa.CallInstruction)
						if !ok || i2 == ssa.Instruction(x) {
							continue
						}
						if g := core.StaticCallee(c2.Common()); g != nil && (g == fn || leadsTo(g, fn, 2)) {
							uncovered = true
						}
					}
					if !uncovered {
						return true
					}
				}
			case *ssa.Go:
				lit := core.ClosureFn(x.Call.Value)
				if lit == nil {
					continue
				}
				for _, op := range core.BlockingOps(lit) {
					if hasState(op, func(s core.SelState) bool { return s.Chan.Kind == "ctx" && derivesFromCtx(s.Chan.Base, lit) }) {
						return true
					}
				}
			}
		}
	}
	return false
}

// ruleCtxExternal: blocking dependency calls on the request paths of roots get
// the caller's context or are interruptible by a cancellation watcher.
func ruleCtxExternal(r *core.Report, ruleID string, roots []*ssa.Function) {
	p := r.P
	// discipline per external callee
	const (
		needCtxArg  = "ctxarg"  // has a context parameter: the argument must derive from the caller's
		needWatcher = "watcher" // has no context parameter: the function must install a cancellation watcher derived from the caller's context
	)
	blocking := map[string]string{
		"(*net.UDPConn).ReadFromUDP":                             needWatcher,
		"net.Dial":                                               needWatcher,
		"(*net.Dialer).DialContext":                              needCtxArg,
		"golang.org/x/crypto/ssh.NewClientConn":                  needWatcher,
		"(golang.org/x/crypto/ssh.Conn).SendRequest":             needWatcher,
		"(*github.com/quic-go/quic-go.Transport).Dial":           needCtxArg,
		"(github.com/quic-go/quic-go.Connection).OpenStreamSync": needCtxArg,
		"io.ReadFull":                                            needWatcher,
		"encoding/binary.Read":                                   needWatcher,
		"encoding/binary.Write":                                  needWatcher,
		"(net.Buffers).WriteTo":                                  needWatcher,
		"(*net.Buffers).WriteTo":                                 needWatcher,
		"(*golang.org/x/sync/errgroup.Group).Wait":               "join",
	}
	for _, root := range roots {
		for _, fn := range staticReach(p, root, 3) {
			if fn != root && ctxParam(fn) == nil && fn.Parent() == nil {
				// helper without a context of its own: its blocking calls are attributed to the root
			}
			for _, ci := range core.Calls(fn, func(ci ssa.CallInstruction) bool { _, ok := blocking[core.CalleeName(ci.Common())]; return ok }) {
				name := core.CalleeName(ci.Common())
				disc := blocking[name]
				c := fmt.Sprintf("%s via %s call %s", core.FnName(root), core.FnName(fn), name)
				pos := p.Pos(ci.Pos())
				switch disc {
				case needCtxArg:
					ok := false
					for _, a := range ci.Common().Args {
						if core.IsContextType(a.Type()) && derivesFromCtx(a, fn) {
							ok = true
						}
					}
					r.Check(ok, ruleID, c, pos, "receives a context derived from the caller's", "blocking call is given a context unrelated to the caller's")
				case needWatcher:
					if hasCancelWatcher(fn, root) {
						r.OK(ruleID, c, pos, "a watcher derived from the caller's context interrupts the operation")
					} else {
						r.Violation(ruleID, c, pos, "blocking external call cannot be interrupted by cancelling the caller's context (no context argument, no cancellation watcher; a deadline copied from ctx.Deadline() covers deadlines only)")
					}
				case "join":
					r.Trivial(ruleID, c, pos, "joins goroutines whose own blocking calls are checked separately")
				}
			}
		}
	}

}

// ruleCommit: shape of TellHub.Deliver / AskHub.Deliver (shared by C13 and C14:
// the deliverer may reuse its buffer only because Deliver returns success
// strictly after the callback finished).
func ruleCommit(r *core.Report, h *hubSlots, ruleID string, only ...string) {
	p := r.P
	for _, d := range []struct {
		name      string
		rdv, done *types.Var
	}{{"TellHub.Deliver", h.tellDelivers, h.drDone}, {"AskHub.Deliver", h.askReqs, h.srDone}} {
		if len(only) > 0 && !containsStr(only, d.name) {
			continue
		}
		fn := h.fns[d.name]
		var sels []*ssa.Select
		for _, s := range core.AllSelects(fn) {
			if s.Blocking {
				sels = append(sels, s)
			}
		}
		c := core.FnName(fn)
		if len(sels) != 1 {
			r.Violation(ruleID, c+" select count", p.Pos(fn.Pos()), fmt.Sprintf("expected exactly one blocking select, found %d", len(sels)))
			continue
		}
		sel := sels[0]
		sendIdx := -1
		for i, st := range sel.States {
			cr := core.ClassifyChan(st.Chan)
			if st.Dir == types.SendOnly && cr.Kind == "field" && core.SameField(cr.Field, d.rdv) {
				sendIdx = i
			}
		}
		if sendIdx < 0 {
			r.Violation(ruleID, c+" rendezvous send", p.Pos(sel.Pos()), "no send case on the rendezvous channel")
			continue
		}
		blk := core.SelectCaseBlock(sel, sendIdx)
		if blk == nil {
			r.Undecided(ruleID, c+" rendezvous send", p.Pos(sel.Pos()), "cannot locate the send case block")
			continue
		}
		isDoneWait := func(in ssa.Instruction) bool {
			u, ok := in.(*ssa.UnOp)
			if !ok || u.Op != token.ARROW {
				return false
			}
			cr := core.ClassifyChan(u.X)
			return cr.Kind == "field" && core.SameField(cr.Field, d.done)
		}
		first := blk.Instrs[0]
		waits := mustPassAt(fn, first, isDoneWait)
		r.Check(waits, ruleID, c+" commit wait", p.Pos(first.Pos()), "every path after the rendezvous send waits for the completion signal", "after a receiver took the request some path returns without waiting for the callback to finish: the caller may reuse the buffer while the callback reads it")
		// the wait must be unconditional: it is not a select
		fromSend := core.ReachAt(fn, first, nil, nil)
		for _, ret := range core.Returns(fn) {
			ei := len(ret.Results) - 1
			vals := core.ReturnValues(ret, ei)
			allNil := true
			for _, v := range vals {
				if !core.IsNilConst(v) {
					allNil = false
				}
			}
			if fromSend[ret] {
				r.Check(allNil, ruleID, c+" success return", p.Pos(ret.Pos()), "returns a nil error after the callback completed", "returns an error although a receiver saw the message")
			} else {
				anyNil := false
				for _, v := range vals {
					if core.IsNilConst(v) {
						anyNil = true
					}
				}
				r.Check(!anyNil, ruleID, c+" failure return", p.Pos(ret.Pos()), "a path on which no receiver took the request does not return a constant nil error", "returns success although no receiver ever saw the message")
			}
		}
	}

}

// ruleDoneAfterCallback: after the rendezvous receive in TellHub.Receive / AskHub.ServeAsk every
// path calls the callback once and signals completion only after it returned (shared by C13, C14
// and C01: the deliverer's buffer is lent to the callback until the completion signal).
// The callback-and-signal sequence may live in the function itself or in one helper of the module
// that is handed the callback (validated with the same obligations).
func ruleDoneAfterCallback(r *core.Report, h *hubSlots, ruleID string) {
	p := r.P
	for _, d := range []struct {
		name      string
		rdv, done *types.Var
		nField    *types.Var
	}{{"TellHub.Receive", h.tellDelivers, h.drDone, nil}, {"AskHub.ServeAsk", h.askReqs, h.srDone, p.Field("s/swarmutil", "serveReq", "n")}} {
		fn := h.fns[d.name]
		directClose := func(in ssa.Instruction) bool {
			ci, ok := in.(ssa.CallInstruction)
			if !ok || !core.IsBuiltin(ci.Common(), "close") {
				return false
			}
			cr := core.ClassifyChan(ci.Common().Args[0])
			return cr.Kind == "field" && core.SameField(cr.Field, d.done)
		}
		isNStore := func(in ssa.Instruction) bool {
			st, ok := in.(*ssa.Store)
			if !ok {
				return false
			}
			f, _ := core.FieldOfAddr(st.Addr)
			return d.nField != nil && core.SameField(f, d.nField)
		}
		// verdicts on the callback/close sequence of one function, starting at `first`
		// (nil = entry), for given predicates
		type verdict struct{ always, once, completion, resultFirst bool }
		analyse := func(f *ssa.Function, first ssa.Instruction, cut core.CutFunc, fnLike, closeLike, selfContained func(ssa.Instruction) bool) verdict {
			var v verdict
			reachTo := func(stop func(ssa.Instruction) bool) map[ssa.Instruction]bool {
				if first == nil {
					return core.Reach(f, nil, cut, stop)
				}
				return core.ReachAt(f, first, cut, stop)
			}
			reach := reachTo(fnLike)
			v.always = true
			for _, ret := range core.Returns(f) {
				if reach[ret] {
					v.always = false
				}
			}
			var fnCalls []ssa.Instruction
			for in := range reach {
				if fnLike(in) {
					fnCalls = append(fnCalls, in)
				}
			}
			v.once = len(fnCalls) > 0
			for _, fc := range fnCalls {
				for in := range core.Reach(f, fc, nil, nil) {
					if fnLike(in) {
						v.once = false
					}
				}
			}
			early, signalled, deferred := false, false, false
			for in := range reach {
				if fnLike(in) {
					continue
				}
				if directClose(in) {
					if _, isDefer := in.(*ssa.Defer); isDefer {
						signalled, deferred = true, true
					} else {
						early = true
					}
				}
			}
			allSignal := true
			for _, fc := range fnCalls {
				if selfContained(fc) {
					signalled = true
					continue
				}
				for in := range core.Reach(f, fc, nil, nil) {
					if closeLike(in) {
						signalled = true
					}
				}
				if !deferred && !mustPassFrom(f, fc, closeLike) {
					allSignal = false
				}
			}
			if deferred {
				// the defer must be registered on every path that reaches the callback
				pre := reachTo(func(in ssa.Instruction) bool {
					_, isDefer := in.(*ssa.Defer)
					return isDefer && directClose(in)
				})
				for _, fc := range fnCalls {
					if pre[fc] && !selfContained(fc) {
						allSignal = false
					}
				}
			}
			v.completion = !early && signalled && allSignal
			v.resultFirst = true
			if d.nField != nil {
				for _, fc := range fnCalls {
					if selfContained(fc) {
						continue
					}
					for in := range core.Reach(f, fc, nil, isNStore) {
						if closeLike(in) {
							v.resultFirst = false
						}
					}
				}
			}
			return v
		}
		never := func(ssa.Instruction) bool { return false }
		// a helper of the module that receives the callback as an argument and runs the whole
		// callback-then-signal sequence itself
		helperMemo := map[*ssa.Function]map[int]bool{}
		helperOK := func(in ssa.Instruction) bool {
			ci, ok := in.(*ssa.Call)
			if !ok {
				return false
			}
			g := core.StaticCallee(ci.Common())
			if g == nil || !p.InModule(g) || g.Blocks == nil {
				return false
			}
			for j, a := range ci.Call.Args {
				prm, isP := core.Through(a).(*ssa.Parameter)
				if !isP {
					continue
				}
				if _, isSig := prm.Type().Underlying().(*types.Signature); !isSig || j >= len(g.Params) {
					continue
				}
				if m, seen := helperMemo[g]; seen {
					if res, s2 := m[j]; s2 {
						return res
					}
				} else {
					helperMemo[g] = map[int]bool{}
				}
				gp := g.Params[j]
				gFn := func(i2 ssa.Instruction) bool {
					c2, ok := i2.(*ssa.Call)
					return ok && !c2.Call.IsInvoke() && core.Through(c2.Call.Value) == ssa.Value(gp)
				}
				v := analyse(g, nil, nil, gFn, directClose, never)
				res := v.always && v.once && v.completion && v.resultFirst
				helperMemo[g][j] = res
				if res {
					r.Analysed(g)
				}
				return res
			}
			return false
		}
		directFn := func(in ssa.Instruction) bool {
			ci, ok := in.(*ssa.Call)
			return ok && core.IsParamFuncCall(ci.Common())
		}
		fnLike := func(in ssa.Instruction) bool { return directFn(in) || helperOK(in) }
		closeLike := func(in ssa.Instruction) bool { return directClose(in) || helperOK(in) }
		n := 0
		for _, sel := range core.AllSelects(fn) {
			for i, st := range sel.States {
				cr := core.ClassifyChan(st.Chan)
				if st.Dir != types.RecvOnly || cr.Kind != "field" || !core.SameField(cr.Field, d.rdv) {
					continue
				}
				n++
				c := fmt.Sprintf("%s case<-%s", core.FnName(fn), d.rdv.Name())
				blk := core.SelectCaseBlock(sel, i)
				if blk == nil {
					r.Undecided(ruleID, c, p.Pos(sel.Pos()), "cannot locate the case block")
					continue
				}
				first := blk.Instrs[0]
				pos := p.Pos(first.Pos())
				if pos == "-" || pos == "" {
					pos = p.Pos(sel.Pos())
				}
				// the comma-ok false edge means no request was received: excluded
				cutNotOK := func(b *ssa.BasicBlock, si int) bool {
					iff, ok := b.Instrs[len(b.Instrs)-1].(*ssa.If)
					if !ok {
						return false
					}
					e, ok := iff.Cond.(*ssa.Extract)
					return ok && e.Tuple == sel && e.Index == 1 && si == 1
				}
				v := analyse(fn, first, cutNotOK, fnLike, closeLike, helperOK)
				r.Check(v.always, ruleID, c+" callback", pos, "every path after receiving a request invokes the callback", "a received request can be dropped without invoking any callback (message lost, deliverer blocked forever)")
				r.Check(v.once, ruleID, c+" once", pos, "the request is handed to exactly one callback invocation", "the same request can reach the callback more than once")
				r.Check(v.completion, ruleID, c+" completion", pos, "completion is signalled on every path, and only after the callback returned", "completion may be signalled before the callback has finished, or not at all: Deliver returns while the callback still uses the message, or never returns")
				if d.nField != nil {
					r.Check(v.resultFirst, ruleID, c+" result-before-signal", pos, "the handler's result is stored before completion is signalled", "completion can be signalled before the handler's result is stored: the asker reads a stale result")
				}
			}
		}
		if n == 0 {
			r.Fail("%s: no receive case on the rendezvous channel found", d.name)
		}
	}
}

// leadsTo: g statically reaches target within depth calls.
func leadsTo(g, target *ssa.Function, depth int) bool {
	if g == target {
		return true
	}
	if depth == 0 || g == nil || g.Blocks == nil {
		return false
	}
	for _, in := range core.AllInstrs(g) {
		if ci, ok := in.(ssa.CallInstruction); ok {
			if h := core.StaticCallee(ci.Common()); h != nil && leadsTo(h, target, depth-1) {
				return true
			}
		}
	}
	return false
}
