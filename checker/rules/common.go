package rules

import (
	"fmt"
	"go/types"
	"sort"
	"strings"

	"golang.org/x/tools/go/ssa"

	"p2pverif/core"
)

// need resolves an anchor or records a check failure.
func needFn(r *core.Report, rel, name string) *ssa.Function {
	f := r.P.Func(rel, name)
	if f == nil || f.Blocks == nil {
		r.Fail("unresolved anchor: function %s:%s", rel, name)
		return nil
	}
	r.Analysed(f)
	return f
}

func needField(r *core.Report, rel, typ, field string) *types.Var {
	f := r.P.Field(rel, typ, field)
	if f == nil {
		r.Fail("unresolved anchor: field %s:%s.%s", rel, typ, field)
	}
	return f
}

func needNamed(r *core.Report, rel, typ string) *types.Named {
	n := r.P.Named(rel, typ)
	if n == nil {
		r.Fail("unresolved anchor: type %s:%s", rel, typ)
	}
	return n
}

// namedOrigin returns the generic origin of a (possibly instantiated, possibly
// pointer) named type.
func namedOrigin(t types.Type) *types.Named {
	if p, ok := t.(*types.Pointer); ok {
		t = p.Elem()
	}
	if a, ok := t.(*types.Alias); ok {
		t = types.Unalias(a)
	}
	n, _ := t.(*types.Named)
	if n == nil {
		return nil
	}
	return n.Origin()
}

func isNamed(t types.Type, n *types.Named) bool {
	o := namedOrigin(t)
	return o != nil && n != nil && o == n.Origin()
}

// describeSel renders a select/recv/send by the kinds of its channels
// (position-free construct key).
func describeOp(op core.BlockingOp) string {
	var parts []string
	for _, s := range op.States {
		d := "<-"
		if s.Dir == types.SendOnly {
			d = "->"
		}
		switch s.Chan.Kind {
		case "ctx":
			parts = append(parts, d+"ctx.Done")
		case "field":
			parts = append(parts, d+s.Chan.Field.Name())
		default:
			parts = append(parts, d+"?")
		}
	}
	sort.Strings(parts)
	return fmt.Sprintf("%s{%s}", op.Kind, strings.Join(parts, ","))
}

func hasState(op core.BlockingOp, pred func(core.SelState) bool) bool {
	for _, s := range op.States {
		if pred(s) {
			return true
		}
	}
	return false
}

// methodNamed returns the declared method (value or pointer receiver) of named.
func methodOf(p *core.Prog, n *types.Named, name string) *ssa.Function {
	if n == nil {
		return nil
	}
	n = n.Origin()
	for i := 0; i < n.NumMethods(); i++ {
		if n.Method(i).Name() == name {
			return p.SSA.FuncValue(n.Method(i))
		}
	}
	return nil
}

// moduleStructs enumerates named struct types declared in the module.
func moduleStructs(p *core.Prog) []*types.Named {
	var out []*types.Named
	for _, pk := range p.Pkgs {
		sc := pk.Types.Scope()
		for _, name := range sc.Names() {
			tn, ok := sc.Lookup(name).(*types.TypeName)
			if !ok || tn.IsAlias() {
				continue
			}
			n, ok := tn.Type().(*types.Named)
			if !ok {
				continue
			}
			if _, ok := n.Underlying().(*types.Struct); ok {
				out = append(out, n)
			}
		}
	}
	return out
}

func typeName(n *types.Named) string {
	return strings.ReplaceAll(n.Obj().Pkg().Path(), core.ModPath, "p2p") + "." + n.Obj().Name()
}

// mustPass reports whether every path from the entry of fn to any Return
// passes an instruction satisfying pred.
func mustPass(fn *ssa.Function, pred func(ssa.Instruction) bool) bool {
	reached := core.Reach(fn, nil, nil, pred)
	for _, ret := range core.Returns(fn) {
		if reached[ret] {
			// ret reached without being stopped by pred; but a pred instruction in the
			// same block before ret stops the walk, so reaching ret means a pred-free path
			return false
		}
	}
	return true
}

// mustPassFrom: every path from just after `from` to any Return passes pred.
func mustPassFrom(fn *ssa.Function, from ssa.Instruction, pred func(ssa.Instruction) bool) bool {
	reached := core.Reach(fn, from, nil, pred)
	for _, ret := range core.Returns(fn) {
		if reached[ret] {
			return false
		}
	}
	return true
}

// mustPassAt: every path starting AT instruction `at` (inclusive) to any
// Return passes pred.
func mustPassAt(fn *ssa.Function, at ssa.Instruction, pred func(ssa.Instruction) bool) bool {
	reached := core.ReachAt(fn, at, nil, pred)
	for _, ret := range core.Returns(fn) {
		if reached[ret] && !pred(ret) {
			return false
		}
	}
	return true
}

func isCallInstr(in ssa.Instruction, pred func(*ssa.CallCommon) bool) bool {
	ci, ok := in.(ssa.CallInstruction)
	return ok && pred(ci.Common())
}

// nnShared: one non-nil engine per loaded program (rules that demand "an error is returned here"
// must prove it non-nil: errors.Wrapf(nil, ...) and friends return nil).
var nnCache = map[*core.Prog]*core.NonNil{}

func nnShared(p *core.Prog) *core.NonNil {
	if n, ok := nnCache[p]; ok {
		return n
	}
	n := core.NewNonNil(p)
	nnCache[p] = n
	return n
}

func containsStr(xs []string, s string) bool {
	for _, x := range xs {
		if x == s {
			return true
		}
	}
	return false
}
