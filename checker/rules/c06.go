package rules

import (
	"go/token"
	"golang.org/x/tools/go/ssa"

	"p2pverif/core"
)

func init() { All["C06"] = c06 }

func c06(r *core.Report) {
	r.Explanation = "The handshake state machine of p2pke.Session is EXTRACTED from the current source by abstract interpretation of the SSA of Deliver, Send, Handshake, readHandshake, writeHandshake, canSend, canReceive and IsReady over the abstract state (role, handshake index, counter class {handshake, post-handshake}, cached messages set/unset), for every class of incoming counter {0,1,2,3,4..15,>=16}; calls that verify or decrypt fork into success and failure. On the extracted transition system the check decides: (MONOTONE) no transition regresses the index, the counter class, the cache or the role; (ATOMIC-FAIL) a transition that fails, is rejected or returns an error changes nothing, so a forged, foreign or reflected message cannot wedge a session; (PURE-GETTER) Handshake() has no effects, never panics in a reachable state and each cached message is written once, so it returns the same bytes until the state advances; (SEND-COUNTER) whenever a session can send its counter is in the post-handshake range ('data flows both ways'); (PAIR-CLOSURE) in the product of an initiator and a responder with a monotone pool of their own genuine messages delivered in any order, any number of times, to either side (including back to the producer), assuming a genuine message verifies exactly at its intended peer, no panic is reachable and from every reachable pair one in-sequence round of current handshake messages makes both ready. Real cryptographic acceptance, third-party sessions and timing are not decided."
	r.Assumptions = []string{"a genuine handshake/data message verifies at the intended peer and at nobody else", "only Session methods write the tracked fields (checked)", "abstraction: counters 4..15 behave alike, counters >= 16 behave alike (the code only compares the counter with the constants 0..3 and takes it modulo 2)"}
	r.Trusted = []string{"go/types, go/ssa (x/tools v0.29.0)", "the abstract interpreter in core/absint.go"}
	ts := buildTypestate(r)
	if ts == nil {
		return
	}
	if ts.err != nil {
		r.Fail("typestate extraction failed: %v", ts.err)
		return
	}
	ts.describe(r)
	r.Rule("C06-MONOTONE", "no transition regresses the session", 1)
	ts.checkMonotone("C06-MONOTONE")
	r.Rule("C06-ATOMIC-FAIL", "failing or rejected transitions change nothing", 1)
	ts.checkAtomicFail("C06-ATOMIC-FAIL")
	r.Rule("C06-PURE-GETTER", "Handshake() is effect-free, panic-free in reachable states, cached messages written once", 4)
	ts.checkGetter("C06-PURE-GETTER")
	r.Rule("C06-NO-PANIC", "no Deliver/Send/Handshake transition from a reachable state panics", 1)
	ts.checkNoPanic("C06-NO-PANIC")
	r.Rule("C06-SEND-COUNTER", "can-send implies post-handshake counter", 4)
	ts.checkSendCounter("C06-SEND-COUNTER")
	r.Rule("C06-COUNTER-NO-RESET", "the outbound counter never moves back once it is in the post-handshake range", 10)
	ts.checkCounterNoReset("C06-COUNTER-NO-RESET")
	// ---- C06-OFFERED-FIRST (channel level): recovery from a lost RespHello/RespDone works because a
	// retransmitted handshake message is handed to the existing sessions, which answer it again with
	// their cached message; the channel must therefore offer every incoming message to its sessions
	// before it may decide "nothing to do": every return of the Deliver routine lies after (is dominated
	// by) the loop that calls Session.Deliver
	r.Rule("C06-OFFERED-FIRST", "Channel.Deliver offers every incoming message to the existing sessions before any other disposition", 1)
	if cs := resolveChan(r); cs != nil && cs.deliverLit != nil && cs.sessDeliver != nil {
		p := r.P
		lit := cs.deliverLit
		var header *ssa.BasicBlock
		for _, ci := range core.CallsToFn(lit, cs.sessDeliver) {
			// innermost loop header that dominates the call and is reachable from it
			for b := ci.Block(); b != nil; b = b.Idom() {
				isHeader := false
				for _, pr := range b.Preds {
					if b.Dominates(pr) {
						isHeader = true
					}
				}
				if isHeader {
					header = b
					break
				}
			}
		}
		okAll := header != nil
		where := ""
		for _, ret := range core.Returns(lit) {
			if header != nil && !header.Dominates(ret.Block()) {
				okAll = false
				where = p.Pos(ret.Pos())
			}
		}
		r.Check(okAll, "C06-OFFERED-FIRST", core.FnName(lit), p.Pos(lit.Pos()), "every return is dominated by the loop that delivers the message to the sessions", "the routine can return (at "+where+") before the message was offered to the existing sessions: a retransmitted InitHello or InitDone is swallowed, the session never re-sends its cached RespHello/RespDone, and after one lost reply the handshake never completes")
	}
	// ---- C06-RETRANSMIT-TIMER (shared with C07-TIMER): "completes under loss" rests on the handshake
	// callback re-arming its own timer
	r.Rule("C06-RETRANSMIT-TIMER", "the timer's fire routine clears its pending flag before the callback and never after it; Reset sets it", 3)
	ruleTimer(r, "C06-RETRANSMIT-TIMER")
	// ---- C06-ID-KEPT (after seed C06-s7): Channel.Deliver recognises a retransmitted InitHello by comparing its hash
	// with the ID of each session slot ("repeated InitHello, nothing to do"). The ID is given to the entry when the
	// session is proposed; promotion must carry the whole entry over, or a late duplicate of the InitHello that
	// created the established session is answered as a new handshake and parks a responder session that can
	// never complete.
	r.Rule("C06-ID-KEPT", "Channel.setCurrent installs the entry it is given unchanged (the InitHello hash stays with the promoted session)", 1)
	if sc := needFn(r, "p/p2pke", "Channel.setCurrent"); sc != nil {
		r.Analysed(sc)
		n, okAll := 0, true
		for _, in := range core.AllInstrs(sc) {
			st, isSt := in.(*ssa.Store)
			if !isSt {
				continue
			}
			ia, isIA := st.Addr.(*ssa.IndexAddr)
			if !isIA {
				continue
			}
			if f, _ := core.FieldOfAddr(ia.X); f == nil || f.Name() != "sessions" {
				continue
			}
			n++
			good := false
			switch v := st.Val.(type) {
			case *ssa.Parameter:
				good = true
			case *ssa.UnOp:
				if v.Op == token.MUL {
					if ia2, ok := v.X.(*ssa.IndexAddr); ok {
						if f, _ := core.FieldOfAddr(ia2.X); f != nil && f.Name() == "sessions" {
							good = true // a slot moved as a whole
						}
					}
				}
			}
			if !good {
				okAll = false
			}
		}
		r.Check(okAll && n > 0, "C06-ID-KEPT", core.FnName(sc), r.P.Pos(sc.Pos()), "slots receive the parameter or another slot as a whole",
			"setCurrent rebuilds the entry it installs: the InitHello hash (entry ID) is not carried over, so a late duplicate of the InitHello behind the established session is no longer recognised and is answered as a new handshake")
	}

	// ---- C06-INFLIGHT-KEPT: a handshake in flight survives until its own expiry. expireSessions runs on every
	// Send/WaitReady/rekey; if it empties the prospective (or previous) slot for any other reason, a second caller
	// arriving while a reply is delayed throws the in-flight session away, the peer keeps answering the old
	// InitHello, and neither side becomes ready until the stale responder session expires.
	r.Rule("C06-INFLIGHT-KEPT", "expireSessions empties the prospective and the previous slot only on the edge where that slot's own session has expired", 2)
	if es := needFn(r, "p/p2pke", "Channel.expireSessions"); es != nil {
		p := r.P
		r.Analysed(es)
		expAt := needFn(r, "p/p2pke", "Session.ExpiresAt")
		// the slot a session value was loaded from
		slotOf := func(v ssa.Value) int64 {
			slot := int64(-1)
			core.BackSlice(v, func(x ssa.Value) bool {
				if ia, ok := x.(*ssa.IndexAddr); ok {
					if f, _ := core.FieldRead(ia.X); f != nil && f.Name() == "sessions" {
						if k, isK := core.ConstInt(ia.Index); isK && slot < 0 {
							slot = k
						}
					} else if fa, isFA := ia.X.(*ssa.FieldAddr); isFA {
						if ff, _ := core.FieldOfAddr(fa); ff != nil && ff.Name() == "sessions" {
							if k, isK := core.ConstInt(ia.Index); isK && slot < 0 {
								slot = k
							}
						}
					}
				}
				return slot < 0
			})
			return slot
		}
		for _, want := range []int64{0, 2} {
			name := map[int64]string{0: "previous", 2: "prospective"}[want]
			// edges on which "sessions[want].Session.ExpiresAt().Before(now)" is known true
			ownExpired := core.CutWhere(func(cond ssa.Value) int {
				c, ok := cond.(*ssa.Call)
				if !ok {
					return 0
				}
				// a local predicate `func(s *Session) bool { return s != nil && s.ExpiresAt().Before(now) }`
				if lit := core.ClosureFn(c.Common().Value); lit != nil && len(lit.Params) == 1 && len(c.Call.Args) == 1 {
					okLit, some := true, false
					for _, ret := range core.Returns(lit) {
						for _, v := range core.ReturnValues(ret, 0) {
							vals := []ssa.Value{v}
							if ph, isPhi := v.(*ssa.Phi); isPhi {
								vals = ph.Edges
							}
							for _, x := range vals {
								if b, isK := core.ConstBool(x); isK && !b {
									continue
								}
								bc, isC := x.(*ssa.Call)
								if !isC || core.CalleeName(bc.Common()) != "(time.Time).Before" {
									okLit = false
									continue
								}
								e, _, isRes := core.CallResult(bc.Call.Args[0])
								if !isRes || expAt == nil || !core.IsCallToFn(e.Common(), expAt) || len(e.Call.Args) == 0 || e.Call.Args[0] != ssa.Value(lit.Params[0]) {
									okLit = false
									continue
								}
								some = true
							}
						}
					}
					if okLit && some && slotOf(c.Call.Args[0]) == want {
						return 1
					}
					return 0
				}
				if core.CalleeName(c.Common()) != "(time.Time).Before" {
					return 0
				}
				e, _, isRes := core.CallResult(c.Call.Args[0])
				if !isRes || expAt == nil || !core.IsCallToFn(e.Common(), expAt) || len(e.Call.Args) == 0 {
					return 0
				}
				if slotOf(e.Call.Args[0]) != want {
					return 0
				}
				return 1
			})
			n := 0
			for _, in := range core.AllInstrs(es) {
				st, ok := in.(*ssa.Store)
				if !ok {
					continue
				}
				ia, isIA := st.Addr.(*ssa.IndexAddr)
				if !isIA {
					continue
				}
				k, isK := core.ConstInt(ia.Index)
				if !isK || k != want {
					continue
				}
				// slot 0 is also written when the current session is retired into it: only stores of the
				// zero entry empty a slot
				if _, fromOther := st.Val.(*ssa.UnOp); fromOther {
					continue
				}
				n++
				r.Check(core.GuardEdges(es, ownExpired) > 0 && !core.Reach(es, nil, ownExpired, nil)[in], "C06-INFLIGHT-KEPT", "expireSessions empties the "+name+" slot", p.Pos(st.Pos()),
					"reached only where that slot's session ExpiresAt() is before now",
					"the "+name+" slot can be emptied although its session has not expired: a handshake in flight is discarded by the next Send/WaitReady/rekey and replaced by one the peer's responder session does not answer")
			}
			if n == 0 {
				r.Fail("C06-INFLIGHT-KEPT: no store emptying the %s slot found in expireSessions", name)
			}
		}
	}

	r.Rule("C06-PAIR-CLOSURE", "two honest sessions under arbitrary delivery of their genuine messages: no panic, one round from ready", 1)
	ts.checkPairClosure("C06-PAIR-CLOSURE")
}
