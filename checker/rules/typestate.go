package rules

import (
	"fmt"
	"sort"
	"strings"

	"golang.org/x/tools/go/ssa"

	"p2pverif/core"
)

// Session typestate extraction (E6): the handshake state of p2pke.Session is
// (isInit, hsIndex, nonce class, msgCache[0..3] set/unset). The transition
// system is obtained by abstract interpretation of the SSA of the Session
// methods on every abstract state, for every class of incoming counter.

type tsState struct {
	isInit bool
	hs     int64
	nonce  int64 // 0 or 16 (post-handshake class)
	cache  [4]bool
	cin    bool // cipherIn set
	cout   bool // cipherOut set
}

func (s tsState) String() string {
	role := "resp"
	if s.isInit {
		role = "init"
	}
	c := ""
	for i, b := range s.cache {
		if b {
			c += fmt.Sprint(i)
		}
	}
	k := ""
	if s.cin != s.cout {
		k = fmt.Sprintf("/cin=%v,cout=%v", s.cin, s.cout)
	} else if !s.cin {
		k = "/nokeys"
	}
	return fmt.Sprintf("%s/hs%d/n%d/cache{%s}%s", role, s.hs, s.nonce, c, k)
}

func (s tsState) abs() core.AState {
	a := core.AState{
		"isInit":  {K: core.ABool, B: s.isInit},
		"hsIndex": {K: core.AInt, I: s.hs},
		"nonce":   {K: core.AInt, I: s.nonce},
	}
	for i, b := range s.cache {
		a[fmt.Sprintf("msgCache[%d]", i)] = core.AVal{K: core.ABool, B: b}
	}
	nilOr := func(set bool) core.AVal {
		if set {
			return core.AVal{K: core.ANonNil}
		}
		return core.AVal{K: core.ANil}
	}
	a["cipherIn"], a["cipherOut"] = nilOr(s.cin), nilOr(s.cout)
	return a
}

func tsFromAbs(a core.AState) (tsState, error) {
	var s tsState
	get := func(k string) core.AVal { return a[k] }
	if v := get("isInit"); v.K == core.ABool {
		s.isInit = v.B
	} else {
		return s, fmt.Errorf("isInit became %s", v)
	}
	if v := get("hsIndex"); v.K == core.AInt {
		s.hs = v.I
	} else {
		return s, fmt.Errorf("hsIndex became %s", v)
	}
	if v := get("nonce"); v.K == core.AInt {
		s.nonce = v.I
	} else {
		return s, fmt.Errorf("nonce became %s", v)
	}
	for i := range s.cache {
		v := get(fmt.Sprintf("msgCache[%d]", i))
		if v.K != core.ABool {
			return s, fmt.Errorf("msgCache[%d] became %s", i, v)
		}
		s.cache[i] = v.B
	}
	s.cin = get("cipherIn").K == core.ANonNil
	s.cout = get("cipherOut").K == core.ANonNil
	return s, nil
}

type tsTrans struct {
	from    tsState
	op      string // "Deliver(c)", "Send", "Handshake"
	class   int64
	out     core.Outcome
	to      tsState
	isApp   core.AVal
	errVal  core.AVal
	emitted int // for Handshake: index of the msgCache slot returned, -1 none
}

type typestate struct {
	r          *core.Report
	it         *core.Interp
	deliver    *ssa.Function
	send       *ssa.Function
	handshake  *ssa.Function
	canSend    *ssa.Function
	canReceive *ssa.Function
	isReady    *ssa.Function
	states     []tsState
	index      map[tsState]int
	trans      []tsTrans
	must       map[tsState]map[string]bool
	err        error
}

var msgClasses = []int64{0, 1, 2, 3, 7, 16}

func buildTypestate(r *core.Report) *typestate {
	p := r.P
	ts := &typestate{r: r, index: map[tsState]int{}}
	ts.deliver = needFn(r, "p/p2pke", "Session.Deliver")
	ts.send = needFn(r, "p/p2pke", "Session.Send")
	ts.handshake = needFn(r, "p/p2pke", "Session.Handshake")
	ts.canSend = needFn(r, "p/p2pke", "Session.canSend")
	ts.canReceive = needFn(r, "p/p2pke", "Session.canReceive")
	ts.isReady = needFn(r, "p/p2pke", "Session.IsReady")
	newSession := needFn(r, "p/p2pke", "NewSession")
	sess := needNamed(r, "p/p2pke", "Session")
	if len(r.Failures) > 0 {
		return nil
	}
	tracked := map[string]bool{"isInit": true, "hsIndex": true, "nonce": true, "cipherIn": true, "cipherOut": true}
	for i := 0; i < 4; i++ {
		tracked[fmt.Sprintf("msgCache[%d]", i)] = true
	}
	ts.it = &core.Interp{
		P: p, RecvType: sess, Tracked: tracked,
		Fallible:   map[string]bool{"readInitHello": true, "readRespHello": true, "readInitDone": true, "readRespDone": true, "Decrypt": true, "ParseMessage": true},
		BoolFork:   map[string]bool{"ValidateCounter": true, "After": true},
		IntCap:     map[string]int64{"nonce": 16},
		NilTracked: map[string]bool{"cipherIn": true, "cipherOut": true},
		Notable:    map[string]bool{"Encrypt": true, "Decrypt": true, "ValidateCounter": true},
	}
	// writers of the tracked fields: only Session methods (and NewSession) may store them
	for _, fld := range []string{"isInit", "hsIndex", "nonce", "msgCache", "cipherIn", "cipherOut"} {
		fv := needField(r, "p/p2pke", "Session", fld)
		if fv == nil {
			return nil
		}
		for _, fn := range p.ModFuncs {
			for _, fa := range core.FieldAddrsOf(fn, fv) {
				writes := false
				for _, ref := range *fa.Referrers() {
					switch y := ref.(type) {
					case *ssa.Store:
						writes = writes || y.Addr == ssa.Value(fa)
					case *ssa.IndexAddr:
						for _, r2 := range *y.Referrers() {
							if st, ok := r2.(*ssa.Store); ok && st.Addr == ssa.Value(y) {
								writes = true
							}
						}
					case ssa.CallInstruction:
						if strings.HasPrefix(core.CalleeName(y.Common()), "sync/atomic.Add") || strings.HasPrefix(core.CalleeName(y.Common()), "sync/atomic.Store") {
							writes = true
						}
					}
				}
				if !writes {
					continue
				}
				ok := fn == newSession || fn.Signature.Recv() != nil && isNamed(fn.Signature.Recv().Type(), sess)
				if !ok {
					ts.err = fmt.Errorf("%s writes Session.%s: the state machine extraction assumes only Session methods write the handshake state", core.FnName(fn), fld)
					return ts
				}
			}
		}
	}
	// initial states from NewSession: the initiator's first message is cached at construction
	initCache0 := false
	mc := p.Field("p/p2pke", "Session", "msgCache")
	for _, fa := range core.FieldAddrsOf(newSession, mc) {
		for _, ref := range *fa.Referrers() {
			if ia, ok := ref.(*ssa.IndexAddr); ok {
				if k, isK := core.ConstInt(ia.Index); isK && k == 0 {
					for _, r2 := range *ia.Referrers() {
						if _, isSt := r2.(*ssa.Store); isSt {
							initCache0 = true
						}
					}
				}
			}
		}
	}
	init0 := tsState{isInit: true}
	init0.cache[0] = initCache0
	resp0 := tsState{}
	ts.add(init0)
	ts.add(resp0)
	ts.must = map[tsState]map[string]bool{init0: {}, resp0: {}}
	// exploration
	for i := 0; i < len(ts.states) && i < 500; i++ {
		s := ts.states[i]
		for _, c := range msgClasses {
			cc := c
			ts.it.Hook = func(it *core.Interp, call *ssa.CallCommon, args []core.AVal) (core.AVal, bool) {
				if !call.IsInvoke() {
					if f := core.StaticCallee(call); f != nil && f.Name() == "GetNonce" {
						return core.AVal{K: core.AInt, I: cc}, true
					}
				}
				return core.AVal{}, false
			}
			for _, o := range ts.it.Run(ts.deliver, s.abs(), []core.AVal{{}, {K: core.ANonNil}, {}}) {
				ts.record(s, fmt.Sprintf("Deliver(%d)", c), c, o)
			}
		}
		ts.it.Hook = nil
		for _, o := range ts.it.Run(ts.send, s.abs(), []core.AVal{{}, {}, {}}) {
			ts.record(s, "Send", -1, o)
		}
		for _, o := range ts.it.Run(ts.handshake, s.abs(), []core.AVal{{}}) {
			ts.record(s, "Handshake", -1, o)
		}
		if ts.it.Err != nil {
			ts.err = ts.it.Err
			return ts
		}
	}
	// must-labels fixpoint
	for changed := true; changed; {
		changed = false
		for _, t := range ts.trans {
			if t.out.Panic {
				continue
			}
			src := ts.must[t.from]
			if src == nil {
				continue
			}
			cand := map[string]bool{}
			for l := range src {
				cand[l] = true
			}
			for _, l := range t.out.Labels {
				if strings.HasSuffix(l, ":ok") {
					cand[l] = true
				}
			}
			cur, ok := ts.must[t.to]
			if !ok {
				ts.must[t.to] = cand
				changed = true
				continue
			}
			for l := range cur {
				if !cand[l] {
					delete(cur, l)
					changed = true
				}
			}
		}
	}
	return ts
}

func (ts *typestate) add(s tsState) int {
	if i, ok := ts.index[s]; ok {
		return i
	}
	ts.index[s] = len(ts.states)
	ts.states = append(ts.states, s)
	return len(ts.states) - 1
}

func (ts *typestate) record(from tsState, op string, class int64, o core.Outcome) {
	t := tsTrans{from: from, op: op, class: class, out: o, emitted: -1}
	if o.Panic {
		t.to = from
		ts.trans = append(ts.trans, t)
		return
	}
	to, err := tsFromAbs(o.State)
	if err != nil {
		ts.err = fmt.Errorf("%s in %s: %v", op, from, err)
		return
	}
	t.to = to
	if len(o.Rets) > 0 {
		t.errVal = o.Rets[len(o.Rets)-1]
	}
	if strings.HasPrefix(op, "Deliver") && len(o.Rets) == 3 {
		t.isApp = o.Rets[0]
	}
	if op == "Handshake" || strings.HasPrefix(op, "Deliver") {
		for _, rd := range o.Reads {
			var k int
			if n, _ := fmt.Sscanf(rd, "msgCache[%d]", &k); n == 1 {
				t.emitted = k
			}
		}
	}
	ts.add(to)
	ts.trans = append(ts.trans, t)
}

func (ts *typestate) evalBool(fn *ssa.Function, s tsState) (bool, bool) {
	outs := ts.it.Run(fn, s.abs(), nil)
	if len(outs) != 1 || outs[0].Panic || len(outs[0].Rets) != 1 || outs[0].Rets[0].K != core.ABool {
		return false, false
	}
	return outs[0].Rets[0].B, true
}

func labelsOf(o core.Outcome) string { return strings.Join(o.Labels, ",") }

func hasFail(o core.Outcome) bool {
	for _, l := range o.Labels {
		if strings.HasSuffix(l, ":fail") {
			return true
		}
	}
	return false
}

// ---- invariants shared by C02, C03, C06

func (ts *typestate) checkSendCounter(rule string) {
	r := ts.r
	for _, s := range ts.states {
		cs, ok := ts.evalBool(ts.canSend, s)
		if !ok {
			r.Undecided(rule, "canSend in "+s.String(), "-", "canSend is not a pure function of the tracked state")
			continue
		}
		if !cs {
			r.Trivial(rule, "state "+s.String(), "-", "cannot send")
			continue
		}
		r.Check(s.nonce == 16, rule, "state "+s.String(), r.P.Pos(ts.send.Pos()), "the outbound counter is in the post-handshake range whenever the session can send",
			"reachable state "+s.String()+" can send application data while its counter is still in the handshake range: the next messages are sealed with counters 0..3 (the peer parses them as handshake messages and drops them) and counter 2 repeats InitDone's counter under the same key")
	}
}

func (ts *typestate) checkMonotone(rule string) {
	r := ts.r
	bad := map[string]bool{}
	n := 0
	for _, t := range ts.trans {
		if t.out.Panic {
			continue
		}
		n++
		if t.to.hs < t.from.hs || t.to.isInit != t.from.isInit || t.to.nonce < t.from.nonce {
			bad[fmt.Sprintf("%s --%s[%s]--> %s", t.from, t.op, labelsOf(t.out), t.to)] = true
		}
		for i := range t.from.cache {
			if t.from.cache[i] && !t.to.cache[i] {
				bad[fmt.Sprintf("%s --%s--> %s (cache slot %d cleared)", t.from, t.op, t.to, i)] = true
			}
		}
	}
	if len(bad) == 0 {
		r.OK(rule, "all transitions", "-", fmt.Sprintf("%d transitions: the handshake index, counter class and cached messages never regress, the role never changes", n))
	}
	for b := range bad {
		r.Violation(rule, b, "-", "a session regresses: "+b)
	}
}

func (ts *typestate) checkAtomicFail(rule string) {
	r := ts.r
	n, bad := 0, map[string]bool{}
	for _, t := range ts.trans {
		if t.out.Panic {
			continue
		}
		failing := hasFail(t.out) || t.errVal.K == core.ANonNil
		if !failing {
			continue
		}
		n++
		if len(t.out.Effects) > 0 {
			bad[fmt.Sprintf("%s --%s[%s]--> effects %v", t.from, t.op, labelsOf(t.out), t.out.Effects)] = true
		}
	}
	if len(bad) == 0 {
		r.OK(rule, "all failing transitions", "-", fmt.Sprintf("%d failing or rejected transitions change nothing", n))
	}
	for b := range bad {
		r.Violation(rule, b, "-", "a rejected or failed message changes the session state (a forged or foreign message can wedge the handshake): "+b)
	}
}

func (ts *typestate) checkGetter(rule string) {
	r := ts.r
	n := 0
	for _, t := range ts.trans {
		if t.op != "Handshake" {
			continue
		}
		n++
		c := "Handshake in " + t.from.String()
		switch {
		case t.out.Panic:
			r.Violation(rule, c, r.P.Pos(ts.handshake.Pos()), "asking reachable state "+t.from.String()+" for its handshake message panics (the message it should emit was never cached)")
		case len(t.out.Effects) > 0:
			r.Violation(rule, c, r.P.Pos(ts.handshake.Pos()), fmt.Sprintf("Handshake() changes the session state (%v): it is not idempotent", t.out.Effects))
		default:
			r.OK(rule, c, "-", fmt.Sprintf("no effects; emits cached slot %d", t.emitted))
		}
	}
	// the message a state emits is a function of the handshake state alone: two outcomes of Handshake()
	// from one state (they can differ only through untracked inputs such as the data counter) must emit
	// the same cached slot — otherwise Handshake() stops being idempotent once data has been sent
	emits := map[tsState]map[int]bool{}
	for _, t := range ts.trans {
		if t.op != "Handshake" || t.out.Panic {
			continue
		}
		if emits[t.from] == nil {
			emits[t.from] = map[int]bool{}
		}
		emits[t.from][t.emitted] = true
	}
	for st, set := range emits {
		if len(set) > 1 {
			var ks []int
			for k := range set {
				ks = append(ks, k)
			}
			sort.Ints(ks)
			r.Violation(rule, "Handshake in "+st.String()+" emits one message", r.P.Pos(ts.handshake.Pos()), fmt.Sprintf("in state %s Handshake() returns different messages (cached slots %v, -1 = nothing) depending on something other than the handshake state (the data counter): after the peer's handshake message was lost and data was sent, the retransmission stops and the peer never completes", st, ks))
		}
	}
	// each cache slot is written at most once
	for _, t := range ts.trans {
		for _, e := range t.out.Effects {
			var k int
			if cnt, _ := fmt.Sscanf(e, "msgCache[%d]=", &k); cnt == 1 && t.from.cache[k] {
				r.Violation(rule, fmt.Sprintf("%s --%s--> rewrites slot %d", t.from, t.op, k), "-", "a cached handshake message is overwritten: Handshake() would return different bytes without the state advancing")
			}
		}
	}
	if n == 0 {
		r.Fail("%s: no Handshake transitions extracted", rule)
	}
}

func (ts *typestate) checkNoPanic(rule string) {
	r := ts.r
	n, bad := 0, map[string]bool{}
	for _, t := range ts.trans {
		n++
		if t.out.Panic {
			bad[fmt.Sprintf("%s --%s[%s]--> panic", t.from, t.op, labelsOf(t.out))] = true
		}
	}
	if len(bad) == 0 {
		r.OK(rule, "all transitions", "-", fmt.Sprintf("none of the %d transitions from reachable states panics", n))
	}
	for b := range bad {
		r.Violation(rule, b, "-", "a reachable session state panics: "+b)
	}
}

func (ts *typestate) checkAuthPath(rule string) {
	r := ts.r
	for _, s := range ts.states {
		// a predicate that depends on untracked state is treated as possibly true
		cr, ok1 := ts.evalBool(ts.canReceive, s)
		cs, ok2 := ts.evalBool(ts.canSend, s)
		if !ok1 {
			cr = true
		}
		if !ok2 {
			cs = true
		}
		if !cr && !cs {
			continue
		}
		must := ts.must[s]
		var need []string
		if s.isInit {
			need = []string{"readRespHello:ok"}
		} else {
			need = []string{"readInitHello:ok", "readInitDone:ok"}
		}
		var missing []string
		for _, n := range need {
			if !must[n] {
				missing = append(missing, n)
			}
		}
		sort.Strings(missing)
		r.Check(len(missing) == 0, rule, "state "+s.String(), "-", "every path to this usable state passed "+strings.Join(need, " and "),
			"state "+s.String()+" can send or receive application data but is reachable on a path that did not pass "+strings.Join(missing, ", ")+": the session is usable before the peer proved its key for this handshake")
	}
}

// ---- pair closure (two honest sessions, arbitrary delivery of genuine messages)

type pairState struct {
	i, r tsState
	pool uint8 // bit k: handshake message k emitted; bit 4: data from init; bit 5: data from resp
}

func (ts *typestate) deliverGenuine(to tsState, class int64, fromPeer bool) []tsTrans {
	var out []tsTrans
	for _, t := range ts.trans {
		if t.from != to || t.class != class || !strings.HasPrefix(t.op, "Deliver") {
			continue
		}
		// expired / unparsable outcomes are not part of the genuine-message model
		skip := false
		for _, l := range t.out.Labels {
			if l == "ParseMessage:fail" || l == "After:true" {
				skip = true
			}
			// genuine messages from the peer verify; reflected ones never do
			for _, f := range []string{"readInitHello", "readRespHello", "readInitDone", "readRespDone", "Decrypt"} {
				if l == f+":fail" && fromPeer {
					skip = true
				}
				if l == f+":ok" && !fromPeer {
					skip = true
				}
			}
		}
		if !skip {
			out = append(out, t)
		}
	}
	return out
}

func (ts *typestate) checkPairClosure(rule string) {
	r := ts.r
	var init0, resp0 tsState
	for _, s := range ts.states[:2] {
		if s.isInit {
			init0 = s
		} else {
			resp0 = s
		}
	}
	emit := func(s tsState) (int, bool, bool) { // slot, emits, panics
		for _, t := range ts.trans {
			if t.from == s && t.op == "Handshake" {
				if t.out.Panic {
					return -1, false, true
				}
				return t.emitted, t.emitted >= 0, false
			}
		}
		return -1, false, false
	}
	ready := func(s tsState) bool { b, _ := ts.evalBool(ts.isReady, s); return b }
	start := pairState{i: init0, r: resp0}
	seen := map[pairState]bool{start: true}
	queue := []pairState{start}
	nTrans := 0
	panics := map[string]bool{}
	for len(queue) > 0 && len(seen) < 20000 {
		ps := queue[0]
		queue = queue[1:]
		// emissions
		next := func(n pairState) {
			if !seen[n] {
				seen[n] = true
				queue = append(queue, n)
			}
		}
		for side, s := range []tsState{ps.i, ps.r} {
			k, emits, pan := emit(s)
			if pan {
				panics[fmt.Sprintf("Handshake() panics in %s (pair %s | %s)", s, ps.i, ps.r)] = true
			}
			if emits {
				n := ps
				n.pool |= 1 << uint(k)
				next(n)
			}
			// data: a side that can send emits data
			if cs, _ := ts.evalBool(ts.canSend, s); cs {
				n := ps
				n.pool |= 1 << uint(4+side)
				next(n)
			}
		}
		// deliveries: any pooled message to either side
		for k := 0; k < 6; k++ {
			if ps.pool&(1<<uint(k)) == 0 {
				continue
			}
			class := int64(k)
			producerIsInit := k == 0 || k == 2 || k == 4
			if k >= 4 {
				class = 16
			}
			for side := 0; side < 2; side++ {
				target := ps.i
				if side == 1 {
					target = ps.r
				}
				fromPeer := (side == 0) != producerIsInit
				for _, t := range ts.deliverGenuine(target, class, fromPeer) {
					nTrans++
					if t.out.Panic {
						panics[fmt.Sprintf("Deliver(%d) panics in %s", class, target)] = true
						continue
					}
					n := ps
					if side == 0 {
						n.i = t.to
					} else {
						n.r = t.to
					}
					next(n)
				}
			}
		}
	}
	for pmsg := range panics {
		r.Violation(rule, pmsg, "-", "two honest sessions can be driven into a panic by dropping, duplicating, reordering or reflecting their own genuine messages: "+pmsg)
	}
	// fair suffix: from every reachable pair, delivering each side's current handshake
	// message in sequence (at most 4 rounds) makes both sides ready with post-handshake counters
	stuck := map[string]bool{}
	for ps := range seen {
		cur := ps
		okDone := false
		for round := 0; round < 5; round++ {
			if ready(cur.i) && ready(cur.r) && cur.i.nonce == 16 && cur.r.nonce == 16 {
				okDone = true
				break
			}
			for side := 0; side < 2; side++ {
				from, to := cur.i, cur.r
				if side == 1 {
					from, to = cur.r, cur.i
				}
				k, emits, _ := emit(from)
				if !emits {
					continue
				}
				ts2 := ts.deliverGenuine(to, int64(k), true)
				// take the accepting outcome (no fail labels)
				for _, t := range ts2 {
					if !hasFail(t.out) && t.errVal.K != core.ANonNil && !t.out.Panic {
						if side == 0 {
							cur.r = t.to
						} else {
							cur.i = t.to
						}
						break
					}
				}
			}
		}
		if !okDone {
			stuck[fmt.Sprintf("%s | %s", ps.i, ps.r)] = true
		}
	}
	if len(panics) == 0 && len(stuck) == 0 {
		r.OK(rule, "pair closure", "-", fmt.Sprintf("%d reachable pair states, %d deliveries explored: no panic; from every pair state one in-sequence round of the current handshake messages makes both sessions ready with post-handshake counters", len(seen), nTrans))
	}
	var ss []string
	for s := range stuck {
		ss = append(ss, s)
	}
	sort.Strings(ss)
	for i, s := range ss {
		if i >= 5 {
			break
		}
		r.Violation(rule, "stuck pair "+s, "-", "after arbitrary loss/duplication/reordering/reflection of genuine messages the pair "+s+" does not become ready (with post-handshake counters on both sides) when each side's current handshake message is delivered once more in sequence")
	}
	r.Extra["pair_states"] = len(seen)
	r.Extra["pair_deliveries"] = nTrans
}

func (ts *typestate) describe(r *core.Report) {
	var ss []string
	for _, s := range ts.states {
		ss = append(ss, s.String())
	}
	r.Extra["states"] = len(ts.states)
	r.Extra["transitions"] = len(ts.trans)
	r.Extra["state_list"] = ss
	var sample []string
	for i, t := range ts.trans {
		if i%7 == 0 && len(sample) < 12 {
			sample = append(sample, fmt.Sprintf("%s --%s[%s]--> %s", t.from, t.op, labelsOf(t.out), t.to))
		}
	}
	r.Extra["transition_samples"] = sample
}

// checkAppImpliesReady: Channel.Deliver judges the peer's key on the not-ready -> ready edge of a
// session delivery and only then hands out application data. That is sound only if a session that
// returns application data is ready afterwards: otherwise data from a never-judged (prospective)
// session reaches the application and the session is never promoted.
func (ts *typestate) checkAppImpliesReady(rule string) {
	r := ts.r
	n := 0
	for _, t := range ts.trans {
		if t.out.Panic || !strings.HasPrefix(t.op, "Deliver") {
			continue
		}
		if t.isApp.K == core.ABool && !t.isApp.B {
			continue
		}
		if t.errVal.K == core.ANonNil {
			continue
		}
		n++
		ready, ok := ts.evalBool(ts.isReady, t.to)
		c := fmt.Sprintf("%s --%s[%s]--> %s", t.from, t.op, labelsOf(t.out), t.to)
		if !ok {
			r.Undecided(rule, c, "-", "IsReady is not a pure function of the tracked state")
			continue
		}
		r.Check(ready, rule, c, r.P.Pos(ts.deliver.Pos()), "a delivery that returns application data leaves the session ready", "Session.Deliver returns application data from state "+t.from.String()+" but leaves the session not ready ("+t.to.String()+"): the channel's readiness re-check, where the peer's key is judged and the session promoted, never runs for it, yet the data is handed to the application")
	}
	if n == 0 {
		r.Fail("%s: no transition of the extracted machine returns application data (extraction stale)", rule)
	}
}

// checkCounterNoReset: once a session may have sealed application data (counter in the post-handshake
// range), no transition other than Send's own atomic increment writes the counter: a store would move
// it back to 16 and the next messages would reuse counters (the peer's replay filter drops them, and
// two plaintexts are sealed under one key and counter).
func (ts *typestate) checkCounterNoReset(rule string) {
	r := ts.r
	n := 0
	for _, t := range ts.trans {
		if t.out.Panic || t.from.nonce != 16 {
			continue
		}
		n++
		bad := ""
		for _, e := range t.out.Effects {
			if strings.HasPrefix(e, "nonce=") && t.op != "Send" {
				bad = e
			}
		}
		c := fmt.Sprintf("%s --%s[%s]--> %s", t.from, t.op, labelsOf(t.out), t.to)
		if bad == "" {
			r.OK(rule, c, "-", "the counter is not written")
			continue
		}
		r.Violation(rule, c, r.P.Pos(ts.deliver.Pos()), "a session whose outbound counter is already in the post-handshake range stores "+bad+": counters already used for sealed data are used again")
	}
	if n == 0 {
		r.Fail("%s: no transition from a post-handshake counter state (extraction stale)", rule)
	}
}

// checkEstablishedIgnoresHello: once a session has delivered application data it is established; a
// fresh InitHello (a restarted peer, or the peer's rekey) must then fall through the session — an error
// or an empty reply — so that Channel.Deliver goes on to create a new session. A session that keeps
// answering hellos with a cached handshake message swallows every new handshake until it expires.
func (ts *typestate) checkEstablishedIgnoresHello(rule string) {
	r := ts.r
	established := map[tsState]bool{}
	for _, t := range ts.trans {
		if t.out.Panic || !strings.HasPrefix(t.op, "Deliver") {
			continue
		}
		if t.isApp.K == core.ABool && t.isApp.B && t.errVal.K != core.ANonNil {
			established[t.to] = true
		}
	}
	// closure under further non-failing transitions
	for changed := true; changed; {
		changed = false
		for _, t := range ts.trans {
			if established[t.from] && !t.out.Panic && !established[t.to] {
				established[t.to] = true
				changed = true
			}
		}
	}
	n := 0
	for _, t := range ts.trans {
		if !established[t.from] || t.out.Panic || t.op != "Deliver(0)" {
			continue
		}
		n++
		c := fmt.Sprintf("%s --%s[%s]", t.from, t.op, labelsOf(t.out))
		answers := t.errVal.K != core.ANonNil && t.emitted >= 0
		r.Check(!answers, rule, c, r.P.Pos(ts.deliver.Pos()), "an InitHello delivered to an established session yields an error or an empty reply", fmt.Sprintf("a session that has already carried application data (%s) answers an InitHello with its cached handshake message (slot %d): Channel.Deliver takes that reply as 'handled' and never creates a session for the new handshake, so a restarted peer or a rekey is stonewalled until this session expires", t.from, t.emitted))
	}
	if n == 0 {
		r.Fail("%s: no InitHello transition from an established state in the extracted machine", rule)
	}
}
