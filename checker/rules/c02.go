package rules

import (
	"fmt"
	"go/token"
	"strings"

	"golang.org/x/tools/go/ssa"

	"p2pverif/core"
)

func init() { All["C02"] = c02 }

func isCipherCall(c *ssa.CallCommon, method string) bool {
	return c.IsInvoke() && c.Method.Name() == method && strings.HasSuffix(c.Value.Type().String(), "noise.Cipher")
}

// callOnSame: v is the result of calling method `name` on a value that is the same source as m.
func msgMethodOn(v ssa.Value, name string) (ssa.Value, bool) {
	c, ok := core.Peel(v).(*ssa.Call)
	if !ok {
		return nil, false
	}
	sc := core.StaticCallee(c.Common())
	if sc == nil || sc.Name() != name || len(c.Call.Args) == 0 {
		return nil, false
	}
	return c.Call.Args[0], true
}

func c02(r *core.Report) {
	p := r.P
	r.Explanation = "Static necessary conditions of 'the secure channel delivers only authentic peer plaintexts, at most once, with no counter reuse': (AEAD-BIND) at every AEAD call in package p2pke the counter, the associated data and the ciphertext come from the same message (dynamic counter = GetNonce of the message whose HeaderBytes/Body are passed; constant counter K = the header built by newMessage(K) on the sealing side, and on the opening side the function is only called under GetNonce(msg) == K); (REPLAY) Session.Deliver returns application data only on the true edge of the replay filter, which is consulted only after successful decryption, with the counter of that message; (COUNTER-ALLOC) Session.Send seals with the value obtained from one atomic add on the counter, after comparing the counter with the message limit, and no function other than the Session transitions stores the counter; (SEND-COUNTER) on the state machine extracted from the source (see C06) every state that can send has a post-handshake counter, so no data message is sealed with a handshake counter; (NO-PLAINTEXT) the plaintext parameters of Session.Send, Channel.Send and p2pkeswarm.Tell are used only to be sealed, and what Send returns is the AEAD output. Cryptographic authenticity, key independence of sessions and replay across rotated sessions are not decided."
	r.Assumptions = []string{"flynn/noise Cipher is a correct AEAD; wireguard/replay.Filter is a correct sliding window"}
	r.Trusted = []string{"go/types, go/ssa (x/tools v0.29.0)", "flynn/noise, wireguard replay filter"}
	sessDeliver := needFn(r, "p/p2pke", "Session.Deliver")
	sessSend := needFn(r, "p/p2pke", "Session.Send")
	newMessage := needFn(r, "p/p2pke", "newMessage")
	readHandshake := needFn(r, "p/p2pke", "Session.readHandshake")
	if len(r.Failures) > 0 {
		return
	}

	// ---- C02-AEAD-BIND
	r.Rule("C02-AEAD-BIND", "counter, associated data and ciphertext of every AEAD call come from the same message", 6)
	nAEAD := 0
	for _, fn := range p.ModFuncs {
		if fn.Pkg == nil || fn.Pkg.Pkg.Path() != core.ModPath+"/p/p2pke" {
			continue
		}
		for _, in := range core.AllInstrs(fn) {
			call, ok := in.(*ssa.Call)
			if !ok {
				continue
			}
			enc := isCipherCall(call.Common(), "Encrypt")
			dec := isCipherCall(call.Common(), "Decrypt")
			if !enc && !dec {
				continue
			}
			nAEAD++
			r.Analysed(fn)
			args := call.Call.Args // out, n, ad, data
			n, ad, data := args[1], args[2], args[3]
			kind := "Decrypt"
			if enc {
				kind = "Encrypt"
			}
			c := fmt.Sprintf("%s %s", core.FnName(fn), kind)
			okBind, why := false, ""
			if k, isK := core.ConstInt(n); isK {
				if enc {
					// AD = header of newMessage(K) (the 4-byte message itself, or its HeaderBytes())
					if m0, isH := msgMethodOn(ad, "HeaderBytes"); isH {
						ad = m0
					}
					okBind = core.DerivesFromDirect(ad, func(x ssa.Value) bool {
						c2, ok := x.(*ssa.Call)
						if !ok || !core.IsCallToFn(c2.Common(), newMessage) {
							return false
						}
						kk, isKK := core.ConstInt(c2.Call.Args[0])
						return isKK && kk == k
					})
					why = fmt.Sprintf("the associated data is not the header built by newMessage(%d)", k)
				} else {
					// AD = HeaderBytes(M), data = Body(M), and every call site of fn is under GetNonce(M') == K with M' the message passed
					m1, ok1 := msgMethodOn(ad, "HeaderBytes")
					m2, ok2 := msgMethodOn(data, "Body")
					okBind = ok1 && ok2 && core.SameSource(m1, m2)
					why = "the associated data / ciphertext are not HeaderBytes()/Body() of one message"
					if okBind {
						prm, isP := core.Through(m1).(*ssa.Parameter)
						if !isP {
							okBind, why = false, "the opened message is not the function's message parameter"
						} else {
							pidx := -1
							for i, q := range fn.Params {
								if q == prm {
									pidx = i
								}
							}
							sites := p.StaticCallSites(fn)
							if len(sites) == 0 {
								okBind, why = false, "no call site found to establish the counter"
							}
							for _, cs := range sites {
								caller := cs.Parent()
								cut := core.CutWhere(func(cond ssa.Value) int {
									b, ok := cond.(*ssa.BinOp)
									if !ok || b.Op != token.EQL {
										return 0
									}
									kk, isKK := core.ConstInt(b.Y)
									if !isKK || kk != k {
										return 0
									}
									mm, okM := msgMethodOn(b.X, "GetNonce")
									if !okM || !core.SameSource(mm, cs.Common().Args[pidx]) {
										return 0
									}
									return 1
								})
								if core.GuardEdges(caller, cut) == 0 || !core.GuardedFromEntry(caller, cs.(ssa.Instruction), cut) {
									okBind = false
									why = fmt.Sprintf("%s is called where the message's counter is not known to be %d", fn.Name(), k)
								}
							}
						}
					}
				}
			} else {
				if dec {
					mN, okN := msgMethodOn(n, "GetNonce")
					m1, ok1 := msgMethodOn(ad, "HeaderBytes")
					m2, ok2 := msgMethodOn(data, "Body")
					okBind = okN && ok1 && ok2 && core.SameSource(mN, m1) && core.SameSource(m1, m2)
					why = "counter, associated data and ciphertext are not GetNonce()/HeaderBytes()/Body() of one message"
				} else {
					// Encrypt with a dynamic counter: AD = newMessage(uint32(n))
					okBind = core.DerivesFromDirect(ad, func(x ssa.Value) bool {
						c2, ok := x.(*ssa.Call)
						return ok && core.IsCallToFn(c2.Common(), newMessage) && core.Peel(c2.Call.Args[0]) == core.Peel(n)
					})
					why = "the header sealed as associated data is not built from the counter used for sealing"
				}
			}
			r.Check(okBind, "C02-AEAD-BIND", c, p.Pos(call.Pos()), "counter, associated data and data belong to one message", why+": a ciphertext could be opened under another message's counter or header (splicing), or sealed with a counter that is not the one on the wire")
		}
	}
	if nAEAD < 6 {
		r.Fail("C02-AEAD-BIND: only %d AEAD call sites found in package p2pke", nAEAD)
	}

	// ---- C02-REPLAY
	r.Rule("C02-REPLAY", "application data is returned only after decryption succeeded and the replay filter accepted that message's counter", 3)
	{
		fn := sessionDataFn(p, sessDeliver, "Decrypt")
		var dec, val *ssa.Call
		for _, in := range core.AllInstrs(fn) {
			c, ok := in.(*ssa.Call)
			if !ok {
				continue
			}
			if isCipherCall(c.Common(), "Decrypt") {
				dec = c
			}
			if c.Common().IsInvoke() == false && core.CalleeName(c.Common()) == "(*golang.zx2c4.com/wireguard/replay.Filter).ValidateCounter" {
				val = c
			}
		}
		if dec == nil || val == nil {
			r.Fail("C02-REPLAY: Decrypt / ValidateCounter call not found in Session.Deliver")
		} else {
			cutV := core.CutWhere(func(cond ssa.Value) int {
				if cond == ssa.Value(val) {
					return 1
				}
				return 0
			})
			okApp := core.GuardEdges(fn, cutV) > 0
			reached := core.Reach(fn, nil, cutV, nil)
			for _, ret := range core.Returns(fn) {
				if !reached[ret] {
					continue
				}
				for _, v := range core.ReturnValues(ret, 0) {
					if b, isK := core.ConstBool(v); !isK || b {
						okApp = false
					}
				}
			}
			r.Check(okApp, "C02-REPLAY", core.FnName(fn)+" app data", p.Pos(val.Pos()), "isApp=true is returned only on the accepting edge of the replay filter", "application data can be returned without the replay filter having accepted the counter: a replayed packet is delivered twice")
			cutD := cutErrNilOf(dec)
			r.Check(core.GuardEdges(fn, cutD) > 0 && core.GuardedFromEntry(fn, val, cutD), "C02-REPLAY", core.FnName(fn)+" filter after decrypt", p.Pos(val.Pos()), "the replay filter is consulted only after the packet decrypted successfully", "the replay filter is updated before authentication: forged packets move the window and make genuine packets look replayed")
			mN, okN := msgMethodOn(val.Call.Args[1], "GetNonce")
			mD, okD := msgMethodOn(dec.Call.Args[1], "GetNonce")
			r.Check(okN && okD && core.SameSource(mN, mD), "C02-REPLAY", core.FnName(fn)+" filter counter", p.Pos(val.Pos()), "the filter judges the counter of the message that was decrypted", "the replay filter judges a counter other than the decrypted message's")
		}
	}

	// ---- C02-COUNTER-ALLOC
	r.Rule("C02-COUNTER-ALLOC", "Send seals with the value of one atomic add on the counter, below the message limit; only Session transitions store the counter", 3)
	{
		fn := sessSend
		nonceF := needField(r, "p/p2pke", "Session", "nonce")
		var enc *ssa.Call
		for _, in := range core.AllInstrs(fn) {
			if c, ok := in.(*ssa.Call); ok && isCipherCall(c.Common(), "Encrypt") {
				enc = c
			}
		}
		if enc == nil || nonceF == nil {
			r.Fail("C02-COUNTER-ALLOC: Encrypt call not found in Session.Send")
		} else {
			isAdd := func(x ssa.Value) bool {
				c, ok := x.(*ssa.Call)
				if !ok || core.CalleeName(c.Common()) != "sync/atomic.AddUint64" {
					return false
				}
				f, _ := core.FieldOfAddr(c.Call.Args[0])
				return core.SameField(f, nonceF)
			}
			okA := core.DerivesFromDirect(enc.Call.Args[1], isAdd) && !core.DerivesFromDirect(enc.Call.Args[1], func(x ssa.Value) bool {
				c, ok := x.(*ssa.Call)
				return ok && strings.HasPrefix(core.CalleeName(c.Common()), "sync/atomic.Load")
			})
			// exactly one add
			adds := 0
			for _, in := range core.AllInstrs(fn) {
				if v, ok := in.(ssa.Value); ok && isAdd(v) {
					adds++
				}
			}
			r.Check(okA && adds == 1, "C02-COUNTER-ALLOC", core.FnName(fn)+" counter", p.Pos(enc.Pos()), "the sealing counter is the result of the single atomic add", "the counter used for sealing is not the value reserved by one atomic add (a separate load lets two concurrent Sends seal with the same counter)")
			// limit guard dominates the add
			maxNonce := p.Object(core.ModPath+"/p/p2pke", "MaxNonce")
			cutLim := core.CutWhere(func(cond ssa.Value) int {
				b, ok := cond.(*ssa.BinOp)
				if !ok || (b.Op != token.GEQ && b.Op != token.GTR) {
					return 0
				}
				if _, isK := core.ConstInt(b.Y); !isK {
					return 0
				}
				ld, okL := b.X.(*ssa.Call)
				if okL && strings.HasPrefix(core.CalleeName(ld.Common()), "sync/atomic.Load") {
					return -1
				}
				if f, _ := core.FieldRead(b.X); core.SameField(f, nonceF) {
					return -1
				}
				return 0
			})
			_ = maxNonce
			okL := core.GuardEdges(fn, cutLim) > 0
			for _, in := range core.AllInstrs(fn) {
				if v, ok := in.(ssa.Value); ok && isAdd(v) && !core.GuardedFromEntry(fn, in, cutLim) {
					okL = false
				}
			}
			r.Check(okL, "C02-COUNTER-ALLOC", core.FnName(fn)+" limit", p.Pos(enc.Pos()), "the counter is compared with the message limit before it is advanced", "the counter is advanced without a limit check: after 2^32 messages counters repeat under the same key")
		}
		// writers of nonce: Session methods only
		okW := true
		for _, f := range p.ModFuncs {
			for _, st := range core.StoresToField(f, nonceF) {
				if f != readHandshake && f != sessDeliver && f != sessionDataFn(p, sessDeliver, "Decrypt") {
					okW = false
					r.Violation("C02-COUNTER-ALLOC", core.FnName(f)+" stores nonce", p.Pos(st.Pos()), "the outbound counter is assigned outside the handshake transitions: a reset re-uses counters under the same key")
				}
			}
		}
		if okW {
			r.OK("C02-COUNTER-ALLOC", "writers of Session.nonce", "-", "only readHandshake and Deliver assign the counter (to the post-handshake constant)")
		}
	}

	// ---- C02-SEND-COUNTER (typestate)
	r.Rule("C02-SEND-COUNTER", "every state of the extracted session machine that can send has a post-handshake counter", 4)
	// C02-AUTHENTIC (shared with C03-AUTH-PATH): a plaintext is delivered only by a session state that
	// was reached through the role's signature verification, i.e. it came from the authenticated peer
	r.Rule("C02-COUNTER-NO-RESET", "no transition from a state with a post-handshake counter stores the counter (only Send's atomic increment moves it)", 10)
	r.Rule("C02-AUTHENTIC", "every session state that can deliver application data was reached through the role's signature verifications", 4)
	if ts := buildTypestate(r); ts != nil {
		if ts.err != nil {
			r.Fail("typestate extraction failed: %v", ts.err)
		} else {
			ts.describe(r)
			ts.checkSendCounter("C02-SEND-COUNTER")
			ts.checkAuthPath("C02-AUTHENTIC")
			ruleVerifyInside(r, "C02-AUTHENTIC")
			ts.checkCounterNoReset("C02-COUNTER-NO-RESET")
		}
	}

	// ---- C02-PINNED-KEY (shared with C05): "the authenticated peer of that same channel ... even across
	// session rotation": a rotated session is admitted only with the pinned key, and the pin has one writer
	r.Rule("C02-PINNED-KEY", "an established channel admits a new session only with its pinned key; the pin is written by onReadySession only", 2)
	if cs := resolveChan(r); cs != nil && len(r.Failures) == 0 {
		ruleCheckKeyShape(r, cs, "C02-PINNED-KEY")
		ruleKeyWriters(r, cs, "C02-PINNED-KEY")
		ruleRejectIsError(r, cs, "C02-PINNED-KEY")
	}

	// ---- C02-PLAINTEXT-OWNED (shared with C14/C01-DELIVER-OWNED): the swarm layer hands the decrypted plaintext to
	// the application (and handshake replies to the transport) after the channel's lock is released; out of a
	// buffer shared by the receive workers the next packet's plaintext replaces it: one message is delivered twice,
	// another never, or application plaintext goes out where a handshake reply was meant
	r.Rule("C02-PLAINTEXT-OWNED", "the plaintext a layer hands to a hub is not backed by a slice held in shared state", 8)
	ruleDeliverOwned(r, resolveHubs(r), "C02-PLAINTEXT-OWNED")

	// ---- C02-NO-PLAINTEXT
	r.Rule("C02-NO-PLAINTEXT", "plaintext parameters are used only to be sealed; Send returns the AEAD output", 4)
	{
		// Session.Send(out, ptext, now): ptext only as the plaintext argument of Encrypt
		fn := sessSend
		ptext := fn.Params[2]
		okUse := true
		for _, ref := range paramUses(ptext) {
			if c, ok := ref.(*ssa.Call); ok && isCipherCall(c.Common(), "Encrypt") && c.Call.Args[3] == ssa.Value(ptext) {
				continue
			}
			if _, isDbg := ref.(*ssa.DebugRef); isDbg {
				continue
			}
			okUse = false
		}
		r.Check(okUse, "C02-NO-PLAINTEXT", core.FnName(fn)+" ptext", p.Pos(fn.Pos()), "the plaintext is used only as the AEAD's plaintext argument", "the plaintext is used other than as the AEAD input (appended to the output, logged or kept): application data appears on the transport unencrypted")
		okRet := true
		for _, ret := range core.Returns(fn) {
			for _, v := range core.ReturnValues(ret, 0) {
				if core.IsNilConst(v) {
					continue
				}
				c, _, ok := core.CallResult(v)
				if !ok || !isCipherCall(c.Common(), "Encrypt") {
					okRet = false
				}
			}
		}
		r.Check(okRet, "C02-NO-PLAINTEXT", core.FnName(fn)+" result", p.Pos(fn.Pos()), "what Send returns is the AEAD's output", "Send returns bytes that did not come out of the AEAD")
	}
	if chSend := needFn(r, "p/p2pke", "Channel.Send"); chSend != nil {
		// x only flows into VecBytes(nil, x) -> s.Send(nil, _, now)
		okC := true
		x := chSend.Params[2]
		for _, f := range core.WithAnons(chSend) {
			for _, in := range core.AllInstrs(f) {
				c, ok := in.(*ssa.Call)
				if !ok {
					continue
				}
				for ai, a := range c.Call.Args {
					if core.Through(a) != ssa.Value(x) {
						continue
					}
					name := core.CalleeName(c.Common())
					if strings.HasSuffix(name, "p2p.VecBytes") && ai == 1 {
						// its result must only feed Session.Send's plaintext
						for _, ref := range *c.Referrers() {
							if c2, ok := ref.(*ssa.Call); ok && core.IsCallToFn(c2.Common(), sessSend) && c2.Call.Args[2] == ssa.Value(c) {
								continue
							}
							if _, isDbg := ref.(*ssa.DebugRef); isDbg {
								continue
							}
							okC = false
						}
						continue
					}
					okC = false
				}
			}
		}
		r.Check(okC, "C02-NO-PLAINTEXT", core.FnName(chSend)+" x", p.Pos(chSend.Pos()), "the payload only flows into Session.Send's plaintext", "the channel uses the payload other than by sealing it")
	}
	if tell := needFn(r, "s/p2pkeswarm", "Swarm.Tell"); tell != nil {
		v := tell.Params[3]
		okT := true
		for _, ref := range paramUses(v) {
			c, ok := ref.(*ssa.Call)
			if !ok {
				if _, isDbg := ref.(*ssa.DebugRef); !isDbg {
					okT = false
				}
				continue
			}
			name := core.CalleeName(c.Common())
			if strings.HasSuffix(name, "p2p.VecSize") || strings.HasSuffix(name, "p2pke.Channel).Send") {
				continue
			}
			okT = false
		}
		r.Check(okT, "C02-NO-PLAINTEXT", core.FnName(tell)+" v", p.Pos(tell.Pos()), "the payload is only measured and handed to Channel.Send", "p2pkeswarm.Tell hands the payload to something other than the secure channel (e.g. the inner swarm): plaintext on the transport")
	}
}

// paramUses: referrers of a parameter, looking through the spill cell go/ssa
// creates when a literal captures it.
func paramUses(prm *ssa.Parameter) []ssa.Instruction {
	var uses []ssa.Instruction
	for _, ref := range *prm.Referrers() {
		if st, ok := ref.(*ssa.Store); ok && st.Val == ssa.Value(prm) {
			if a, ok := st.Addr.(*ssa.Alloc); ok {
				for _, r2 := range *a.Referrers() {
					if r2 == ssa.Instruction(st) {
						continue
					}
					if ld, ok := r2.(*ssa.UnOp); ok {
						uses = append(uses, *ld.Referrers()...)
					} else {
						uses = append(uses, r2)
					}
				}
				continue
			}
		}
		uses = append(uses, ref)
	}
	return uses
}

// sessionDataFn: the function in which a Session entry point uses the AEAD: the entry point itself, or the one
// method of the same receiver it calls directly that contains the cipher call (the data branch split off into a
// helper that only the entry point calls).
func sessionDataFn(p *core.Prog, entry *ssa.Function, method string) *ssa.Function {
	has := func(fn *ssa.Function) bool {
		for _, in := range core.AllInstrs(fn) {
			if c, ok := in.(*ssa.Call); ok && isCipherCall(c.Common(), method) {
				return true
			}
		}
		return false
	}
	if entry == nil || has(entry) {
		return entry
	}
	var found *ssa.Function
	for _, in := range core.AllInstrs(entry) {
		c, ok := in.(*ssa.Call)
		if !ok {
			continue
		}
		g := core.StaticCallee(c.Common())
		if g == nil || !p.InModule(g) || g.Blocks == nil || g.Signature.Recv() == nil || entry.Signature.Recv() == nil {
			continue
		}
		if g.Signature.Recv().Type().String() != entry.Signature.Recv().Type().String() || !has(g) {
			continue
		}
		// only the entry point may call it
		only := true
		for _, f := range p.ModFuncs {
			if f == entry {
				continue
			}
			for _, ci := range core.CallsToFn(f, g) {
				_ = ci
				only = false
			}
		}
		if only {
			found = g
		}
	}
	if found != nil {
		return found
	}
	return entry
}
