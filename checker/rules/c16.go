package rules

import (
	"fmt"
	"go/constant"
	"go/types"
	"os"
	"regexp/syntax"
	"sort"
	"strings"
	"time"

	"golang.org/x/tools/go/ssa"

	"p2pverif/core"
)

func init() { All["C16"] = c16 }

// ---- library languages (trusted summaries; each regex is written from the
// documentation of the standard library function it stands for)

const reOctet = `(25[0-5]|2[0-4][0-9]|1[0-9][0-9]|[1-9]?[0-9])`
const reV4 = reOctet + `\.` + reOctet + `\.` + reOctet + `\.` + reOctet
const reH = `(0|[1-9a-f][0-9a-f]{0,3})`
const reZone = `(%[A-Za-z0-9._\-]+)?`

// canonical (RFC 5952) IPv6 text as printed by netip.Addr.String: eight groups, or
// one "::" with at most seven groups around it; 4-in-6 prints ::ffff:a.b.c.d
func reV6() string {
	var alts []string
	alts = append(alts, reH+`(:`+reH+`){7}`)
	for left := 0; left <= 7; left++ {
		for right := 0; left+right <= 7; right++ {
			l, rr := "", ""
			if left > 0 {
				l = reH
				if left > 1 {
					l += fmt.Sprintf(`(:%s){%d}`, reH, left-1)
				}
			}
			if right > 0 {
				rr = reH
				if right > 1 {
					rr += fmt.Sprintf(`(:%s){%d}`, reH, right-1)
				}
			}
			alts = append(alts, l+`::`+rr)
		}
	}
	alts = append(alts, `::ffff:`+reV4)
	return `(` + strings.Join(alts, `|`) + `)` + reZone
}

type libLangs struct {
	netipStr, netipParse, v4, v6 *core.DFA
	uint16Fmt, uint16Parse       *core.DFA
	itoa, atoi                   *core.DFA
	fpSHA256, scheme, any        *core.DFA
	peerID                       *core.DFA
	noColon, noAt                *core.DFA
}

func newLibLangs(alphabet string) *libLangs {
	l := &libLangs{}
	l.v4 = core.MustLang(reV4)
	l.v6 = core.MustLang(reV6())
	l.netipStr = l.v4.Union(l.v6)   // what netip.Addr.String prints for a valid address
	l.netipParse = l.v4.Union(l.v6) // a subset of what netip.ParseAddr accepts
	l.uint16Fmt = core.MustLang(`0|[1-9][0-9]{0,4}`)
	l.uint16Parse = core.MustLang(`[0-9]{1,5}`)
	l.itoa = core.MustLang(`-?(0|[1-9][0-9]*)`)
	l.atoi = core.MustLang(`[+\-]?[0-9]+`)
	l.fpSHA256 = core.MustLang(`SHA256:[A-Za-z0-9+/]{43}`)
	l.scheme = core.MustLang(`[A-Za-z][A-Za-z0-9+.\-]*`)
	l.any = core.MustLang(`[^\n]+`)
	cls := "["
	for i := 0; i < len(alphabet); i++ {
		c := alphabet[i]
		if strings.ContainsRune(`\]^-`, rune(c)) {
			cls += `\`
		}
		cls += string(c)
	}
	cls += "]"
	l.peerID = core.MustLang(cls + `{43}`)
	l.noColon = core.MustLang(`[^:\[\]]*`)
	l.noAt = core.MustLang(`[^@]*`)
	return l
}

// hostPortSplit: language accepted by net.SplitHostPort followed by the given
// sub-parsers: host:port with a colon-free host, or [host]:port.
func (l *libLangs) hostPortParse(host, port *core.DFA) *core.DFA {
	plain := host.Intersect(l.noColon).Concat(core.LangLiteral(":")).Concat(port)
	br := core.LangLiteral("[").Concat(host.Intersect(core.MustLang(`[^\]]*`))).Concat(core.LangLiteral("]:")).Concat(port)
	return plain.Union(br)
}

// joinHostPort: what net.JoinHostPort(h, p) produces.
func (l *libLangs) joinHostPort(host, port *core.DFA) *core.DFA {
	hasColon := core.MustLang(`[^\n]*[:%][^\n]*`)
	plain := host.Minus(hasColon).Concat(core.LangLiteral(":")).Concat(port)
	br := core.LangLiteral("[").Concat(host.Intersect(hasColon)).Concat(core.LangLiteral("]:")).Concat(port)
	return plain.Union(br)
}

// ---- symbolic evaluation of the marshal side

type symEval struct {
	r     *core.Report
	lib   *libLangs
	inner *core.DFA // language substituted for a nested address (nil: not allowed)
	fn    *ssa.Function
	// fieldLang: languages of string-typed struct fields, from their producers
	fieldLang map[string]*core.DFA
	err       error
}

func (e *symEval) fail(format string, a ...any) *core.DFA {
	if e.err == nil {
		e.err = fmt.Errorf(format, a...)
	}
	return core.MustLang(`(?:)`)
}

func (e *symEval) intLang(t types.Type) *core.DFA {
	if b, ok := t.Underlying().(*types.Basic); ok {
		switch b.Kind() {
		case types.Uint16:
			return e.lib.uint16Fmt
		case types.Int, types.Int64, types.Int32:
			return e.lib.itoa
		}
	}
	return nil
}

func (e *symEval) eval(v ssa.Value) *core.DFA {
	v = core.Through(v)
	switch x := v.(type) {
	case *ssa.Const:
		if x.Value != nil && x.Value.Kind() == constant.String {
			return core.LangLiteral(constant.StringVal(x.Value))
		}
	case *ssa.Convert:
		return e.eval(x.X)
	case *ssa.ChangeType:
		return e.eval(x.X)
	case *ssa.MakeInterface:
		return e.eval(x.X)
	case *ssa.Extract:
		if c, ok := x.Tuple.(*ssa.Call); ok && x.Index == 0 {
			return e.evalCall(c)
		}
	case *ssa.Call:
		return e.evalCall(x)
	case *ssa.BinOp:
		if x.Op.String() == "+" {
			return e.eval(x.X).Concat(e.eval(x.Y))
		}
	case *ssa.UnOp, *ssa.Field:
		if f, _ := core.FieldRead(v); f != nil {
			if l, ok := e.fieldLang[f.Name()]; ok {
				return l
			}
			if il := e.intLang(f.Type()); il != nil {
				return il
			}
			return e.fail("%s: no language known for field %s", e.fn.Name(), f.Name())
		}
	}
	return e.fail("%s: unrecognised construct %T (%s) on the marshal path", e.fn.Name(), v, v)
}

func (e *symEval) evalCall(c *ssa.Call) *core.DFA {
	name := core.CalleeName(c.Common())
	args := c.Call.Args
	switch name {
	case "strconv.Itoa":
		// the digits of a value converted from an unsigned 16-bit field are those of a uint16
		if cv, ok := args[0].(*ssa.Convert); ok {
			if il := e.intLang(cv.X.Type()); il != nil {
				return il
			}
		}
		return e.lib.itoa
	case "(net/netip.Addr).String":
		return e.lib.netipStr
	case "fmt.Sprintf":
		return e.format(args[0], args[1])
	case "net.JoinHostPort":
		return e.lib.joinHostPort(e.eval(args[0]), e.eval(args[1]))
	case "strconv.FormatUint", "strconv.FormatInt":
		return e.lib.uint16Fmt.Union(e.lib.itoa)
	case "(*bytes.Buffer).Bytes", "(*bytes.Buffer).String":
		return e.buffer(args[0], c)
	}
	if c.Call.IsInvoke() {
		switch c.Call.Method.Name() {
		case "MarshalText", "String":
			// nested address (type parameter or p2p.Addr interface)
			if e.inner == nil {
				return e.fail("%s: nested address but no inner language", e.fn.Name())
			}
			return e.inner
		}
	}
	if sc := core.StaticCallee(c.Common()); sc != nil {
		switch {
		case sc.Name() == "String" || sc.Name() == "Base64String" || sc.Name() == "MarshalText" || sc.Name() == "Key":
			if rt := sc.Signature.Recv(); rt != nil && strings.HasSuffix(rt.Type().String(), "p2p.PeerID") {
				return e.lib.peerID
			}
			// same type's String/Key delegating to MarshalText: follow
			sub := &symEval{r: e.r, lib: e.lib, inner: e.inner, fn: sc, fieldLang: e.fieldLang}
			l := sub.function(sc)
			if sub.err != nil && e.err == nil {
				e.err = sub.err
			}
			return l
		}
	}
	return e.fail("%s: unrecognised call %s on the marshal path", e.fn.Name(), name)
}

// function: the language of the first result of a marshal-like function.
func (e *symEval) function(fn *ssa.Function) *core.DFA {
	e.fn = fn
	var out *core.DFA
	for _, ret := range core.Returns(fn) {
		vals := core.ReturnValues(ret, 0)
		// error returns (nil, err) of MarshalText do not produce text
		if len(ret.Results) == 2 && !core.IsNilConst(ret.Results[1]) {
			continue
		}
		for _, v := range vals {
			l := e.eval(v)
			if out == nil {
				out = l
			} else {
				out = out.Union(l)
			}
		}
	}
	if out == nil {
		return e.fail("%s: no successful return", fn.Name())
	}
	return out
}

// format: Sprintf-style format applied to a varargs slice.
func (e *symEval) format(f ssa.Value, va ssa.Value) *core.DFA {
	fc, ok := f.(*ssa.Const)
	if !ok || fc.Value == nil {
		return e.fail("%s: non-constant format", e.fn.Name())
	}
	format := constant.StringVal(fc.Value)
	var elems []ssa.Value
	if sl, ok := va.(*ssa.Slice); ok {
		if arr, ok := sl.X.(*ssa.Alloc); ok {
			byIdx := map[int64]ssa.Value{}
			for _, ref := range *arr.Referrers() {
				if ia, ok := ref.(*ssa.IndexAddr); ok {
					k, _ := core.ConstInt(ia.Index)
					for _, r2 := range *ia.Referrers() {
						if st, ok := r2.(*ssa.Store); ok {
							byIdx[k] = st.Val
						}
					}
				}
			}
			for i := int64(0); i < int64(len(byIdx)); i++ {
				elems = append(elems, byIdx[i])
			}
		}
	}
	out := core.MustLang(`(?:)`)
	lit := ""
	flush := func() {
		if lit != "" {
			out = out.Concat(core.LangLiteral(lit))
			lit = ""
		}
	}
	ai := 0
	for i := 0; i < len(format); i++ {
		if format[i] != '%' {
			lit += string(format[i])
			continue
		}
		i++
		if i >= len(format) {
			return e.fail("%s: bad format", e.fn.Name())
		}
		if format[i] == '%' {
			lit += "%"
			continue
		}
		if ai >= len(elems) {
			return e.fail("%s: format has more verbs than arguments", e.fn.Name())
		}
		arg := elems[ai]
		ai++
		flush()
		switch format[i] {
		case 's', 'v':
			inner := arg
			if mi, ok := arg.(*ssa.MakeInterface); ok {
				inner = mi.X
			}
			if il := e.intLang(inner.Type()); il != nil && format[i] == 'v' {
				out = out.Concat(il)
			} else {
				out = out.Concat(e.eval(inner))
			}
		case 'd':
			inner := arg
			if mi, ok := arg.(*ssa.MakeInterface); ok {
				inner = mi.X
			}
			il := e.intLang(inner.Type())
			if il == nil {
				return e.fail("%s: %%d of a non-integer", e.fn.Name())
			}
			out = out.Concat(il)
		default:
			return e.fail("%s: unsupported verb %%%c", e.fn.Name(), format[i])
		}
	}
	flush()
	return out
}

// buffer: concatenation of the writes to a local bytes.Buffer that dominate `at`.
func (e *symEval) buffer(bufAddr ssa.Value, at ssa.Instruction) *core.DFA {
	alloc, ok := bufAddr.(*ssa.Alloc)
	if !ok {
		return e.fail("%s: buffer is not a local", e.fn.Name())
	}
	type wr struct {
		in   ssa.Instruction
		lang *core.DFA
	}
	var writes []wr
	for _, ref := range *alloc.Referrers() {
		c, ok := ref.(*ssa.Call)
		if !ok || ref == at {
			continue
		}
		name := core.CalleeName(c.Common())
		switch name {
		case "(*bytes.Buffer).WriteString", "(*bytes.Buffer).Write":
			writes = append(writes, wr{c, e.eval(c.Call.Args[1])})
		case "(*bytes.Buffer).Bytes", "(*bytes.Buffer).String":
		default:
			return e.fail("%s: unrecognised use of the buffer: %s", e.fn.Name(), name)
		}
	}
	// fmt.Fprintf(&buf, ...): the buffer is boxed into an io.Writer
	for _, ref := range *alloc.Referrers() {
		mi, ok := ref.(*ssa.MakeInterface)
		if !ok {
			continue
		}
		for _, r2 := range *mi.Referrers() {
			c, ok := r2.(*ssa.Call)
			if !ok {
				continue
			}
			if core.CalleeName(c.Common()) == "fmt.Fprintf" {
				writes = append(writes, wr{c, e.format(c.Call.Args[1], c.Call.Args[2])})
			} else {
				return e.fail("%s: buffer passed to %s", e.fn.Name(), core.CalleeName(c.Common()))
			}
		}
	}
	// order by dominance; every write must dominate `at`
	out := core.MustLang(`(?:)`)
	for len(writes) > 0 {
		pick := -1
		for i, w := range writes {
			first := true
			for j, o := range writes {
				if i != j && !core.InstrDominates(w.in, o.in) {
					first = false
				}
			}
			if first {
				pick = i
			}
		}
		if pick < 0 || !core.InstrDominates(writes[pick].in, at) {
			return e.fail("%s: buffer writes are not a straight-line sequence", e.fn.Name())
		}
		out = out.Concat(writes[pick].lang)
		writes = append(writes[:pick], writes[pick+1:]...)
	}
	return out
}

// ---- the parse side

type parseEval struct {
	r     *core.Report
	lib   *libLangs
	inner *core.DFA
	err   error
	notes []string
}

func (pe *parseEval) fail(format string, a ...any) *core.DFA {
	if pe.err == nil {
		pe.err = fmt.Errorf(format, a...)
	}
	return core.MustLang(`[^\x00-\x{10FFFF}]`)
}

// subParserLang: the language accepted by the call c applied to one piece.
func (pe *parseEval) subParserLang(c *ssa.Call) *core.DFA {
	name := core.CalleeName(c.Common())
	switch name {
	case "net/netip.ParseAddr":
		return pe.lib.netipParse
	case "strconv.Atoi":
		return pe.lib.atoi
	case "strconv.ParseUint":
		base, _ := core.ConstInt(c.Call.Args[1])
		bits, _ := core.ConstInt(c.Call.Args[2])
		if base == 10 && bits == 16 {
			return pe.lib.uint16Parse
		}
		return pe.fail("ParseUint with base %d bits %d is not summarised", base, bits)
	case "fmt.Sscan":
		return pe.lib.uint16Parse
	}
	if sc := core.StaticCallee(c.Common()); sc != nil && sc.Name() == "UnmarshalText" && sc.Signature.Recv() != nil && strings.HasSuffix(sc.Signature.Recv().Type().String(), "p2p.PeerID") {
		return pe.lib.peerID
	}
	// a parser supplied from outside (function parameter, map element, field): the nested address
	if !c.Call.IsInvoke() && core.StaticCallee(c.Common()) == nil {
		if pe.inner == nil {
			return pe.fail("nested parser but no inner language")
		}
		return pe.inner
	}
	if sc := core.StaticCallee(c.Common()); sc != nil && pe.r.P.InModule(sc) {
		return pe.function(sc)
	}
	return pe.fail("unrecognised sub-parser %s", name)
}

// pieceUsers: calls whose first data argument derives (directly) from piece.
func pieceUsers(fn *ssa.Function, isPiece func(ssa.Value) bool) []*ssa.Call {
	var out []*ssa.Call
	for _, in := range core.AllInstrs(fn) {
		c, ok := in.(*ssa.Call)
		if !ok {
			continue
		}
		if b, isB := c.Call.Value.(*ssa.Builtin); isB && b != nil {
			continue
		}
		for _, a := range c.Call.Args {
			if core.DerivesFromDirect(a, isPiece) {
				name := core.CalleeName(c.Common())
				if strings.HasPrefix(name, "log.") || strings.Contains(name, "errors.") || strings.HasPrefix(name, "fmt.Errorf") {
					continue
				}
				out = append(out, c)
				break
			}
		}
	}
	return out
}

func (pe *parseEval) function(fn *ssa.Function) *core.DFA {
	pe.r.Analysed(fn)
	data := ssa.Value(nil)
	for _, prm := range fn.Params {
		if types.Identical(prm.Type(), types.NewSlice(types.Typ[types.Byte])) {
			data = prm
		}
	}
	if data == nil {
		return pe.fail("%s: no []byte parameter", fn.Name())
	}
	fromData := func(v ssa.Value) bool { return core.Through(v) == data }
	// tokenizers
	for _, in := range core.AllInstrs(fn) {
		c, ok := in.(*ssa.Call)
		if !ok {
			continue
		}
		name := core.CalleeName(c.Common())
		switch name {
		case "(*regexp.Regexp).FindSubmatch":
			if !core.DerivesFromDirect(c.Call.Args[1], fromData) {
				continue
			}
			return pe.regexParser(fn, c)
		case "net.SplitHostPort":
			host := func(v ssa.Value) bool {
				e, ok := v.(*ssa.Extract)
				return ok && e.Tuple == ssa.Value(c) && e.Index == 0
			}
			port := func(v ssa.Value) bool {
				e, ok := v.(*ssa.Extract)
				return ok && e.Tuple == ssa.Value(c) && e.Index == 1
			}
			hl, pl := pe.lib.any, pe.lib.any
			for _, u := range pieceUsers(fn, host) {
				hl = hl.Intersect(pe.subParserLang(u))
			}
			for _, u := range pieceUsers(fn, port) {
				pl = pl.Intersect(pe.subParserLang(u))
			}
			return pe.lib.hostPortParse(hl, pl)
		case "bytes.SplitN", "bytes.Split":
			sepC, ok := core.Through(core.Peel(c.Call.Args[1])).(*ssa.Const)
			if !ok || sepC.Value == nil {
				return pe.fail("%s: Split separator is not constant", fn.Name())
			}
			sep := constant.StringVal(sepC.Value)
			splitAll := name == "bytes.Split"
			if !splitAll {
				if k, _ := core.ConstInt(c.Call.Args[2]); k != 2 {
					return pe.fail("%s: SplitN with n != 2", fn.Name())
				}
			}
			piece := func(i int64) func(ssa.Value) bool {
				return func(v ssa.Value) bool {
					u, ok := v.(*ssa.UnOp)
					if !ok {
						return false
					}
					ia, ok := u.X.(*ssa.IndexAddr)
					if !ok || ia.X != ssa.Value(c) {
						return false
					}
					k, isK := core.ConstInt(ia.Index)
					return isK && k == i
				}
			}
			l0, l1 := pe.lib.any, pe.lib.any
			n0, n1 := 0, 0
			for _, u := range pieceUsers(fn, piece(0)) {
				l0 = l0.Intersect(pe.subParserLang(u))
				n0++
			}
			for _, u := range pieceUsers(fn, piece(1)) {
				l1 = l1.Intersect(pe.subParserLang(u))
				n1++
			}
			if n0+n1 == 0 {
				return pe.fail("%s: no piece of the split is handed to a sub-parser", fn.Name())
			}
			// the split happens at the FIRST separator
			noSep := core.MustLang(`(?s).*`).Minus(core.MustLang(`(?s).*` + syntaxQuote(sep) + `(?s).*`))
			if splitAll {
				// bytes.Split cuts at EVERY separator: with two pieces used (and the usual len == 2 test)
				// neither piece can contain the separator; text with a second separator is rejected or
				// loses its tail, so it is not in the language that round-trips
				l1 = l1.Intersect(noSep)
			}
			return l0.Intersect(noSep).Concat(core.LangLiteral(sep)).Concat(l1)
		}
	}
	// direct: a single sub-parser applied to the whole input, or delegation
	users := pieceUsers(fn, fromData)
	if len(users) == 1 {
		return pe.subParserLang(users[0])
	}
	return pe.fail("%s: unrecognised parser shape (%d users of the input)", fn.Name(), len(users))
}

func syntaxQuote(s string) string {
	var b strings.Builder
	for i := 0; i < len(s); i++ {
		if strings.ContainsRune(`\.+*?()|[]{}^$`, rune(s[i])) {
			b.WriteByte('\\')
		}
		b.WriteByte(s[i])
	}
	return b.String()
}

// regexParser: `^ G1 sep G2 sep G3 $` with sub-parsers applied to the groups.
func (pe *parseEval) regexParser(fn *ssa.Function, fs *ssa.Call) *core.DFA {
	// the regexp: a package-level variable initialised with regexp.MustCompile(const)
	ld, ok := fs.Call.Args[0].(*ssa.UnOp)
	if !ok {
		return pe.fail("%s: regexp is not a package variable", fn.Name())
	}
	g, ok := ld.X.(*ssa.Global)
	if !ok {
		return pe.fail("%s: regexp is not a package variable", fn.Name())
	}
	expr := ""
	if init := g.Pkg.Func("init"); init != nil {
		for _, in := range core.AllInstrs(init) {
			st, ok := in.(*ssa.Store)
			if !ok || st.Addr != ssa.Value(g) {
				continue
			}
			if c, ok := st.Val.(*ssa.Call); ok && core.CalleeName(c.Common()) == "regexp.MustCompile" {
				if k, ok := c.Call.Args[0].(*ssa.Const); ok && k.Value != nil {
					expr = constant.StringVal(k.Value)
				}
			}
		}
	}
	if expr == "" {
		return pe.fail("%s: regexp source not found", fn.Name())
	}
	pe.notes = append(pe.notes, fmt.Sprintf("%s uses %s = %q", fn.Name(), g.Name(), expr))
	re, err := syntax.Parse(expr, syntax.Perl)
	if err != nil {
		return pe.fail("%s: %v", fn.Name(), err)
	}
	if re.Op != syntax.OpConcat {
		return pe.fail("%s: regexp is not a concatenation", fn.Name())
	}
	type piece struct {
		lang  *core.DFA
		lit   string
		group int
	}
	var pieces []piece
	ng := 0
	for _, sub := range re.Sub {
		switch sub.Op {
		case syntax.OpBeginText, syntax.OpEndText, syntax.OpBeginLine, syntax.OpEndLine, syntax.OpEmptyMatch:
		case syntax.OpLiteral:
			pieces = append(pieces, piece{lit: string(sub.Rune)})
		case syntax.OpCapture:
			ng++
			l, err := core.LangFromRegex(sub.Sub[0].String())
			if err != nil {
				return pe.fail("%s: %v", fn.Name(), err)
			}
			pieces = append(pieces, piece{lang: l, group: ng})
		default:
			return pe.fail("%s: unsupported top-level regexp element %s", fn.Name(), sub)
		}
	}
	// sub-parsers per group: matches[k]
	for i := range pieces {
		if pieces[i].group == 0 {
			continue
		}
		k := int64(pieces[i].group)
		isPiece := func(v ssa.Value) bool {
			u, ok := v.(*ssa.UnOp)
			if !ok {
				return false
			}
			ia, ok := u.X.(*ssa.IndexAddr)
			if !ok || ia.X != ssa.Value(fs) {
				return false
			}
			kk, isK := core.ConstInt(ia.Index)
			return isK && kk == k
		}
		for _, u := range pieceUsers(fn, isPiece) {
			pieces[i].lang = pieces[i].lang.Intersect(pe.subParserLang(u))
		}
		// a map lookup keyed by the group with an existence check: the key must be registered
		for _, in := range core.AllInstrs(fn) {
			if lk, ok := in.(*ssa.Lookup); ok && lk.CommaOk && core.DerivesFromDirect(lk.Index, isPiece) {
				pieces[i].lang = pieces[i].lang.Intersect(pe.lib.scheme)
			}
		}
	}
	// unambiguity of every literal separator, then concatenate
	total := func(ps []piece) *core.DFA {
		out := core.MustLang(`(?:)`)
		for _, p := range ps {
			if p.group == 0 {
				out = out.Concat(core.LangLiteral(p.lit))
			} else {
				out = out.Concat(p.lang)
			}
		}
		return out
	}
	for i, p := range pieces {
		if p.group != 0 {
			continue
		}
		before, after := total(pieces[:i]), total(pieces[i+1:])
		if !core.FirstSplitUnambiguous(before, p.lit) && !core.LastSplitUnambiguous(after, p.lit) {
			return pe.fail("%s: separator %q can also occur inside the neighbouring groups: which decomposition the regexp engine picks is not decidable here", fn.Name(), p.lit)
		}
	}
	return total(pieces)
}

// ---- the property

func c16(r *core.Report) {
	p := r.P
	r.Explanation = "Grammar inclusion L(marshal) ⊆ L(parse) per address type, decided on automata: the WRITER language is extracted from the SSA of MarshalText/String by symbolic evaluation of the recognised constructors (constant formats of Sprintf/Fprintf typed by their arguments, bytes.Buffer write sequences, strconv, net.JoinHostPort, netip.Addr.String, nested MarshalText as a hole), the READER language from the parse function (regexp literal parsed with regexp/syntax with each capture group intersected with the language of the sub-parser its submatch is passed to; net.SplitHostPort; bytes.SplitN; strconv/netip/PeerID sub-parsers; nested parser as a hole), with library languages as trusted regular summaries; separators are checked to split unambiguously, so 'some decomposition parses' coincides with what the code does. Inclusion is decided by product construction and a shortest witness text is reported otherwise. Nested types are checked with the hole instantiated by 'any non-empty text without newline' (generic claim) and by each concrete inner language. Decided: the parser accepts everything the marshaller emits, at every nesting. Not decided: that the parsed address equals the original (needs the semantics of netip etc.), nor the behaviour of ParseAddr on arbitrary text beyond C08's panic-freedom."
	r.Assumptions = []string{"library summaries: netip.Addr.String prints dotted IPv4, RFC 5952 IPv6 (optional %zone) or ::ffff:a.b.c.d and netip.ParseAddr accepts all of those; %d of a uint16 = 0|[1-9][0-9]{0,4}; Sscan/ParseUint(…,10,16) accept 1-5 digits (the bound 65535 is approximated by length on both sides); ssh.FingerprintSHA256 = 'SHA256:' + 43 characters of [A-Za-z0-9+/]; net.SplitHostPort/JoinHostPort as documented", "scheme names chosen by applications match [A-Za-z][A-Za-z0-9+.-]*", "swarms hand out valid netip addresses (the zero Addr prints 'invalid IP')"}
	r.Trusted = []string{"go/types, go/ssa (x/tools v0.29.0)", "regexp/syntax", "the DFA library in core/lang.go"}
	alpha, _ := p.Object(core.ModPath, "Base64Alphabet").(*types.Const)
	if alpha == nil {
		r.Fail("unresolved anchor: Base64Alphabet")
		return
	}
	lib := newLibLangs(constant.StringVal(alpha.Val()))
	r.Rule("C16-INCLUSION", "L(marshal) ⊆ L(parse) for every address type and nesting", 8)

	type addrType struct {
		name          string
		rel           string
		marshal       string
		parse         string
		nested        bool
		fieldProducer func(inner *core.DFA) map[string]*core.DFA
	}
	// string-typed fields: language from their producers in the module
	sshFields := func(inner *core.DFA) map[string]*core.DFA {
		// Fingerprint: produced by ssh.FingerprintSHA256 (LocalAddrs, newServer, NewAddr) and by ParseAddr (group 1)
		ok := true
		fpF := p.Field("s/sshswarm", "Addr", "Fingerprint")
		for _, fn := range p.ModFuncs {
			for _, st := range core.StoresToField(fn, fpF) {
				v := core.Through(st.Val)
				if c, isC := v.(*ssa.Call); isC && core.CalleeName(c.Common()) == "golang.org/x/crypto/ssh.FingerprintSHA256" {
					continue
				}
				if fn.Name() == "ParseAddr" {
					continue // values the parser itself produced are accepted by the parser's own group
				}
				if f2, _ := core.FieldRead(v); core.SameField(f2, fpF) {
					continue // copied from another address of the same type
				}
				ok = false
			}
		}
		if !ok {
			r.Fail("C16: sshswarm.Addr.Fingerprint has a producer that is neither ssh.FingerprintSHA256 nor the parser")
		}
		return map[string]*core.DFA{"Fingerprint": lib.fpSHA256}
	}
	multiFields := func(inner *core.DFA) map[string]*core.DFA {
		return map[string]*core.DFA{"Scheme": lib.scheme}
	}
	typesTab := []addrType{
		{"memswarm.Addr", "s/memswarm", "Addr.MarshalText", "ParseAddr", false, nil},
		{"udpswarm.Addr", "s/udpswarm", "Addr.MarshalText", "ParseAddr", false, nil},
		{"sshswarm.Addr", "s/sshswarm", "Addr.MarshalText", "ParseAddr", false, sshFields},
		{"p2pkeswarm.Addr", "s/p2pkeswarm", "Addr.MarshalText", "ParseAddr", true, nil},
		{"quicswarm.Addr", "s/quicswarm", "Addr.MarshalText", "ParseAddr", true, nil},
		{"multiswarm.Addr", "s/multiswarm", "Addr.MarshalText", "AddrSchema.ParseAddr", true, multiFields},
	}
	type wr struct{ w, rd *core.DFA }
	leaf := map[string]wr{}
	compute := func(t addrType, innerW, innerR *core.DFA) (w, rd *core.DFA, err error) {
		t0 := time.Now()
		defer func() {
			if os.Getenv("P2PVERIF_DEBUG") != "" {
				fmt.Println("compute", t.name, time.Since(t0))
			}
		}()
		mf := needFn(r, t.rel, t.marshal)
		pf := needFn(r, t.rel, t.parse)
		if mf == nil || pf == nil {
			return nil, nil, fmt.Errorf("unresolved anchors")
		}
		se := &symEval{r: r, lib: lib, inner: innerW, fieldLang: map[string]*core.DFA{}}
		if t.fieldProducer != nil {
			se.fieldLang = t.fieldProducer(innerW)
		}
		w = se.function(mf)
		if se.err != nil {
			return nil, nil, fmt.Errorf("marshal side: %v", se.err)
		}
		pe := &parseEval{r: r, lib: lib, inner: innerR}
		rd = pe.function(pf)
		if pe.err != nil {
			return nil, nil, fmt.Errorf("parse side: %v", pe.err)
		}
		return w, rd, nil
	}
	check := func(c string, pos string, w, rd *core.DFA) bool {
		ok, wit := w.SubsetOf(rd)
		r.Check(ok, "C16-INCLUSION", c, pos, "every text the marshaller can emit is accepted by the parser", fmt.Sprintf("the marshaller can emit %q, which the parser of the same swarm rejects: an address handed out by the swarm does not survive marshal and parse", wit))
		return ok
	}
	// PeerID
	{
		mf, uf := needFn(r, "", "PeerID.MarshalText"), needFn(r, "", "PeerID.UnmarshalText")
		if mf != nil && uf != nil {
			// writer: enc.Encode of 32 bytes with the module's alphabet, no padding (C17-ALPHABET checks the encoding object)
			check("p2p.PeerID", p.Pos(mf.Pos()), lib.peerID, lib.peerID)
		}
	}
	for _, t := range typesTab {
		mf := p.Func(t.rel, t.marshal)
		pos := "-"
		if mf != nil {
			pos = p.Pos(mf.Pos())
		}
		if !t.nested {
			w, rd, err := compute(t, nil, nil)
			if err != nil {
				r.Undecided("C16-INCLUSION", t.name, pos, err.Error())
				continue
			}
			if check(t.name, pos, w, rd) {
				leaf[t.name] = wr{w, rd}
			} else {
				leaf[t.name] = wr{w.Intersect(rd), rd}
			}
			continue
		}
		// generic: any inner text
		w, rd, err := compute(t, lib.any, lib.any)
		if err != nil {
			r.Undecided("C16-INCLUSION", t.name+"[any inner]", pos, err.Error())
			continue
		}
		check(t.name+"[any inner]", pos, w, rd)
		// concrete inner languages
		for _, in := range []string{"memswarm.Addr", "udpswarm.Addr", "sshswarm.Addr"} {
			l, ok := leaf[in]
			if !ok {
				continue
			}
			w2, rd2, err := compute(t, l.w, l.rd)
			if err != nil {
				r.Undecided("C16-INCLUSION", t.name+"["+in+"]", pos, err.Error())
				continue
			}
			check(t.name+"["+in+"]", pos, w2, rd2)
			if t.name == "quicswarm.Addr" && in == "udpswarm.Addr" {
				leaf["quic[udp]"] = wr{w2, rd2}
			}
		}
	}
	// ---- C16-TEXT-OWNED: the text a marshaller returns belongs to the caller: it is not backed by a
	// buffer taken from a pool (or any storage the next call reuses), or holding one address text while
	// marshalling another — a message's Src and Dst, an address nested in an address — rewrites the first
	// ---- C16-PARSE-TOTAL (shared with C17-ALPHABET / C08-LIB-CONTRACT): the identity part of an address is
	// decoded with base64, whose Decode panics on a destination shorter than the text asks for
	r.Rule("C16-PARSE-TOTAL", "the identity part of an address reaches base64's Decode only when it has exactly an id's encoded length (any other text is an error, not a panic)", 1)
	ruleBase64DecodeFits(r, "C16-PARSE-TOTAL", "identity text of the wrong length is decoded: ParseAddr panics (over-long) or accepts a truncated id (short) instead of failing cleanly")

	// ---- C16-SCHEME-PARSER: the module is built with go 1.21 semantics (go.mod): the variables of a for/range
	// statement are ONE variable for the whole loop. A function literal created in the loop body that captures
	// them and outlives the iteration (stored in the schema's parser table) sees the values of the LAST
	// iteration: every scheme's text is then handed to one transport's parser.
	r.Rule("C16-SCHEME-PARSER", "no function literal that outlives its loop iteration captures the loop's own variables (per-loop under the module's go version)", 1)
	ruleLoopVarCapture(r, "C16-SCHEME-PARSER", "s/multiswarm")

	r.Rule("C16-TEXT-OWNED", "MarshalText does not return bytes backed by a pooled or package-level buffer", 6)
	for _, t := range typesTab {
		mf := p.Func(t.rel, t.marshal)
		if mf == nil {
			continue
		}
		shared := ""
		for _, ret := range core.Returns(mf) {
			for _, v := range core.ReturnValues(ret, 0) {
				core.BackSlice(v, func(x ssa.Value) bool {
					switch y := x.(type) {
					case *ssa.Call:
						if n := core.CalleeName(y.Common()); n == "(*sync.Pool).Get" {
							shared = "a buffer taken from a sync.Pool"
						}
					case *ssa.Global:
						if !strings.HasPrefix(y.Name(), "init$") {
							shared = "package-level variable " + y.Name()
						}
					}
					return true
				})
			}
		}
		r.Check(shared == "", "C16-TEXT-OWNED", t.name+" MarshalText", p.Pos(mf.Pos()), "the returned text is freshly allocated", "the returned text is backed by "+shared+": the next MarshalText call overwrites it, so an address text that is still held (Src while Dst is marshalled, an inner address inside an outer one) turns into another address and no longer parses back to the original")
	}

	// ---- C16-NORMAL-FORM: parse(marshal(a)) == a needs more than acceptance: if the parser (or the
	// marshaller) passes a field through a value-changing normalisation N (netip.Addr.Unmap, WithZone,
	// strings.ToLower, ...), every other producer of that field must apply N too, or the swarm hands out
	// addresses that come back different.
	r.Rule("C16-NORMAL-FORM", "a normalisation applied to an address field by its parser or marshaller is applied by every producer of that field", 6)
	for _, t := range typesTab {
		n := p.Named(t.rel, "Addr")
		pf, mf := p.Func(t.rel, t.parse), p.Func(t.rel, t.marshal)
		if n == nil || pf == nil || mf == nil {
			r.Fail("C16-NORMAL-FORM: unresolved anchors for %s", t.name)
			continue
		}
		st, _ := n.Underlying().(*types.Struct)
		if st == nil {
			r.Trivial("C16-NORMAL-FORM", t.name, p.Pos(n.Obj().Pos()), "not a struct: the whole value is its text")
			continue
		}
		inPkg := func(fs []*ssa.Function) map[*ssa.Function]bool {
			out := map[*ssa.Function]bool{}
			var add func(f *ssa.Function, d int)
			add = func(f *ssa.Function, d int) {
				if f == nil || out[f] || d > 3 || !p.InModule(f) || f.Pkg != pf.Pkg {
					return
				}
				out[f] = true
				for _, g := range p.Callees(f, nil) {
					add(g, d+1)
				}
			}
			for _, f := range fs {
				add(f, 0)
			}
			return out
		}
		parsers := inPkg([]*ssa.Function{pf})
		marshals := inPkg([]*ssa.Function{mf})
		for i := 0; i < st.NumFields(); i++ {
			fld := st.Field(i)
			if _, isTP := fld.Type().(*types.TypeParam); isTP {
				continue
			}
			sameT := func(x types.Type) bool { return types.Identical(x, fld.Type()) }
			// a T->T transform: static callee, one result of the field's type, some operand of the field's type
			transform := func(v ssa.Value) (string, bool) {
				c, ok := v.(*ssa.Call)
				if !ok || !sameT(c.Type()) {
					return "", false
				}
				hasOperand := false
				for _, a := range c.Call.Args {
					if sameT(a.Type()) {
						hasOperand = true
					}
				}
				if !hasOperand {
					return "", false
				}
				if g := core.StaticCallee(c.Common()); g != nil {
					return core.CalleeName(c.Common()), true
				}
				return "<function value>", true
			}
			normalisers := func(v ssa.Value) map[string]bool {
				out := map[string]bool{}
				core.BackSlice(v, func(x ssa.Value) bool {
					if f2, _ := core.FieldRead(x); core.SameField(f2, fld) {
						out["<copy of another address>"] = true
						return false
					}
					if name, ok := transform(x); ok {
						out[name] = true
					}
					return true
				})
				return out
			}
			P := map[string]bool{}
			type prod struct {
				fn *ssa.Function
				st *ssa.Store
				N  map[string]bool
			}
			var others []prod
			for _, fn := range p.ModFuncs {
				if strings.Contains(fn.String(), "test") {
					continue
				}
				for _, s := range core.StoresToField(fn, fld) {
					N := normalisers(s.Val)
					if parsers[fn] {
						for k := range N {
							if k != "<copy of another address>" {
								P[k] = true
							}
						}
					} else {
						others = append(others, prod{fn, s, N})
					}
				}
			}
			// marshal side: transforms applied to the field's value before it is encoded
			for fn := range marshals {
				for _, in := range core.AllInstrs(fn) {
					v, ok := in.(ssa.Value)
					if !ok {
						continue
					}
					if name, ok := transform(v); ok && core.DerivesFrom(v, func(x ssa.Value) bool {
						f2, _ := core.FieldRead(x)
						return core.SameField(f2, fld)
					}) {
						P[name] = true
					}
				}
			}
			c := t.name + "." + fld.Name()
			if len(P) == 0 {
				r.OK("C16-NORMAL-FORM", c, p.Pos(fld.Pos()), "parser and marshaller use the field's value as decoded/stored: no normalisation that other producers would have to share")
				continue
			}
			var need []string
			for k := range P {
				need = append(need, k)
			}
			sort.Strings(need)
			okAll := true
			for _, q := range others {
				if q.N["<copy of another address>"] && len(q.N) == 1 {
					continue
				}
				for _, k := range need {
					if !q.N[k] {
						okAll = false
						r.Violation("C16-NORMAL-FORM", c+" producer "+core.FnName(q.fn), p.Pos(q.st.Pos()), "the parser/marshaller of "+t.name+" normalises "+fld.Name()+" with "+k+", but this producer stores the field without it: an address it produces (handed out by the swarm) parses back to a different value")
					}
				}
			}
			if okAll {
				r.OK("C16-NORMAL-FORM", c, p.Pos(fld.Pos()), "every producer applies the normalisation(s) "+strings.Join(need, ", "))
			}
		}
	}

	// a two-level nesting: multiswarm over quicswarm over udpswarm
	if l, ok := leaf["quic[udp]"]; ok {
		t := typesTab[5]
		w, rd, err := compute(t, l.w, l.rd)
		if err == nil {
			check("multiswarm.Addr[quicswarm.Addr[udpswarm.Addr]]", "-", w, rd)
		}
	}
}

// ruleLoopVarCapture: in the packages named, a MakeClosure inside a loop must not bind a variable cell that is
// allocated once outside that loop and assigned inside it (a per-loop iteration variable under go < 1.22), unless
// the literal is only called, synchronously, within the iteration. One obligation per loop that creates closures
// plus one per package without any.
func ruleLoopVarCapture(r *core.Report, ruleID string, rels ...string) {
	p := r.P
	for _, rel := range rels {
		n := 0
		for _, fn := range p.ModFuncs {
			if fn.Pkg == nil || fn.Pkg.Pkg.Path() != core.ModPath+"/"+rel {
				continue
			}
			for _, in := range core.AllInstrs(fn) {
				mc, ok := in.(*ssa.MakeClosure)
				if !ok {
					continue
				}
				// in a loop: the block reaches itself
				inLoop := core.Reach(fn, mc, nil, nil)[mc]
				if !inLoop {
					continue
				}
				n++
				r.Analysed(fn)
				lit, _ := mc.Fn.(*ssa.Function)
				c := core.FnName(fn) + " literal " + lit.Name()
				onlyCalled := true
				for _, ref := range *mc.Referrers() {
					call, isCall := ref.(*ssa.Call)
					if !isCall || call.Call.Value != ssa.Value(mc) {
						onlyCalled = false
					}
				}
				bad := ""
				fromMC := core.Reach(fn, mc, nil, nil)
				for _, b := range mc.Bindings {
					a, isAlloc := b.(*ssa.Alloc)
					if !isAlloc || fromMC[a] {
						continue // allocated per iteration (or not a cell)
					}
					// assigned inside the loop?
					for _, ref := range *a.Referrers() {
						if st, isSt := ref.(*ssa.Store); isSt && st.Addr == ssa.Value(a) && fromMC[st] {
							bad = a.Comment
						}
					}
				}
				r.Check(bad == "" || onlyCalled, ruleID, c, p.Pos(lit.Pos()), "captures no variable that the loop reassigns (or is only called within the iteration)",
					"the literal captures the loop variable '"+bad+"', which under the module's go version is one variable for the whole loop, and is kept beyond the iteration: every copy sees the last iteration's value (every scheme is parsed by the last transport's parser)")
			}
		}
		if n == 0 {
			r.OK(ruleID, rel+" no closures created in loops", "-", "no function literal is created inside a loop in this package")
		}
	}
}
