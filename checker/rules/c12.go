package rules

import (
	"fmt"
	"go/token"
	"go/types"
	"strings"

	"golang.org/x/tools/go/ssa"

	"p2pverif/core"
)

func init() { All["C12"] = c12 }

type hubSlots struct {
	tellHub, askHub, queue             *types.Named
	tellClosed, askClosed, queueClosed *types.Var
	tellErr, askErr                    *types.Var
	tellDelivers, askReqs              *types.Var
	drDone, srDone                     *types.Var
	freelist, queueQ                   *types.Var
	fns                                map[string]*ssa.Function
}

func resolveHubs(r *core.Report) *hubSlots {
	h := &hubSlots{fns: map[string]*ssa.Function{}}
	h.tellHub = needNamed(r, "s/swarmutil", "TellHub")
	h.askHub = needNamed(r, "s/swarmutil", "AskHub")
	h.queue = needNamed(r, "s/swarmutil", "Queue")
	h.tellClosed = needField(r, "s/swarmutil", "TellHub", "closed")
	h.askClosed = needField(r, "s/swarmutil", "AskHub", "closed")
	h.queueClosed = needField(r, "s/swarmutil", "Queue", "closed")
	h.tellErr = needField(r, "s/swarmutil", "TellHub", "err")
	h.askErr = needField(r, "s/swarmutil", "AskHub", "err")
	h.tellDelivers = needField(r, "s/swarmutil", "TellHub", "delivers")
	h.askReqs = needField(r, "s/swarmutil", "AskHub", "reqs")
	h.drDone = needField(r, "s/swarmutil", "deliverReq", "done")
	h.srDone = needField(r, "s/swarmutil", "serveReq", "done")
	h.freelist = needField(r, "s/swarmutil", "Queue", "freelist")
	h.queueQ = needField(r, "s/swarmutil", "Queue", "queue")
	for _, n := range []string{"TellHub.Receive", "TellHub.Deliver", "TellHub.checkClosed", "TellHub.CloseWithError",
		"AskHub.ServeAsk", "AskHub.Deliver", "AskHub.checkClosed", "AskHub.CloseWithError", "AskHub.Close",
		"Queue.Receive", "Queue.Deliver", "Queue.DeliverVec", "Queue.Close", "Queue.Purge"} {
		h.fns[n] = needFn(r, "s/swarmutil", n)
	}
	return h
}

func (h *hubSlots) closedFieldFor(fn *ssa.Function) *types.Var {
	recv := fn.Signature.Recv()
	if recv == nil {
		return nil
	}
	switch {
	case isNamed(recv.Type(), h.tellHub):
		return h.tellClosed
	case isNamed(recv.Type(), h.askHub):
		return h.askClosed
	case isNamed(recv.Type(), h.queue):
		return h.queueClosed
	}
	return nil
}

func (h *hubSlots) errFieldFor(fn *ssa.Function) *types.Var {
	recv := fn.Signature.Recv()
	if recv == nil {
		return nil
	}
	switch {
	case isNamed(recv.Type(), h.tellHub):
		return h.tellErr
	case isNamed(recv.Type(), h.askHub):
		return h.askErr
	}
	return nil
}

func c12(r *core.Report) {
	p := r.P
	r.Explanation = "Static necessary conditions of 'Close ends everything promptly and for good': (SELECT-CLOSED) every blocking select/receive in the hub and queue Receive/ServeAsk/Deliver methods has a case on the hub's closed signal (audited exceptions: the post-commit wait on the request's done channel, the freelist return); (ERR-NONNIL) every value stored into TellHub.err/AskHub.err is provably non-nil, the store precedes close(closed), and every return taken on a closed case returns that field or a non-nil sentinel; (OWNED-CLOSED) every struct in the module that owns a TellHub/AskHub/Queue field closes it on a path reachable from its Close method (or by the audited goroutine indirection whose supporting obligations are re-checked); (INNER-CLOSED) Close of a wrapping swarm reaches Close of its inner swarm; (DEAD-SIGNAL) no channel-typed field is waited on without any close/send in the module; (IDEMPOTENT) every close() of a long-lived signal channel runs under sync.Once. Timing ('promptly') and 'no callback after Close returned' are schedule properties and are not decided."
	r.Assumptions = []string{"Go channel and sync.Once semantics", "CHA call graph over-approximates dynamic calls", "external sentinel errors (net.ErrClosed) are initialised non-nil in their package init (checked through the SSA of the dependency)"}
	r.Trusted = []string{"go/types, go/ssa (x/tools v0.29.0)", "sync.Once.Do runs its argument at most once and synchronously"}
	h := resolveHubs(r)
	if len(r.Failures) > 0 {
		return
	}
	nn := core.NewNonNil(p)

	// ---- C12-SELECT-CLOSED
	r.Rule("C12-SELECT-CLOSED", "every blocking select/receive/send in hub and queue Receive/ServeAsk/Deliver has a closed-signal case (audited: post-commit done wait, freelist return)", 6)
	for _, name := range []string{"TellHub.Receive", "TellHub.Deliver", "AskHub.ServeAsk", "AskHub.Deliver", "Queue.Receive"} {
		fn := h.fns[name]
		closed := h.closedFieldFor(fn)
		for _, op := range core.BlockingOps(fn) {
			c := core.FnName(fn) + " " + describeOp(op)
			pos := p.Pos(op.Instr.Pos())
			switch op.Kind {
			case "select":
				ok := hasState(op, func(s core.SelState) bool {
					return s.Dir == types.RecvOnly && s.Chan.Kind == "field" && core.SameField(s.Chan.Field, closed)
				})
				r.Check(ok, "C12-SELECT-CLOSED", c, pos, "has a receive case on "+closed.Name(), "blocking select has no case on the hub's closed signal: a call blocked here survives Close forever")
			case "recv":
				f := op.States[0].Chan.Field
				if op.States[0].Chan.Kind == "field" && (core.SameField(f, h.drDone) || core.SameField(f, h.srDone)) {
					// audited exception: post-commit wait; supported by C13-COMMIT/C13-DONE-AFTER-CALLBACK
					r.OK("C12-SELECT-CLOSED", c, pos, "audited: post-commit wait on the request's completion channel (receiver closes it on every path, rule C13-DONE-AFTER-CALLBACK)")
				} else {
					r.Violation("C12-SELECT-CLOSED", c, pos, "bare blocking receive without closed-signal alternative")
				}
			case "send":
				f := op.States[0].Chan.Field
				if op.States[0].Chan.Kind == "field" && core.SameField(f, h.freelist) {
					r.OK("C12-SELECT-CLOSED", c, pos, "audited: freelist has capacity for every message in circulation, the send cannot block")
				} else {
					r.Violation("C12-SELECT-CLOSED", c, pos, "bare blocking send without closed-signal alternative")
				}
			}
		}
	}

	// ---- C12-ERR-NONNIL
	r.Rule("C12-ERR-NONNIL", "every store to TellHub.err/AskHub.err stores a provably non-nil error, before close(closed); closed cases return it", 8)
	ruleHubErrNonNil(r, h, nn, "C12-ERR-NONNIL", []*types.Var{h.tellErr, h.askErr},
		[]string{"TellHub.Receive", "TellHub.Deliver", "TellHub.checkClosed", "AskHub.ServeAsk", "AskHub.Deliver", "AskHub.checkClosed", "Queue.Receive"})

	// ---- C12-OWNED-CLOSED
	r.Rule("C12-OWNED-CLOSED", "every TellHub/AskHub/Queue field of a module struct is closed on a path reachable from the owner's Close", 14)
	r.Rule("C12-CLOSE-TOTAL", "the owner's Close closes its hub on every path, not only on the success path", 6)
	cha := p.CHA()
	isCloser := func(c *ssa.CallCommon) bool {
		f := core.StaticCallee(c)
		if f == nil {
			return false
		}
		return f == h.fns["TellHub.CloseWithError"] || f == h.fns["AskHub.CloseWithError"] || f == h.fns["AskHub.Close"] || f == h.fns["Queue.Close"]
	}
	owners := 0
	for _, n := range moduleStructs(p) {
		st := n.Underlying().(*types.Struct)
		for i := 0; i < st.NumFields(); i++ {
			f := st.Field(i)
			if !(isNamed(f.Type(), h.tellHub) || isNamed(f.Type(), h.askHub) || isNamed(f.Type(), h.queue)) {
				continue
			}
			owners++
			c := typeName(n) + "." + f.Name()
			// closers of this field
			var closerFns []*ssa.Function
			var closeSites []ssa.CallInstruction
			for _, fn := range p.ModFuncs {
				for _, ci := range core.Calls(fn, func(ci ssa.CallInstruction) bool { return isCloser(ci.Common()) }) {
					if len(ci.Common().Args) == 0 {
						continue
					}
					if ff, _ := core.FieldOfAddr(ci.Common().Args[0]); core.SameField(ff, f) {
						closerFns = append(closerFns, fn)
						closeSites = append(closeSites, ci)
					}
				}
			}
			if len(closerFns) == 0 {
				r.Violation("C12-OWNED-CLOSED", c, p.Pos(f.Pos()), "no function in the module ever closes this hub: ServeAsk/Receive blocked on it survives Close of the swarm that owns it")
				continue
			}
			closeM := methodOf(p, n, "Close")
			reachesCloser := func(root *ssa.Function) bool {
				reach := p.ReachableFuncs([]*ssa.Function{root}, cha)
				for _, cf := range closerFns {
					top := cf
					for top.Parent() != nil && !reach[top] {
						top = top.Parent()
					}
					if reach[cf] || reach[top] {
						return true
					}
				}
				return false
			}
			// When the owner is handed to users through p2p.Compose* as a non-first
			// argument, the Close users can call is that of the FIRST argument.
			if cc := composeUses(p, n); len(cc) > 0 {
				allOK := true
				for _, u := range cc {
					if u.closeOfFirst == nil {
						allOK = false
						r.Violation("C12-OWNED-CLOSED", c+" via "+core.FnName(u.site.Parent()), p.Pos(u.site.Pos()), "composed swarm: cannot resolve the Close of the first Compose argument")
						continue
					}
					r.Analysed(u.closeOfFirst)
					if !reachesCloser(u.closeOfFirst) {
						allOK = false
						r.Violation("C12-OWNED-CLOSED", c+" via "+core.FnName(u.site.Parent()), p.Pos(u.site.Pos()),
							"the composed swarm exposes "+core.FnName(u.closeOfFirst)+" as Close, which never closes this hub: ServeAsk/Receive blocked on it survives Close")
					}
				}
				if allOK {
					r.OK("C12-OWNED-CLOSED", c, p.Pos(f.Pos()), "closed on a call path from the Close exposed by every p2p.Compose* site that hands out the owner")
				}
				continue
			}
			if closeM != nil {
				r.Analysed(closeM)
				if reachesCloser(closeM) {
					r.OK("C12-OWNED-CLOSED", c, p.Pos(f.Pos()), "closed on a call path from "+core.FnName(closeM))
					// and on EVERY path: a Close that returns early (an inner Close failed, ...) leaves
					// the receivers blocked on this hub
					var total func(fn *ssa.Function, depth int) bool
					total = func(fn *ssa.Function, depth int) bool {
						if fn == nil || fn.Blocks == nil || depth > 4 {
							return false
						}
						return mustPass(fn, func(in ssa.Instruction) bool {
							ci, ok := in.(ssa.CallInstruction)
							if !ok {
								return false
							}
							cc := ci.Common()
							if isCloser(cc) && len(cc.Args) > 0 {
								if ff, _ := core.FieldOfAddr(cc.Args[0]); core.SameField(ff, f) {
									return true
								}
							}
							if mc, ok := cc.Value.(*ssa.MakeClosure); ok {
								if lit, _ := mc.Fn.(*ssa.Function); lit != nil && total(lit, depth+1) {
									return true
								}
							}
							g := core.StaticCallee(cc)
							if g == nil {
								return false
							}
							if p.InModule(g) {
								return total(g, depth+1)
							}
							if core.CalleeName(cc) == "(*sync.Once).Do" && len(cc.Args) == 2 {
								if mc, ok := cc.Args[1].(*ssa.MakeClosure); ok {
									lit, _ := mc.Fn.(*ssa.Function)
									return total(lit, depth+1)
								}
								if lit, ok := cc.Args[1].(*ssa.Function); ok {
									return total(lit, depth+1)
								}
							}
							return false
						})
					}
					r.Check(total(closeM, 0), "C12-CLOSE-TOTAL", c, p.Pos(closeM.Pos()), "every path through "+core.FnName(closeM)+" closes the hub before returning", "some path through "+core.FnName(closeM)+" returns without closing this hub (an early return): Receive/ServeAsk blocked on it never wake although Close returned")
					continue
				}
			}
			// audited indirection: a goroutine started by the constructor closes the hub
			// after the loop that Close terminates (fragswarm).
			if ok, why := auditedGoroutineCloser(r, n, f, closeM, closerFns, closeSites); ok {
				r.OK("C12-OWNED-CLOSED", c, p.Pos(f.Pos()), why)
				continue
			} else if why != "" {
				r.Violation("C12-OWNED-CLOSED", c, p.Pos(f.Pos()), why)
				continue
			}
			r.Violation("C12-OWNED-CLOSED", c, p.Pos(f.Pos()), "hub is closed only by functions not reachable from the owner's Close")
		}
	}

	// ---- C12-INNER-CLOSED
	r.Rule("C12-INNER-CLOSED", "Close of a wrapping swarm reaches Close of the inner swarm it owns", 5)
	r.Rule("C12-CLOSE-ORDER", "a wrapper's Close does not wait for its workers before it has closed the inner swarm", 4)
	type innerSlot struct {
		rel, typ, field string
		must            bool
	}
	for _, s := range []innerSlot{
		{"s/fragswarm", "swarm", "Swarm", true},
		{"p/mbapp", "Swarm", "inner", true},
		{"s/p2pkeswarm", "Swarm", "inner", true},
		{"s/quicswarm", "Swarm", "inner", false},
		{"s/multiswarm", "multiSwarm", "swarms", false},
	} {
		n := needNamed(r, s.rel, s.typ)
		fld := needField(r, s.rel, s.typ, s.field)
		if n == nil || fld == nil {
			continue
		}
		closeM := methodOf(p, n, "Close")
		if closeM == nil {
			r.Fail("unresolved anchor: %s.Close", s.typ)
			continue
		}
		r.Analysed(closeM)
		c := typeName(n) + ".Close -> " + s.field + ".Close"
		isInnerClose := func(in ssa.Instruction) bool {
			// invoke Close on a value derived from the inner field, or a bound-method closure of it
			switch x := in.(type) {
			case ssa.CallInstruction:
				cc := x.Common()
				if cc.IsInvoke() && cc.Method.Name() == "Close" {
					return core.DerivesFrom(cc.Value, func(v ssa.Value) bool { f, _ := core.FieldRead(v); return core.SameField(f, fld) })
				}
			case *ssa.MakeClosure:
				if fn, ok := x.Fn.(*ssa.Function); ok && fn.Synthetic != "" && len(x.Bindings) == 1 {
					if fn.Object() != nil && fn.Object().Name() == "Close" {
						return core.DerivesFrom(x.Bindings[0], func(v ssa.Value) bool { f, _ := core.FieldRead(v); return core.SameField(f, fld) })
					}
				}
			}
			return false
		}
		present := false
		for _, in := range core.AllInstrs(closeM) {
			if isInnerClose(in) {
				present = true
			}
		}
		if !present {
			r.Violation("C12-INNER-CLOSED", c, p.Pos(closeM.Pos()), "Close never closes the inner swarm: its receive goroutines and sockets outlive Close")
			continue
		}
		// CLOSE-ORDER: the wrapper's workers sit in the inner swarm's Receive, and for a transport that
		// ignores cancellation (udp) only the inner Close releases them: Close must not wait for anything
		// (a channel, a WaitGroup, an errgroup) before it has closed the inner swarm
		{
			before := core.Reach(closeM, nil, nil, isInnerClose)
			waits := ""
			for in := range before {
				if isInnerClose(in) {
					continue
				}
				switch x := in.(type) {
				case *ssa.UnOp:
					if x.Op == token.ARROW {
						waits = "a channel receive at " + p.Pos(x.Pos())
					}
				case *ssa.Select:
					if x.Blocking {
						waits = "a blocking select at " + p.Pos(x.Pos())
					}
				case ssa.CallInstruction:
					n := core.CalleeName(x.Common())
					if strings.HasSuffix(n, ".Wait") && (strings.Contains(n, "sync.WaitGroup") || strings.Contains(n, "errgroup.Group")) {
						waits = n + " at " + p.Pos(x.Pos())
					}
				}
			}
			r.Check(waits == "", "C12-CLOSE-ORDER", typeName(n)+".Close", p.Pos(closeM.Pos()), "nothing blocks before the inner swarm is closed", "Close waits ("+waits+") before it closes the inner swarm: workers blocked in the inner swarm's Receive are released only by that Close (a transport that ignores cancellation never lets them go), so Close never returns and every blocked Receive stays blocked")
		}
		if s.must {
			r.Check(mustPass(closeM, isInnerClose), "C12-INNER-CLOSED", c, p.Pos(closeM.Pos()), "every path through Close calls the inner Close", "some path through Close returns without closing the inner swarm")
		} else {
			r.OK("C12-INNER-CLOSED", c, p.Pos(closeM.Pos()), "inner Close is invoked from Close (inside its close-all loop)")
		}
	}

	// ---- C12-DEAD-SIGNAL
	r.Rule("C12-DEAD-SIGNAL", "a module-made channel field that is received from has a close or send somewhere in the module", 8)
	type chanUse struct{ recv, closedOrSent, madeInModule, storedExternal bool }
	uses := map[*types.Var]*chanUse{}
	get := func(f *types.Var) *chanUse {
		f = f.Origin()
		if uses[f] == nil {
			uses[f] = &chanUse{}
		}
		return uses[f]
	}
	isChanField := func(f *types.Var) bool {
		if f == nil || !f.IsField() || f.Pkg() == nil || !strings.HasPrefix(f.Pkg().Path(), core.ModPath) {
			return false
		}
		_, ok := f.Type().Underlying().(*types.Chan)
		return ok
	}
	for _, fn := range p.ModFuncs {
		for _, in := range core.AllInstrs(fn) {
			switch x := in.(type) {
			case *ssa.Select:
				for _, st := range x.States {
					cr := core.ClassifyChan(st.Chan)
					if cr.Kind == "field" && isChanField(cr.Field) {
						if st.Dir == types.RecvOnly {
							get(cr.Field).recv = true
						} else {
							get(cr.Field).closedOrSent = true
						}
					}
				}
			case *ssa.UnOp:
				if x.Op.String() == "<-" {
					cr := core.ClassifyChan(x.X)
					if cr.Kind == "field" && isChanField(cr.Field) {
						get(cr.Field).recv = true
					}
				}
			case *ssa.Send:
				cr := core.ClassifyChan(x.Chan)
				if cr.Kind == "field" && isChanField(cr.Field) {
					get(cr.Field).closedOrSent = true
				}
			case ssa.CallInstruction:
				if core.IsBuiltin(x.Common(), "close") {
					cr := core.ClassifyChan(x.Common().Args[0])
					if cr.Kind == "field" && isChanField(cr.Field) {
						get(cr.Field).closedOrSent = true
					}
				}
			case *ssa.Store:
				if f, _ := core.FieldOfAddr(x.Addr); isChanField(f) {
					if _, ok := core.Peel(x.Val).(*ssa.MakeChan); ok {
						get(f).madeInModule = true
					} else {
						get(f).storedExternal = true
					}
				}
			}
		}
	}
	for f, u := range uses {
		if !u.recv {
			continue
		}
		c := "field " + f.Pkg().Name() + "." + f.Name()
		// qualify with the struct name for stability
		c = fieldOwnerName(p, f) + "." + f.Name()
		switch {
		case u.closedOrSent:
			r.OK("C12-DEAD-SIGNAL", c, p.Pos(f.Pos()), "received from, and closed or sent to in the module")
		case u.storedExternal && !u.madeInModule:
			r.Trivial("C12-DEAD-SIGNAL", c, p.Pos(f.Pos()), "channel is supplied by a dependency")
		default:
			r.Violation("C12-DEAD-SIGNAL", c, p.Pos(f.Pos()), "channel is waited on but nothing in the module ever closes or sends on it: the stop signal is dead, goroutines waiting on it are never released by Close")
		}
	}

	// ---- C12-BUFFERED-DRAINED
	// A select that offers both the closed signal and a receive on a BUFFERED channel is
	// nondeterministic after Close while that channel still holds elements (Go picks a ready
	// case at random): Deliver would accept messages on a closed queue and Receive would hand
	// them to a callback. The design's answer is that Close empties the buffered channels.
	r.Rule("C12-BUFFERED-DRAINED", "buffered channels selected on together with the closed signal are emptied by Close, after the signal is raised", 3)
	{
		buffered := map[*types.Var]bool{}
		for _, fn := range p.ModFuncs {
			if fn.Pkg == nil || fn.Pkg.Pkg.Path() != core.ModPath+"/s/swarmutil" {
				continue
			}
			for _, in := range core.AllInstrs(fn) {
				st, ok := in.(*ssa.Store)
				if !ok {
					continue
				}
				f, _ := core.FieldOfAddr(st.Addr)
				if f == nil {
					continue
				}
				mc, ok := core.Through(core.Peel(st.Val)).(*ssa.MakeChan)
				if !ok {
					continue
				}
				if k, isK := core.ConstInt(mc.Size); !isK || k != 0 {
					buffered[f.Origin()] = true
				}
			}
		}
		closeLit := (*ssa.Function)(nil)
		if qc := h.fns["Queue.Close"]; qc != nil && len(qc.AnonFuncs) == 1 {
			closeLit = qc.AnonFuncs[0]
		}
		drained := func(f *types.Var) (bool, string) {
			if closeLit == nil {
				return false, "Queue.Close has no once-literal"
			}
			var closeSig ssa.Instruction
			for _, ci := range core.Calls(closeLit, func(ci ssa.CallInstruction) bool { return core.IsBuiltin(ci.Common(), "close") }) {
				cr := core.ClassifyChan(ci.Common().Args[0])
				if cr.Kind == "field" && core.SameField(cr.Field, h.queueClosed) {
					closeSig = ci.(ssa.Instruction)
				}
			}
			if closeSig == nil {
				return false, "Close does not raise the closed signal"
			}
			for _, sel := range core.AllSelects(closeLit) {
				has := map[*types.Var]bool{}
				for _, st := range sel.States {
					cr := core.ClassifyChan(st.Chan)
					if st.Dir == types.RecvOnly && cr.Kind == "field" {
						has[cr.Field.Origin()] = true
					}
				}
				all := true
				for b := range buffered {
					if !has[b] {
						all = false
					}
				}
				if !all || !sel.Blocking {
					continue
				}
				// inside a loop
				if !core.Reach(closeLit, sel, nil, nil)[sel] {
					continue
				}
				// bounded by cap(freelist): some If in the literal compares with cap(<freelist>)
				capBound := false
				for _, in := range core.AllInstrs(closeLit) {
					b, ok := in.(*ssa.BinOp)
					if !ok {
						continue
					}
					cc, ok := core.Peel(b.Y).(*ssa.Call)
					if ok && core.IsBuiltin(cc.Common(), "cap") {
						cr := core.ClassifyChan(cc.Call.Args[0])
						if cr.Kind == "field" && core.SameField(cr.Field, h.freelist) {
							capBound = true
						}
					}
				}
				if !capBound {
					return false, "the draining loop is not bounded by cap(freelist)"
				}
				if !core.InstrDominates(closeSig, sel) {
					return false, "the channels are drained before the closed signal is raised (a concurrent Deliver can refill them)"
				}
				return true, "Close raises the signal and then receives cap(freelist) messages from freelist/queue"
			}
			return false, "Close does not empty " + f.Name() + ": after Close a select offering both the closed signal and " + f.Name() + " picks at random, so a closed queue still accepts messages / hands them to callbacks"
		}
		n := 0
		for _, name := range []string{"Queue.Deliver", "Queue.DeliverVec", "Queue.Receive"} {
			fn := h.fns[name]
			for _, sel := range core.AllSelects(fn) {
				hasClosed := false
				var bufs []*types.Var
				for _, st := range sel.States {
					cr := core.ClassifyChan(st.Chan)
					if st.Dir != types.RecvOnly || cr.Kind != "field" {
						continue
					}
					if core.SameField(cr.Field, h.queueClosed) {
						hasClosed = true
					}
					if buffered[cr.Field.Origin()] {
						bufs = append(bufs, cr.Field)
					}
				}
				if !hasClosed {
					continue
				}
				for _, b := range bufs {
					n++
					ok, why := drained(b)
					r.Check(ok, "C12-BUFFERED-DRAINED", core.FnName(fn)+" select{closed,"+b.Name()+"}", p.Pos(sel.Pos()), why, why)
				}
			}
		}
		if n == 0 {
			r.Fail("C12-BUFFERED-DRAINED: no select mixing the closed signal with a buffered channel found")
		}
	}

	// ---- C12-IDEMPOTENT
	r.Rule("C12-IDEMPOTENT", "close() of a hub/queue closed-signal runs inside sync.Once.Do (closing twice cannot panic)", 3)
	for _, fn := range p.ModFuncs {
		for _, ci := range core.Calls(fn, func(ci ssa.CallInstruction) bool { return core.IsBuiltin(ci.Common(), "close") }) {
			cr := core.ClassifyChan(ci.Common().Args[0])
			if cr.Kind != "field" {
				continue
			}
			if !(core.SameField(cr.Field, h.tellClosed) || core.SameField(cr.Field, h.askClosed) || core.SameField(cr.Field, h.queueClosed)) {
				continue
			}
			c := core.FnName(fn) + " close(" + cr.Field.Name() + ")"
			r.Check(isOnceDoLiteral(p, fn), "C12-IDEMPOTENT", c, p.Pos(ci.Pos()), "inside a literal passed to sync.Once.Do", "close of the closed-signal is not protected by sync.Once: a second Close panics")
		}
	}

	// ---- C12-CLOSE-REPEATABLE (after seed C12-s7): a second Close must return, not panic. Where a function on a
	// Close path panics on the miss edge of a lookup in a table ("already closed"), nothing on that Close path
	// may delete from that table: the first Close would make the second one take the panicking edge.
	r.Rule("C12-CLOSE-REPEATABLE", "no function on a swarm's Close path deletes from a table whose lookup miss panics on that same path (a repeated Close returns)", 1)
	{
		type missPanic struct {
			fn    *ssa.Function
			field *types.Var
			pos   token.Pos
		}
		missPanics := func(fn *ssa.Function) []missPanic {
			var out []missPanic
			for _, b := range fn.Blocks {
				iff, ok := b.Instrs[len(b.Instrs)-1].(*ssa.If)
				if !ok {
					continue
				}
				cond := iff.Cond
				missSucc := 1 // `ok` false edge
				if u, isU := cond.(*ssa.UnOp); isU && u.Op == token.NOT {
					cond, missSucc = u.X, 0
				}
				ex, isE := cond.(*ssa.Extract)
				if !isE || ex.Index != 1 {
					continue
				}
				lk, isL := ex.Tuple.(*ssa.Lookup)
				if !isL || !lk.CommaOk {
					continue
				}
				f, _ := core.FieldRead(lk.X)
				if f == nil {
					continue
				}
				// blocks entered only because of the miss (the direct target, and what it dominates when it has no other way in)
				t := b.Succs[missSucc]
				hasPanic := func(bb *ssa.BasicBlock) bool {
					_, isP := bb.Instrs[len(bb.Instrs)-1].(*ssa.Panic)
					return isP
				}
				found := hasPanic(t)
				if !found && len(t.Preds) == 1 {
					for _, bb := range fn.Blocks {
						if t.Dominates(bb) && hasPanic(bb) {
							found = true
						}
					}
				}
				if found {
					out = append(out, missPanic{fn, f, iff.Pos()})
				}
			}
			return out
		}
		n := 0
		for _, root := range p.ModFuncs {
			if root.Name() != "Close" || root.Signature.Recv() == nil || root.Signature.Params().Len() != 0 {
				continue
			}
			reach := p.ReachableFuncs([]*ssa.Function{root}, cha)
			var mps []missPanic
			for fn := range reach {
				if p.InModule(fn) && fn.Blocks != nil {
					mps = append(mps, missPanics(fn)...)
				}
			}
			if len(mps) == 0 {
				continue
			}
			r.Analysed(root)
			for _, mp := range mps {
				n++
				c := core.FnName(root) + " -> " + core.FnName(mp.fn) + " panic on miss in " + fieldOwnerName(p, mp.field)
				bad := ""
				for fn := range reach {
					if !p.InModule(fn) || fn.Blocks == nil {
						continue
					}
					for _, ci := range core.Calls(fn, func(ci ssa.CallInstruction) bool { return core.IsBuiltin(ci.Common(), "delete") }) {
						if f, _ := core.FieldRead(ci.Common().Args[0]); core.SameField(f, mp.field) {
							bad = core.FnName(fn) + " at " + p.Pos(ci.Pos())
						}
					}
				}
				r.Check(bad == "", "C12-CLOSE-REPEATABLE", c, p.Pos(mp.fn.Pos()), "nothing on this Close path deletes from the table, so the second Close finds the entry again and returns",
					"the Close path deletes the entry ("+bad+") whose absence makes this same path panic: a repeated Close panics instead of returning")
			}
		}
		_ = n
	}

	// ---- C12-CONN-TRACKED: Close can only shut down what the connection table holds. A connection the swarm
	// dialed is therefore, on every path out of getConn, either in the table or closed; and a closing connection
	// takes out only its own table entry (a connection that lost the race for an entry shares the winner's key).
	r.Rule("C12-CONN-TRACKED", "sshswarm: a dialed connection is registered or closed on every path, and deleteConn removes only the closing connection's own entry", 2)
	{
		getConn := needFn(r, "s/sshswarm", "Swarm.getConn")
		newClient := needFn(r, "s/sshswarm", "newClient")
		connClose := needFn(r, "s/sshswarm", "Conn.Close")
		delConn := needFn(r, "s/sshswarm", "Swarm.deleteConn")
		connsF := needField(r, "s/sshswarm", "Swarm", "conns")
		if getConn != nil && newClient != nil && connClose != nil {
			r.Analysed(getConn)
			for _, ci := range core.CallsToFn(getConn, newClient) {
				call, ok := ci.(*ssa.Call)
				if !ok {
					continue
				}
				isConn := func(v ssa.Value) bool {
					return core.DerivesFromDirect(v, func(x ssa.Value) bool {
						c2, idx, isRes := core.CallResult(x)
						return isRes && c2 == call && idx == 0
					})
				}
				settled := func(in ssa.Instruction) bool {
					switch x := in.(type) {
					case *ssa.MapUpdate:
						f, _ := core.FieldRead(x.Map)
						return core.SameField(f, connsF) && isConn(x.Value)
					case ssa.CallInstruction:
						return core.IsCallToFn(x.Common(), connClose) && len(x.Common().Args) > 0 && isConn(x.Common().Args[0])
					}
					return false
				}
				// on the edge where the dial succeeded (err == nil): every return passes a registration or a Close
				errNonNil := core.CutWhere(func(cond ssa.Value) int {
					x, isEq, ok := core.NilCheck(cond)
					if !ok {
						return 0
					}
					c2, _, isRes := core.CallResult(x)
					if !isRes || c2 != call || !core.IsErrorType(x.Type()) {
						return 0
					}
					if isEq {
						return -1
					}
					return 1
				})
				// a check-or-insert helper: g(c) (*Conn, bool) that stores c in the table on every path on which the
				// bool it returns is false. At the call, the false edge of that bool counts as registered.
				registersUnlessTrue := func(g *ssa.Function, argIdx int) bool {
					if g == nil || g.Blocks == nil || g.Signature.Results().Len() != 2 || argIdx >= len(g.Params) {
						return false
					}
					var flag ssa.Value
					for _, ret := range core.Returns(g) {
						vs := core.ReturnValues(ret, 1)
						if len(vs) != 1 || (flag != nil && vs[0] != flag) {
							return false
						}
						flag = vs[0]
					}
					if flag == nil {
						return false
					}
					assumeFalse := core.CutWhere(func(cond ssa.Value) int {
						if cond == flag {
							return 1 // cut the edge on which the flag is true
						}
						return 0
					})
					isReg := func(in ssa.Instruction) bool {
						mu, ok := in.(*ssa.MapUpdate)
						if !ok {
							return false
						}
						f, _ := core.FieldRead(mu.Map)
						return core.SameField(f, connsF) && core.Through(mu.Value) == ssa.Value(g.Params[argIdx])
					}
					unreg := core.Reach(g, nil, assumeFalse, isReg)
					for _, ret := range core.Returns(g) {
						if unreg[ret] {
							return false
						}
					}
					return core.GuardEdges(g, assumeFalse) > 0
				}
				var helperFlags []ssa.Value // bool results whose false edge means "registered"
				for _, in := range core.AllInstrs(getConn) {
					hc, ok := in.(*ssa.Call)
					if !ok {
						continue
					}
					g := core.StaticCallee(hc.Common())
					if g == nil || !p.InModule(g) {
						continue
					}
					for ai, a := range hc.Call.Args {
						if isConn(a) && registersUnlessTrue(g, ai) {
							for _, ref := range *hc.Referrers() {
								if ex, isEx := ref.(*ssa.Extract); isEx && ex.Index == 1 {
									helperFlags = append(helperFlags, ex)
								}
							}
						}
					}
				}
				registeredEdge := core.CutWhere(func(cond ssa.Value) int {
					for _, hf := range helperFlags {
						if cond == hf {
							return -1 // the flag is false on the false edge: registered there, cut it
						}
					}
					return 0
				})
				// branch conditions tested more than once (`if !exists {register}; unlock; if exists {close}`)
				// are decided once per path: enumerate the truth value of each such condition
				condUses := map[ssa.Value]int{}
				for _, blk := range getConn.Blocks {
					if iff, isIf := blk.Instrs[len(blk.Instrs)-1].(*ssa.If); isIf {
						c0, _ := core.StripNot(iff.Cond)
						condUses[c0]++
					}
				}
				var repeated []ssa.Value
				for c0, k := range condUses {
					if k > 1 {
						repeated = append(repeated, c0)
					}
				}
				bad := ""
				for mask := 0; mask < 1<<uint(len(repeated)) && len(repeated) <= 4; mask++ {
					assume := core.CutWhere(func(cond ssa.Value) int {
						for i, c0 := range repeated {
							if cond == c0 {
								if mask&(1<<uint(i)) != 0 {
									return -1 // assumed true: the false edge is infeasible
								}
								return 1
							}
						}
						return 0
					})
					both := func(b *ssa.BasicBlock, i int) bool { return errNonNil(b, i) || assume(b, i) || registeredEdge(b, i) }
					reached := core.Reach(getConn, call, both, settled)
					for _, ret := range core.Returns(getConn) {
						if reached[ret] {
							bad = p.Pos(ret.Pos())
						}
					}
				}
				r.Check(bad == "", "C12-CONN-TRACKED", core.FnName(getConn)+" dialed connection", p.Pos(call.Pos()),
					"every return after a successful dial is preceded by the connection's registration or its Close",
					"getConn can return (at "+bad+") with the connection it dialed neither in the table nor closed: Swarm.Close never sees it, its TCP connection and ssh goroutines outlive the swarm")
			}
		}
		if delConn != nil {
			r.Analysed(delConn)
			own := core.CutWhere(func(cond ssa.Value) int {
				b, ok := cond.(*ssa.BinOp)
				if !ok || (b.Op != token.EQL && b.Op != token.NEQ) {
					return 0
				}
				isParam := func(v ssa.Value) bool { return core.Through(v) == ssa.Value(delConn.Params[1]) }
				isEntry := func(v ssa.Value) bool {
					return core.DerivesFromDirect(v, func(x ssa.Value) bool {
						lk, isL := x.(*ssa.Lookup)
						if !isL {
							return false
						}
						f, _ := core.FieldRead(lk.X)
						return core.SameField(f, connsF)
					})
				}
				if !(isParam(b.X) && isEntry(b.Y) || isParam(b.Y) && isEntry(b.X)) {
					return 0
				}
				if b.Op == token.EQL {
					return 1
				}
				return -1
			})
			n := 0
			for _, ci := range core.Calls(delConn, func(ci ssa.CallInstruction) bool { return core.IsBuiltin(ci.Common(), "delete") }) {
				n++
				r.Check(core.GuardEdges(delConn, own) > 0 && core.GuardedFromEntry(delConn, ci.(ssa.Instruction), own), "C12-CONN-TRACKED", core.FnName(delConn)+" removes its own entry", p.Pos(ci.Pos()),
					"the entry is deleted only where it is the closing connection itself",
					"deleteConn deletes whatever connection is stored under the key: when a connection that lost the dial race is closed, the table forgets the live connection that won, and Swarm.Close no longer shuts it down")
			}
			if n == 0 {
				r.Fail("C12-CONN-TRACKED: no delete found in deleteConn")
			}
		}
	}

	// ---- C12-NO-RETRY: a loop around Receive/ServeAsk leaves the loop when the call fails.
	// The error a closed swarm reports is not uniform across the module (net.ErrClosed, the
	// hub's close reason, context.Canceled from fragswarm's workers), so a loop that calls
	// again after an error spins on a closed swarm and its goroutine is never released.
	r.Rule("C12-NO-RETRY", "every loop around a Receive/ServeAsk call exits on the call's error edge (no retry on a swarm that may be closed)", 9)
	for _, fn := range p.ModFuncs {
		if strings.Contains(fn.String(), "swarmtest") || strings.Contains(fn.String(), "p2ptest") {
			continue
		}
		for _, in := range core.AllInstrs(fn) {
			call, isCall := in.(*ssa.Call)
			if !isCall || !core.IsErrorType(call.Type()) {
				continue
			}
			cc := call.Common()
			name := ""
			if cc.IsInvoke() {
				name = cc.Method.Name()
			} else if sc := core.StaticCallee(cc); sc != nil && p.InModule(sc) {
				name = sc.Name()
				if i := strings.IndexByte(name, '['); i >= 0 {
					name = name[:i]
				}
			}
			if name != "Receive" && name != "ServeAsk" {
				continue
			}
			// only calls that can run again: the call is reachable from itself
			if !core.Reach(fn, call, nil, nil)[call] {
				continue
			}
			r.Analysed(fn)
			c := fmt.Sprintf("%s loop around %s", core.FnName(fn), name)
			again := core.Reach(fn, call, cutErrNilOf(call), nil)[call]
			r.Check(!again, "C12-NO-RETRY", c, p.Pos(call.Pos()),
				"on the error edge of the call no path leads back to it",
				"the loop calls "+name+" again after it returned an error: once the swarm underneath is closed (its closed error is not net.ErrClosed everywhere) the worker spins and is never released")
		}
	}
}

func fieldOwnerName(p *core.Prog, f *types.Var) string {
	for _, n := range moduleStructs(p) {
		st := n.Underlying().(*types.Struct)
		for i := 0; i < st.NumFields(); i++ {
			if st.Field(i) == f {
				return typeName(n)
			}
		}
	}
	return f.Pkg().Name()
}

// isOnceDoLiteral: fn is a function literal whose only use is as the argument
// of (*sync.Once).Do.
func isOnceDoLiteral(p *core.Prog, fn *ssa.Function) bool {
	par := fn.Parent()
	if par == nil {
		return false
	}
	for _, ci := range core.CallsToName(par, "(*sync.Once).Do") {
		if len(ci.Common().Args) == 2 && core.ClosureFn(ci.Common().Args[1]) == fn {
			return true
		}
	}
	return false
}

// auditedGoroutineCloser checks the supporting obligations of the fragswarm
// indirection: (1) the closer function closes the hub on every path to its
// return; (2) it is started with `go` by a function that allocates the owner;
// (3) the owner's Close, on every path, calls the stored cancel function and
// closes the inner swarm (which is what terminates the closer's loop).
func auditedGoroutineCloser(r *core.Report, owner *types.Named, f *types.Var, closeM *ssa.Function, closers []*ssa.Function, sites []ssa.CallInstruction) (bool, string) {
	p := r.P
	if typeName(owner) != "p2p/s/fragswarm.swarm" || closeM == nil {
		return false, ""
	}
	for i, cf := range closers {
		site := sites[i]
		if !mustPass(cf, func(in ssa.Instruction) bool { return in == site.(ssa.Instruction) }) {
			continue
		}
		// (2) started with go from an allocator of the owner
		started := false
		for _, fn := range p.ModFuncs {
			for _, in := range core.AllInstrs(fn) {
				g, ok := in.(*ssa.Go)
				if !ok {
					continue
				}
				direct := core.IsCallToFn(g.Common(), cf)
				if !direct {
					// `go func() { ...; s.recvLoops(...) }()`: a literal that calls the closer on every path
					lit := core.ClosureFn(g.Common().Value)
					if lit == nil || !mustPass(lit, func(i2 ssa.Instruction) bool {
						c2, ok := i2.(ssa.CallInstruction)
						return ok && core.IsCallToFn(c2.Common(), cf)
					}) {
						continue
					}
				}
				for _, in2 := range core.AllInstrs(fn) {
					if a, ok := in2.(*ssa.Alloc); ok && isNamed(a.Type(), owner) {
						started = true
					}
				}
			}
		}
		if !started {
			return false, "closer goroutine is not started by the constructor"
		}
		// (3) Close cancels and closes inner on every path
		cfField := p.Field("s/fragswarm", "swarm", "cf")
		inner := p.Field("s/fragswarm", "swarm", "Swarm")
		if cfField == nil || inner == nil {
			return false, "unresolved cf/Swarm fields"
		}
		cancels := mustPass(closeM, func(in ssa.Instruction) bool {
			return isCallInstr(in, func(c *ssa.CallCommon) bool {
				if c.IsInvoke() {
					return false
				}
				fr, _ := core.FieldRead(c.Value)
				return core.SameField(fr, cfField)
			})
		})
		closesInner := mustPass(closeM, func(in ssa.Instruction) bool {
			return isCallInstr(in, func(c *ssa.CallCommon) bool {
				if !c.IsInvoke() || c.Method.Name() != "Close" {
					return false
				}
				fr, _ := core.FieldRead(c.Value)
				return core.SameField(fr, inner)
			})
		})
		if cancels && closesInner {
			return true, fmt.Sprintf("audited indirection: %s (started by the constructor) closes the hub on every path to its return; Close cancels its context and closes the inner swarm on every path", core.FnName(cf))
		}
		return false, "Close does not, on every path, cancel the receive loops and close the inner swarm that the hub's closer goroutine waits on"
	}
	return false, "closer goroutine does not close the hub on every path"
}

type composeUse struct {
	site         ssa.CallInstruction
	closeOfFirst *ssa.Function
}

// composeUses finds the p2p.Compose* call sites where a value of (pointer to)
// owner type is passed as a non-first argument, and resolves the Close method
// of the first argument's concrete type.
func composeUses(p *core.Prog, owner *types.Named) []composeUse {
	var out []composeUse
	for _, fn := range p.ModFuncs {
		for _, ci := range core.Calls(fn, func(ci ssa.CallInstruction) bool {
			f := core.StaticCallee(ci.Common())
			return f != nil && f.Pkg != nil && f.Pkg.Pkg.Path() == core.ModPath && strings.HasPrefix(f.Name(), "Compose")
		}) {
			args := ci.Common().Args
			uses := false
			for _, a := range args[1:] {
				if mi, ok := a.(*ssa.MakeInterface); ok && isNamed(mi.X.Type(), owner) {
					uses = true
				}
			}
			if !uses {
				continue
			}
			u := composeUse{site: ci}
			if mi, ok := args[0].(*ssa.MakeInterface); ok {
				ms := p.SSA.MethodSets.MethodSet(mi.X.Type())
				if sel := ms.Lookup(nil, "Close"); sel != nil {
					u.closeOfFirst = p.SSA.MethodValue(sel)
				}
			}
			out = append(out, u)
		}
	}
	return out
}

// ruleHubErrNonNil: every store to the hub's err field stores a provably
// non-nil value, before the closed signal is raised; every return taken on a
// closed case returns that field or a non-nil sentinel.
func ruleHubErrNonNil(r *core.Report, h *hubSlots, nn *core.NonNil, ruleID string, fields []*types.Var, fnNames []string) {
	p := r.P
	for _, fld := range fields {
		n := 0
		for _, fn := range p.ModFuncs {
			for _, st := range core.StoresToField(fn, fld) {
				n++
				c := fmt.Sprintf("%s store %s", core.FnName(fn), fld.Name())
				ok := nn.At(st.Val, st)
				r.Check(ok, ruleID, c, p.Pos(st.Pos()),
					"stored value is non-nil on every path (nil replaced by the closed sentinel)",
					"the close reason stored may be nil: Receive/ServeAsk/Deliver on the closed hub then return nil (success) instead of an error")
				// store precedes close(closed) in the same function
				var closes []ssa.Instruction
				for _, in := range core.AllInstrs(fn) {
					if ci, k := in.(ssa.CallInstruction); k && core.IsBuiltin(ci.Common(), "close") {
						closes = append(closes, in)
					}
				}
				for _, cl := range closes {
					reach := core.Reach(fn, nil, nil, func(in ssa.Instruction) bool { return in == st })
					r.Check(!reach[cl], ruleID, c+" before close", p.Pos(cl.Pos()),
						"the reason is stored before the closed signal is raised", "closed signal can be raised before the reason is stored")
				}
			}
		}
		if n == 0 {
			r.Fail("no store to %s found", fld.Name())
		}
	}
	for _, name := range fnNames {
		fn := h.fns[name]
		closed := h.closedFieldFor(fn)
		errF := h.errFieldFor(fn)
		for _, sel := range core.AllSelects(fn) {
			for i, st := range sel.States {
				cr := core.ClassifyChan(st.Chan)
				if cr.Kind != "field" || !core.SameField(cr.Field, closed) {
					continue
				}
				blk := core.SelectCaseBlock(sel, i)
				if blk == nil {
					r.Undecided(ruleID, core.FnName(fn)+" closed-case", p.Pos(sel.Pos()), "cannot find the case block")
					continue
				}
				// returns reachable from the case block without crossing another select
				reach := core.ReachAt(fn, blk.Instrs[0], nil, func(in ssa.Instruction) bool { _, k := in.(*ssa.Select); return k })
				for _, ret := range core.Returns(fn) {
					if !reach[ret] {
						continue
					}
					ei := len(ret.Results) - 1
					okAll := true
					for _, v := range core.ReturnValues(ret, ei) {
						if f, _ := core.FieldRead(v); errF != nil && core.SameField(f, errF) {
							continue
						}
						if nn.At(v, ret) {
							continue
						}
						okAll = false
					}
					r.Check(okAll, ruleID, core.FnName(fn)+" closed-case return", p.Pos(ret.Pos()),
						"returns the stored close reason or a non-nil sentinel", "closed case may return a nil error")
				}
			}
		}
	}

}
