package rules

import (
	"fmt"
	"go/constant"
	"go/token"
	"go/types"
	"strings"

	"golang.org/x/tools/go/ssa"

	"p2pverif/core"
)

func init() { All["C09"] = c09 }

// terminal (non-delegating) Tell/Ask implementations and the MTU method whose
// value the size guard must agree with.
var mtuTerminals = []struct{ rel, fn, mtuFn string }{
	{"s/vswarm", "SecureRealm.tell", "SecureRealm.mtu"},
	{"s/vswarm", "SecureRealm.ask", "SecureRealm.mtu"},
	{"s/udpswarm", "Swarm.Tell", "Swarm.MTU"},
	{"s/fragswarm", "swarm.Tell", "swarm.MTU"},
	{"p/mbapp", "Swarm.Tell", "Swarm.MTU"},
	{"p/mbapp", "Swarm.Ask", "Swarm.MTU"},
	{"s/p2pkeswarm", "Swarm.Tell", "Swarm.MTU"},
	{"s/quicswarm", "Swarm.Tell", "Swarm.MTU"},
	{"s/quicswarm", "Swarm.Ask", "Swarm.MTU"},
	{"s/sshswarm", "Swarm.Tell", "Swarm.MTU"},
	{"s/sshswarm", "Swarm.Ask", "Swarm.MTU"},
}

// canon renders the origin of an integer value as a position-free expression:
// constants, field chains, calls of module functions (inlined one level when
// the callee just returns an expression), method calls on the receiver.
func canon(p *core.Prog, v ssa.Value, depth int) string {
	v = core.Through(core.Peel(v))
	if k, ok := core.ConstInt(v); ok {
		return fmt.Sprintf("%d", k)
	}
	if f, base := core.FieldRead(v); f != nil {
		b := canon(p, base, depth)
		if strings.HasPrefix(b, "param") || b == "?" {
			return f.Name()
		}
		return b + "." + f.Name()
	}
	switch x := v.(type) {
	case *ssa.Parameter:
		return "param"
	case *ssa.Call:
		if callee := core.StaticCallee(x.Common()); callee != nil && p.InModule(callee) && depth < 3 {
			rets := core.Returns(callee)
			if len(rets) == 1 && len(rets[0].Results) >= 1 && len(callee.Blocks) <= 2 {
				vals := core.ReturnValues(rets[0], 0)
				if len(vals) == 1 {
					return canon(p, vals[0], depth+1)
				}
			}
			return "call:" + callee.Name()
		}
		if x.Call.IsInvoke() {
			return "invoke:" + canon(p, x.Call.Value, depth) + "." + x.Call.Method.Name()
		}
		return "call:" + core.CalleeName(x.Common())
	case *ssa.BinOp:
		return "(" + canon(p, x.X, depth) + x.Op.String() + canon(p, x.Y, depth) + ")"
	case *ssa.UnOp:
		if g, ok := x.X.(*ssa.Global); ok {
			return "global:" + g.Name()
		}
	}
	return "?"
}

// mtuCanon: canonical form of what the MTU method returns (single return or
// all returns listed).
func mtuCanon(p *core.Prog, fn *ssa.Function) string {
	var parts []string
	for _, ret := range core.Returns(fn) {
		for _, v := range core.ReturnValues(ret, 0) {
			parts = append(parts, canon(p, v, 0))
		}
	}
	return strings.Join(parts, "|")
}

func payloadParam(fn *ssa.Function) *ssa.Parameter {
	for _, prm := range fn.Params {
		if n, ok := prm.Type().(*types.Alias); ok && n.Obj().Name() == "IOVec" {
			return prm
		}
		if n, ok := prm.Type().(*types.Named); ok && n.Obj().Name() == "Buffers" {
			return prm
		}
	}
	return nil
}

func c09(r *core.Report) {
	p := r.P
	r.Explanation = "Static necessary conditions of 'MTU is honest': (GUARD) every non-delegating Tell/Ask compares p2p.VecSize(payload) with a bound, returns p2p.ErrMTUExceeded on the too-large edge before any other use of the payload, and the bound has the same origin as what the type's MTU() reports; every other Tell/Ask is a pure delegation (classification computed, an unclassifiable method fails); (OVERHEAD) a layer that prepends a header reports inner MTU minus a quantity originating from that same header size (p2pke constant = 4-byte header + AEAD tag, mbapp HeaderSize both prepended and subtracted, fragswarm constant at least the maximal varint header, p2pmux subtrahend = size of what the mux function prepends for this channel); (NARROW) part counts and indexes are not narrowed to the header field width without a range guard; (RECV-LIMIT) a receive path that bounds its read by the MTU rejects an oversize message instead of delivering its prefix. That a payload of every length up to MTU arrives complete through every nesting is a runtime claim and is not decided."
	r.Assumptions = []string{"chacha20poly1305.Overhead is the AEAD tag size of the noise cipher suite in use", "message sizes fit in 32 bits (uint32(totalSize) is accepted)"}
	r.Trusted = []string{"go/types, go/ssa (x/tools v0.29.0)"}
	vecSize := needFn(r, "", "VecSize")
	errMTU, _ := p.Object(core.ModPath, "ErrMTUExceeded").(*types.Var)
	if vecSize == nil || errMTU == nil {
		r.Fail("unresolved anchor: p2p.VecSize / p2p.ErrMTUExceeded")
		return
	}

	// ---- C09-GUARD
	r.Rule("C09-GUARD", "every non-delegating Tell/Ask guards the payload size with the MTU error, in agreement with MTU()", 11)
	terminal := map[*ssa.Function]bool{}
	for _, t := range mtuTerminals {
		fn := needFn(r, t.rel, t.fn)
		mfn := needFn(r, t.rel, t.mtuFn)
		if fn == nil || mfn == nil {
			continue
		}
		terminal[fn] = true
		c := core.FnName(fn)
		pl := payloadParam(fn)
		if pl == nil {
			r.Fail("C09-GUARD: %s has no payload parameter", c)
			continue
		}
		// the guard
		var guard *ssa.If
		var bound ssa.Value
		for _, b := range fn.Blocks {
			iff, ok := b.Instrs[len(b.Instrs)-1].(*ssa.If)
			if !ok {
				continue
			}
			bo, ok := iff.Cond.(*ssa.BinOp)
			if !ok || bo.Op != token.GTR {
				continue
			}
			cc, _, ok := core.CallResult(bo.X)
			if !ok || !core.IsCallToFn(cc.Common(), vecSize) || core.Through(cc.Call.Args[0]) != ssa.Value(pl) {
				continue
			}
			guard, bound = iff, bo.Y
		}
		if guard == nil {
			r.Violation("C09-GUARD", c+" size guard", p.Pos(fn.Pos()), "no comparison of p2p.VecSize(payload) with the MTU: a payload larger than MTU() is accepted (and truncated, split wrongly or rejected further down with another error)")
			continue
		}
		// too-large edge returns the MTU error
		okErr := true
		rs := core.ReachAt(fn, guard.Block().Succs[0].Instrs[0], nil, nil)
		nret := 0
		for _, ret := range core.Returns(fn) {
			if !rs[ret] {
				continue
			}
			nret++
			ei := len(ret.Results) - 1
			for _, v := range core.ReturnValues(ret, ei) {
				if !core.DerivesFromDirect(v, func(x ssa.Value) bool {
					u, ok := x.(*ssa.UnOp)
					if !ok {
						return false
					}
					g, ok := u.X.(*ssa.Global)
					return ok && g.Object() == types.Object(errMTU)
				}) {
					okErr = false
				}
			}
		}
		r.Check(okErr && nret > 0, "C09-GUARD", c+" error", p.Pos(guard.Pos()), "the too-large edge returns p2p.ErrMTUExceeded", "the too-large edge does not return the MTU error")
		// every other use of the payload is behind the guard's false edge
		cut := core.CutFunc(func(b *ssa.BasicBlock, i int) bool { return b == guard.Block() && i == 1 })
		okUse := true
		// uses of the payload: referrers of the parameter, or (when it is captured by a
		// literal and therefore spilled to a cell) the loads and captures of that cell
		var uses []ssa.Instruction
		for _, ref := range *pl.Referrers() {
			if st, ok := ref.(*ssa.Store); ok && st.Val == ssa.Value(pl) {
				if a, ok := st.Addr.(*ssa.Alloc); ok {
					for _, r2 := range *a.Referrers() {
						if r2 != ssa.Instruction(st) {
							// a load feeds its own users
							if ld, ok := r2.(*ssa.UnOp); ok {
								uses = append(uses, *ld.Referrers()...)
							} else {
								uses = append(uses, r2)
							}
						}
					}
					continue
				}
			}
			uses = append(uses, ref)
		}
		for _, ref := range uses {
			if ref.Block() == nil || ref.Parent() != fn {
				continue
			}
			if _, isDbg := ref.(*ssa.DebugRef); isDbg {
				continue
			}
			if cc, ok := ref.(*ssa.Call); ok && core.IsCallToFn(cc.Common(), vecSize) && (core.InstrDominates(cc, guard)) {
				continue
			}
			if !core.GuardedFromEntry(fn, ref, cut) {
				okUse = false
			}
		}
		r.Check(okUse, "C09-GUARD", c+" dominates", p.Pos(guard.Pos()), "every use of the payload comes after the size check passed", "the payload is used on a path that bypasses the size check")
		// agreement with MTU()
		bc, mc := canon(p, bound, 0), mtuCanon(p, mfn)
		agree := bc == mc || bc == "call:"+mfn.Name() || strings.HasSuffix(bc, "."+mfn.Name())
		r.Check(agree, "C09-GUARD", c+" agrees with MTU()", p.Pos(guard.Pos()), fmt.Sprintf("bound %q is what MTU() reports (%q)", bc, mc), fmt.Sprintf("the size check uses %q but MTU() reports %q: a payload of exactly MTU() can be rejected, or one above it accepted", bc, mc))
	}
	// classification of all other Tell/Ask implementations
	r.Rule("C09-DELEGATES", "every other Tell/Ask is a pure delegation of the payload to one inner Tell/Ask", 10)
	for _, fn := range ctxMethods(p, "Tell", "Ask") {
		if terminal[fn] {
			continue
		}
		r.Analysed(fn)
		pl := payloadParam(fn)
		if pl == nil {
			continue
		}
		// the payload's only uses: argument of exactly one inner Tell/Ask (invoke or module call)
		uses, inner := 0, 0
		for _, ref := range *pl.Referrers() {
			if _, isDbg := ref.(*ssa.DebugRef); isDbg {
				continue
			}
			uses++
			if ci, ok := ref.(ssa.CallInstruction); ok {
				name := ""
				if ci.Common().IsInvoke() {
					name = ci.Common().Method.Name()
				} else if f := core.StaticCallee(ci.Common()); f != nil {
					name = f.Name()
				}
				if strings.EqualFold(name, "tell") || strings.EqualFold(name, "ask") {
					inner++
				}
			}
		}
		r.Check(uses == inner && inner >= 1, "C09-DELEGATES", core.FnName(fn), p.Pos(fn.Pos()), "the payload is only handed to an inner Tell/Ask, whose own size check applies", "this Tell/Ask is neither a listed terminal implementation nor a pure delegation: its payload handling is unchecked for size (add it to the terminal table with its MTU method)")
	}

	// ---- C09-OVERHEAD
	r.Rule("C09-OVERHEAD", "MTU() of a header-prepending layer subtracts a quantity originating from that header's size", 5)
	// p2pke: Overhead = header(4) + AEAD tag
	{
		ov, _ := p.Object(core.ModPath+"/p/p2pke", "Overhead").(*types.Const)
		nm := needFn(r, "p/p2pke", "newMessage")
		tag := int64(-1)
		if pk := p.ByPath["golang.org/x/crypto/chacha20poly1305"]; pk != nil {
			if c, ok := pk.Types.Scope().Lookup("Overhead").(*types.Const); ok {
				tag, _ = constant.Int64Val(c.Val())
			}
		}
		hdr := int64(-1)
		if nm != nil {
			for _, in := range core.AllInstrs(nm) {
				if ms, ok := in.(*ssa.MakeSlice); ok {
					hdr, _ = core.ConstInt(ms.Len)
				}
				if a, ok := in.(*ssa.Alloc); ok {
					if at, ok := a.Type().(*types.Pointer).Elem().Underlying().(*types.Array); ok {
						hdr = at.Len()
					}
				}
			}
		}
		okO := false
		if ov != nil {
			v, _ := constant.Int64Val(ov.Val())
			okO = tag > 0 && hdr > 0 && v == tag+hdr
		}
		r.Check(okO, "C09-OVERHEAD", "p2pke.Overhead", "-", fmt.Sprintf("Overhead = header %d + AEAD tag %d", hdr, tag), fmt.Sprintf("p2pke.Overhead does not equal header (%d) + AEAD tag (%d): a payload of MTU() bytes does not fit the inner swarm", hdr, tag))
		mfn := needFn(r, "s/p2pkeswarm", "Swarm.MTU")
		if mfn != nil {
			okS := false
			for _, in := range core.AllInstrs(mfn) {
				if b, ok := in.(*ssa.BinOp); ok && b.Op == token.SUB {
					k, isK := core.ConstInt(b.Y)
					cc, isC := b.X.(*ssa.Call)
					if isK && ov != nil && isC && cc.Call.IsInvoke() && cc.Call.Method.Name() == "MTU" {
						v, _ := constant.Int64Val(ov.Val())
						okS = k == v
					}
				}
			}
			r.Check(okS, "C09-OVERHEAD", core.FnName(mfn), p.Pos(mfn.Pos()), "MTU() = inner.MTU() - p2pke.Overhead", "p2pkeswarm's MTU() does not subtract p2pke.Overhead from the inner MTU")
			// and on EVERY return path the reported value leaves room for the overhead: ret <= inner - Overhead
			// (difference-bound prover; a non-positive MTU is accepted as "nothing fits")
			if ov != nil {
				v, _ := constant.Int64Val(ov.Val())
				var inner *ssa.Call
				for _, in := range core.AllInstrs(mfn) {
					if cc, ok := in.(*ssa.Call); ok && cc.Call.IsInvoke() && cc.Call.Method.Name() == "MTU" {
						inner = cc
					}
				}
				bd := core.NewBounds(p)
				bd.MinFuncs = map[*ssa.Function]string{}
				if mf := p.Func("s/p2pkeswarm", "min"); mf != nil {
					bd.MinFuncs[mf] = "audited contract: returns the smallest of its variadic arguments"
				}
				okAll := inner != nil
				for _, ret := range core.Returns(mfn) {
					for _, rv := range core.ReturnValues(ret, 0) {
						if inner == nil {
							break
						}
						if !bd.ProveDiffAtMost(ret, rv, inner, -v) && !bd.ProveAtMost(ret, rv, 0) {
							okAll = false
						}
					}
				}
				r.Check(okAll, "C09-OVERHEAD", core.FnName(mfn)+" every return leaves room", p.Pos(mfn.Pos()), fmt.Sprintf("every value MTU() can return is at most inner.MTU() - %d (or not positive)", v), fmt.Sprintf("some path of MTU() returns more than inner.MTU() - %d: a payload within MTU() is encrypted to more bytes than the transport beneath accepts, the transport refuses it and the message is lost although Tell reported success", v))
			}
		}
	}
	// mbapp: HeaderSize is both the prepended array length and the subtrahend of partSize
	{
		hs, _ := p.Object(core.ModPath+"/p/mbapp", "HeaderSize").(*types.Const)
		send := needFn(r, "p/mbapp", "Swarm.send")
		if hs != nil && send != nil {
			v, _ := constant.Int64Val(hs.Val())
			arr, sub := false, false
			for _, in := range core.AllInstrs(send) {
				if a, ok := in.(*ssa.Alloc); ok {
					if at, ok := a.Type().(*types.Pointer).Elem().Underlying().(*types.Array); ok {
						if bt, ok := at.Elem().Underlying().(*types.Basic); ok && bt.Kind() == types.Byte && at.Len() == v {
							arr = true
						}
					}
				}
				if b, ok := in.(*ssa.BinOp); ok && b.Op == token.SUB {
					k, isK := core.ConstInt(b.Y)
					cc, isC := b.X.(*ssa.Call)
					if isK && k == v && isC && cc.Call.IsInvoke() && cc.Call.Method.Name() == "MTU" {
						sub = true
					}
				}
			}
			r.Check(arr && sub, "C09-OVERHEAD", core.FnName(send), p.Pos(send.Pos()), "the header prepended has HeaderSize bytes and the part size is inner MTU - HeaderSize", "mbapp's part size does not subtract the size of the header it prepends")
		}
	}
	// fragswarm: Overhead >= maximal header (uvarint of uint32 + 2 x uvarint of uint8)
	{
		ov, _ := p.Object(core.ModPath+"/s/fragswarm", "Overhead").(*types.Const)
		tell := needFn(r, "s/fragswarm", "swarm.Tell")
		if ov != nil && tell != nil {
			v, _ := constant.Int64Val(ov.Val())
			sub := false
			for _, in := range core.AllInstrs(tell) {
				if b, ok := in.(*ssa.BinOp); ok && b.Op == token.SUB {
					k, isK := core.ConstInt(b.Y)
					cc, isC := b.X.(*ssa.Call)
					if isK && k == v && isC && cc.Call.IsInvoke() && cc.Call.Method.Name() == "MTU" {
						sub = true
					}
				}
			}
			r.Check(sub && v >= 5+2+2, "C09-OVERHEAD", core.FnName(tell), p.Pos(tell.Pos()), fmt.Sprintf("each part carries at most inner MTU - %d bytes, at least the 9-byte maximal header", v), "fragswarm's part size does not leave room for its header")
		}
	}
	// p2pmux: subtrahend = VecSize(muxFunc(own cid, nil))
	{
		mfn := needFn(r, "p/p2pmux", "muxedSwarm.MTU")
		muxField := needField(r, "p/p2pmux", "muxCore", "muxFunc")
		cidF := needField(r, "p/p2pmux", "muxedSwarm", "cid")
		if mfn != nil && muxField != nil && cidF != nil {
			okM := false
			for _, ret := range core.Returns(mfn) {
				for _, v := range core.ReturnValues(ret, 0) {
					b, ok := v.(*ssa.BinOp)
					if !ok || b.Op != token.SUB {
						continue
					}
					inner, isC := b.X.(*ssa.Call)
					if !isC || !inner.Call.IsInvoke() || inner.Call.Method.Name() != "MTU" {
						continue
					}
					okM = core.DerivesFrom(b.Y, func(x ssa.Value) bool {
						cc, ok := x.(*ssa.Call)
						if !ok || cc.Call.IsInvoke() {
							return false
						}
						f, _ := core.FieldRead(cc.Call.Value)
						if !core.SameField(f, muxField) || len(cc.Call.Args) != 2 {
							return false
						}
						cf, _ := core.FieldRead(cc.Call.Args[0])
						return core.SameField(cf, cidF)
					})
				}
			}
			r.Check(okM, "C09-OVERHEAD", core.FnName(mfn), p.Pos(mfn.Pos()), "MTU() = inner MTU - size of what the mux function prepends for this channel", "the mux layer's MTU() subtracts something unrelated to its channel header: a payload of exactly MTU() bytes is rejected by the swarm underneath (or room is wasted)")
		}
	}

	// ---- C09-NARROW
	// part counts / indexes are written into 8- and 16-bit header fields: the narrowing
	// conversion must be dominated by a range check (difference-bound prover, shared with C08)
	r.Rule("C09-NARROW", "part counts and indexes are narrowed to the header field width only under a range guard", 4)
	ruleNarrow(r, "C09-NARROW")

	// ---- C09-PARTCOUNT: MTU() promises limit * partSize bytes; that holds only if the number of
	// parts is exactly ceil(size / partSize) — one part too many and a payload of MTU() bytes is refused
	// (or sent with an extra empty fragment the receiver may reject).
	r.Rule("C09-PARTCOUNT", "the part count compared with the header-field limit is the ceiling of size / part size", 2)
	for _, site := range []struct{ rel, fn string }{{"s/fragswarm", "swarm.Tell"}, {"p/mbapp", "Swarm.send"}} {
		fn := needFn(r, site.rel, site.fn)
		if fn == nil {
			continue
		}
		found := 0
		for _, in := range core.AllInstrs(fn) {
			b, ok := in.(*ssa.BinOp)
			if !ok || b.Op != token.GTR {
				continue
			}
			k, isK := core.ConstInt(b.Y)
			if !isK || (k != 255 && k != 65535) {
				continue
			}
			found++
			okC, why := isCeilDiv(b.X, 0)
			r.Check(okC, "C09-PARTCOUNT", core.FnName(fn)+" part count", p.Pos(b.Pos()), "the part count is size/partSize rounded up (recognised form: "+why+")", "the part count is not the ceiling of size / part size ("+why+"): a payload of exactly MTU() bytes needs one part more than the header field allows and is refused, or an extra empty fragment is sent")
		}
		if found == 0 {
			r.Fail("C09-PARTCOUNT: %s: no comparison of a part count with the header-field limit found", core.FnName(fn))
		}
	}

	// ---- C09-PARTIAL-KEPT: a split payload arrives complete only if the receiver keeps the parts it
	// already has while the others are on their way: the fragment layer's cleanup pass compares a
	// collector's age with the layer's ttl, so collectors must record when they were created and the
	// ttl must be positive — with both left at their zero values every pass deletes every partial message
	r.Rule("C09-PARTIAL-KEPT", "mbapp collectors record their creation time and the fragment layer's ttl is positive", 2)
	if nc, nfl := needFn(r, "p/mbapp", "newCollector"), needFn(r, "p/mbapp", "newFragLayer"); nc != nil && nfl != nil {
		ca := needField(r, "p/mbapp", "collector", "createdAt")
		ttl := needField(r, "p/mbapp", "fragLayer", "ttl")
		okCA := false
		for _, st := range core.StoresToField(nc, ca) {
			if core.DerivesFrom(st.Val, func(x ssa.Value) bool { _, isP := x.(*ssa.Parameter); return isP }) || core.DerivesFrom(st.Val, func(x ssa.Value) bool {
				c, ok := x.(*ssa.Call)
				return ok && core.CalleeName(c.Common()) == "time.Now"
			}) {
				okCA = true
			}
		}
		r.Check(okCA, "C09-PARTIAL-KEPT", core.FnName(nc)+" createdAt", p.Pos(nc.Pos()), "a new collector records its creation time", "a new collector's creation time stays the zero time: the cleanup pass considers every partial message older than any ttl and deletes it, so a message whose fragments straddle a pass never completes")
		okTTL := false
		for _, fn := range p.ModFuncs {
			if fn.Pkg != nfl.Pkg {
				continue
			}
			for _, st := range core.StoresToField(fn, ttl) {
				if k, isK := core.ConstInt(st.Val); isK && k > 0 {
					okTTL = true
				} else if !isK {
					okTTL = true // configured value
				}
			}
		}
		r.Check(okTTL, "C09-PARTIAL-KEPT", "fragLayer.ttl", p.Pos(nfl.Pos()), "the fragment layer's ttl is set to a positive duration", "the fragment layer's ttl is never set (zero): every cleanup pass deletes every partial message")
	}

	// ---- C09-COMPLETE (shared with C10-COMPLETE): "arrives complete": a payload within MTU() that was
	// split is handed up only after every part is in
	r.Rule("C09-COMPLETE", "assembly/delivery only after the completion test; the test covers every part", 5)
	ruleComplete(r, "C09-COMPLETE")

	// ---- C09-QUEUE-WHOLE (after seed C09-s7): vswarm/memswarm report the configured MTU and hand every Tell up to
	// that size to swarmutil.Queue. The queue keeps a message in a recycled slot: whatever is stored as a slot's
	// payload is built by a growing append (append / p2p.VecBytes) from length 0 — or is the emptying of the slot —
	// never a copy into the slot's existing capacity, which silently keeps only what fits.
	r.Rule("C09-QUEUE-WHOLE", "a payload stored into a swarmutil queue slot is built by a growing append from length 0 (no copy into the slot's fixed capacity)", 3)
	{
		nq := 0
		// capFull: every slot is created with the capacity of the very value recorded as the queue's mtu; then a
		// copy into the capacity holds every message up to the MTU and only the growing form is optional
		capFull := false
		if nqf := needFn(r, "s/swarmutil", "NewQueue"); nqf != nil {
			var mtuVal ssa.Value
			var caps []ssa.Value
			for _, in := range core.AllInstrs(nqf) {
				switch x := in.(type) {
				case *ssa.Store:
					if f, _ := core.FieldOfAddr(x.Addr); f != nil && f.Name() == "mtu" {
						mtuVal = x.Val
					}
				case *ssa.MakeSlice:
					if isByteSliceT(x.Type()) {
						caps = append(caps, x.Cap)
					}
				}
			}
			capFull = mtuVal != nil && len(caps) > 0
			for _, c := range caps {
				if c != mtuVal {
					capFull = false
				}
			}
		}
		for _, fn := range p.ModFuncs {
			if fn.Pkg == nil || !strings.HasSuffix(fn.Pkg.Pkg.Path(), "s/swarmutil") {
				continue
			}
			for _, in := range core.AllInstrs(fn) {
				st, ok := in.(*ssa.Store)
				if !ok {
					continue
				}
				f, _ := core.FieldOfAddr(st.Addr)
				if f == nil || f.Name() != "Payload" || f.Pkg() == nil || f.Pkg().Path() != core.ModPath {
					continue
				}
				nq++
				r.Analysed(fn)
				good := false
				switch x := core.Peel(st.Val).(type) {
				case *ssa.Call:
					nm := core.CalleeName(x.Common())
					grows := core.IsBuiltin(x.Common(), "append") || strings.HasSuffix(nm, ".VecBytes")
					if grows && len(x.Call.Args) > 0 {
						if sl, isS := x.Call.Args[0].(*ssa.Slice); isS && sl.High != nil {
							if k, isK := core.ConstInt(sl.High); isK && k == 0 {
								good = true
							}
						}
					}
				case *ssa.Slice:
					if x.High != nil {
						if k, isK := core.ConstInt(x.High); isK && k == 0 {
							good = true // emptying the slot
						}
					}
				case *ssa.MakeSlice:
					if k, isK := core.ConstInt(x.Len); isK && k == 0 {
						good = true // a fresh, empty slot
					}
				case *ssa.Const:
					good = x.IsNil()
				}
				if _, isMk := core.Peel(st.Val).(*ssa.MakeSlice); !good && !isMk && capFull {
					r.OK("C09-QUEUE-WHOLE", core.FnName(fn)+" store Payload", p.Pos(st.Pos()), "not a growing append, but every slot has the capacity of the queue's mtu: every message within the MTU fits")
					continue
				}
				r.Check(good, "C09-QUEUE-WHOLE", core.FnName(fn)+" store Payload", p.Pos(st.Pos()), "built by append/VecBytes onto payload[:0], or emptied", "the slot's payload is not built by a growing append from length 0: a message larger than the slot's capacity (but within the MTU the swarm reports) is stored short and delivered truncated")
			}
		}
		_ = nq
	}

	// ---- C09-RECV-LIMIT
	r.Rule("C09-RECV-LIMIT", "a read bounded by the MTU rejects an oversize message instead of delivering its prefix", 1)
	h := resolveHubs(r)
	nLim := 0
	for _, fn := range p.ModFuncs {
		for _, ci := range core.CallsToName(fn, "io.LimitReader") {
			nLim++
			r.Analysed(fn)
			lim := ci.(*ssa.Call)
			// data read through the limited reader
			var reads []*ssa.Call
			for _, in := range core.AllInstrs(fn) {
				cc, ok := in.(*ssa.Call)
				if ok && core.CalleeName(cc.Common()) == "io.ReadAll" && core.DerivesFromDirect(cc.Call.Args[0], func(x ssa.Value) bool { return x == ssa.Value(lim) }) {
					reads = append(reads, cc)
				}
			}
			// a limit placed on a FRAMED read (length prefix read with binary.Read, then the body) counts the prefix
			// too: it has to leave room for the largest body the function accepts plus the prefix, or a frame
			// whose body is within the last few bytes of MTU() is cut short and refused
			for _, in := range core.AllInstrs(fn) {
				br, ok := in.(*ssa.Call)
				if !ok || core.CalleeName(br.Common()) != "encoding/binary.Read" || !core.DerivesFromDirect(br.Call.Args[0], func(x ssa.Value) bool { return x == ssa.Value(lim) }) {
					continue
				}
				prefix := int64(0)
				if mi, isMI := br.Call.Args[2].(*ssa.MakeInterface); isMI {
					if pt, isPtr := mi.X.Type().Underlying().(*types.Pointer); isPtr {
						if bt, isB := pt.Elem().Underlying().(*types.Basic); isB {
							prefix = map[types.BasicKind]int64{types.Uint8: 1, types.Uint16: 2, types.Uint32: 4, types.Uint64: 8, types.Int32: 4, types.Int64: 8}[bt.Kind()]
						}
					}
				}
				// the largest body accepted: the right-hand side of `int(l) > maxLen`
				var maxBody ssa.Value
				for _, i2 := range core.AllInstrs(fn) {
					b, isB := i2.(*ssa.BinOp)
					if !isB || b.Op != token.GTR {
						continue
					}
					if _, isConv := b.X.(*ssa.Convert); isConv {
						if prm, isPrm := core.Through(b.Y).(*ssa.Parameter); isPrm {
							maxBody = prm
						}
					}
				}
				c := core.FnName(fn) + " limit on framed read"
				if prefix == 0 || maxBody == nil {
					r.Undecided("C09-RECV-LIMIT", c, p.Pos(lim.Pos()), "a byte limit is placed on a framed read but the prefix width or the accepted body size could not be identified")
					continue
				}
				bd := core.NewBounds(p)
				r.Check(bd.ProveDiffAtMost(lim, maxBody, lim.Call.Args[1], -prefix), "C09-RECV-LIMIT", c, p.Pos(lim.Pos()),
					fmt.Sprintf("the limit is at least the accepted body size plus the %d-byte length prefix", prefix),
					fmt.Sprintf("the byte limit on the framed read is not provably the accepted body size plus the %d-byte length prefix: a frame whose body is within %d bytes of MTU() passes the sender's check and is cut short by the reader, so an Ask of exactly MTU() bytes fails", prefix, prefix))
			}
			for _, rd := range reads {
				// deliveries of that data must be guarded by a length comparison on it
				cut := core.CutWhere(func(cond ssa.Value) int {
					b, ok := cond.(*ssa.BinOp)
					if !ok || !isLenCall(b.X) {
						return 0
					}
					lc := core.Peel(b.X).(*ssa.Call)
					c2, idx, ok := core.CallResult(lc.Call.Args[0])
					if !ok || c2 != rd || idx != 0 {
						return 0
					}
					switch b.Op {
					case token.GTR, token.GEQ:
						return -1
					case token.LEQ, token.LSS:
						return 1
					}
					return 0
				})
				for _, di := range core.Calls(fn, func(ci ssa.CallInstruction) bool {
					f := core.StaticCallee(ci.Common())
					return f != nil && (f == h.fns["TellHub.Deliver"] || f == h.fns["AskHub.Deliver"])
				}) {
					ok := core.GuardEdges(fn, cut) > 0 && !core.Reach(fn, rd, cut, nil)[di.(ssa.Instruction)]
					r.Check(ok, "C09-RECV-LIMIT", core.FnName(fn)+" LimitReader", p.Pos(lim.Pos()), "data read through the MTU-limited reader is delivered only after its length was compared with the limit", "a message longer than the MTU is cut at the MTU by the limited reader and its prefix is delivered as if it were the whole message")
				}
			}
		}
	}
	if nLim == 0 {
		r.Fail("C09-RECV-LIMIT: no io.LimitReader call found (anchor stale)")
	}
}

func narrowName(v ssa.Value) string {
	v = core.Through(v)
	if n := v.Name(); n != "" {
		if a := core.CellOf(v); a != nil && a.Comment != "" {
			return a.Comment
		}
		if ph, ok := v.(*ssa.Phi); ok && ph.Comment != "" {
			return ph.Comment
		}
	}
	return "value"
}

// isCeilDiv recognises the module's ways of writing ceil(t/p):
//
//	q := t / p; if p*q < t { q++ }        (strict comparison)
//	q := t / p; if t%p > 0 { q++ }        (or != 0)
//	(t + p - 1) / p
//	... optionally followed by: if q == 0 { q = 1 }
func isCeilDiv(v ssa.Value, depth int) (bool, string) {
	v = core.Through(v)
	if depth > 3 {
		return false, "too deep"
	}
	// computed by a helper of the module (numParts(total, partSize)): every value the helper returns is a
	// ceiling division of its own operands
	if c, ok := v.(*ssa.Call); ok {
		if g := core.StaticCallee(c.Common()); g != nil && g.Blocks != nil && g.Pkg != nil && strings.HasPrefix(g.Pkg.Pkg.Path(), core.ModPath) && g.Signature.Results().Len() == 1 {
			why := ""
			for _, ret := range core.Returns(g) {
				for _, rv := range core.ReturnValues(ret, 0) {
					okIn, w := isCeilDiv(rv, depth+1)
					if !okIn {
						return false, "helper " + g.Name() + ": " + w
					}
					why = w
				}
			}
			if why != "" {
				return true, why + " in " + g.Name()
			}
		}
	}
	if q, ok := v.(*ssa.BinOp); ok && q.Op == token.QUO {
		// (t + p - 1) / p
		num, okN := core.Through(q.X).(*ssa.BinOp)
		if okN && num.Op == token.SUB {
			if k, isK := core.ConstInt(num.Y); isK && k == 1 {
				if add, okA := core.Through(num.X).(*ssa.BinOp); okA && add.Op == token.ADD && (core.Through(add.X) == core.Through(q.Y) || core.Through(add.Y) == core.Through(q.Y)) {
					return true, "(t + p - 1) / p"
				}
			}
		}
		if okN && num.Op == token.ADD {
			if sub, okS := core.Through(num.Y).(*ssa.BinOp); okS && sub.Op == token.SUB && core.Through(sub.X) == core.Through(q.Y) {
				if k, isK := core.ConstInt(sub.Y); isK && k == 1 {
					return true, "(t + (p - 1)) / p"
				}
			}
		}
		return false, "a plain division rounds down"
	}
	phi, ok := v.(*ssa.Phi)
	if !ok || len(phi.Edges) != 2 {
		return false, "not a division followed by a conditional increment"
	}
	for i := 0; i < 2; i++ {
		base, alt := core.Through(phi.Edges[i]), core.Through(phi.Edges[1-i])
		pred := phi.Block().Preds[i]
		iff, okI := pred.Instrs[len(pred.Instrs)-1].(*ssa.If)
		if !okI {
			continue
		}
		altBlk := phi.Block().Preds[1-i]
		trueToAlt := pred.Succs[0] == altBlk
		cond, okB := iff.Cond.(*ssa.BinOp)
		if !okB {
			continue
		}
		// clamp: if q == 0 { q = 1 }
		if k, isK := core.ConstInt(alt); isK && k == 1 {
			if cond.Op == token.EQL && core.Through(cond.X) == base && trueToAlt {
				if z, isZ := core.ConstInt(cond.Y); isZ && z == 0 {
					okIn, why := isCeilDiv(base, depth+1)
					return okIn, why + ", at least 1"
				}
			}
			continue
		}
		// increment
		inc, okInc := alt.(*ssa.BinOp)
		if !okInc || inc.Op != token.ADD || core.Through(inc.X) != base {
			continue
		}
		if k, isK := core.ConstInt(inc.Y); !isK || k != 1 {
			continue
		}
		q, okQ := base.(*ssa.BinOp)
		if !okQ || q.Op != token.QUO {
			continue
		}
		t, pp := core.Through(q.X), core.Through(q.Y)
		if !trueToAlt {
			return false, "the increment is taken on the false edge of its test"
		}
		switch cond.Op {
		case token.LSS:
			if m, okM := core.Through(cond.X).(*ssa.BinOp); okM && m.Op == token.MUL && core.Through(cond.Y) == t {
				a, b := core.Through(m.X), core.Through(m.Y)
				if (a == pp && b == ssa.Value(q)) || (b == pp && a == ssa.Value(q)) {
					return true, "q := t/p; if p*q < t { q++ }"
				}
			}
		case token.GTR, token.NEQ:
			if m, okM := core.Through(cond.X).(*ssa.BinOp); okM && m.Op == token.REM && core.Through(m.X) == t && core.Through(m.Y) == pp {
				if z, isZ := core.ConstInt(cond.Y); isZ && z == 0 {
					return true, "q := t/p; if t%p > 0 { q++ }"
				}
			}
		case token.LEQ:
			return false, "the increment is taken when p*q <= t, i.e. also when p divides t"
		case token.GEQ:
			return false, "the increment is taken when t%p >= 0, i.e. always"
		}
		return false, "the increment's test is not a remainder test"
	}
	return false, "not a division followed by a conditional increment"
}

// ruleNarrow: part counts / indexes are written into 8- and 16-bit header fields: the narrowing conversion
// must be dominated by a range check (difference-bound prover). Shared by C09 (a payload within MTU() is
// deliverable) and C10 (a wrapped part count makes the receiver deliver a fragment, or a zero-filled
// buffer, as the whole message).
func ruleNarrow(r *core.Report, ruleID string) {
	p := r.P
	{
		bd := core.NewBounds(p)
		for _, site := range []struct{ rel, fn string }{{"s/fragswarm", "swarm.Tell"}, {"p/mbapp", "Swarm.send"}} {
			root := needFn(r, site.rel, site.fn)
			if root == nil {
				continue
			}
			for _, fn := range core.WithAnons(root) {
				for _, in := range core.AllInstrs(fn) {
					cv, ok := in.(*ssa.Convert)
					if !ok {
						continue
					}
					tb, isB := cv.Type().Underlying().(*types.Basic)
					sb, isS := cv.X.Type().Underlying().(*types.Basic)
					if !isB || !isS || sb.Kind() != types.Int {
						continue
					}
					var max int64
					switch tb.Kind() {
					case types.Uint8:
						max = 255
					case types.Uint16:
						max = 65535
					default:
						continue
					}
					if _, isK := core.ConstInt(cv.X); isK {
						continue
					}
					c := fmt.Sprintf("%s %s(%s)", core.FnName(fn), tb.Name(), narrowName(cv.X))
					ok2 := bd.ProveAtMost(in, cv.X, max) // (a negative count arises only from an inner MTU below the header size: configuration error)
					r.Check(ok2, ruleID, c, p.Pos(in.Pos()), fmt.Sprintf("value <= %d follows from dominating checks", max),
						fmt.Sprintf("a part count/index derived from the payload size is narrowed to %s with no range guard: a payload within MTU() that needs more than %d parts is sent with a wrapped header field and reassembled wrongly or never", tb.Name(), max))
				}
			}
		}
	}

}
