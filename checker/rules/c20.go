package rules

import (
	"go/constant"
	"fmt"
	"go/token"
	"go/types"

	"golang.org/x/tools/go/ssa"

	"p2pverif/core"
)

func init() { All["C20"] = c20 }

// condCut builds the cut of edges on which an If condition matching m holds
// (want=true) or does not hold (want=false).
func condCut(m func(ssa.Value) bool, want bool) core.CutFunc {
	return core.CutWhere(func(cond ssa.Value) int {
		if !m(cond) {
			return 0
		}
		if want {
			return 1
		}
		return -1
	})
}

func c20(r *core.Report) {
	p := r.P
	r.Explanation = "Static necessary conditions of 'iterative DHT operations are bounded and truthful': (ADMIT) in dhtIterate the only growth of the candidate list is an append guarded by 'strictly closer to the key than the node just contacted' and by 'not already queued', with the distance test applied to (key, candidate, contacted node); the window n is at least 1; with both guards the multiset of candidate distances decreases in the Dershowitz-Manna order every round whatever responders return, which is the termination argument the rule's premises support; (TRUTH) DHTPut returns a non-nil error exactly on the edge accepted < minimum and counts an acceptance only when the response says so; DHTGet records a value and its source only for a non-nil value that passed validation, taken from that node's response, and errs exactly when no source was recorded; DHTFindNode errs exactly when the closest node is not the target; HandleFindNode caps the list it returns at 10. (CLOSEST) every update of a result's Closest field stores the contacted node's id under the guard 'unset or strictly nearer to the key'. 'Each distinct node contacted at most once' quantifies over topologies and is not decided."
	r.Assumptions = []string{"DistanceLt is a strict order on distances (property C19, not decided here)"}
	r.Trusted = []string{"go/types, go/ssa (x/tools v0.29.0)"}
	iter := needFn(r, "p/kademlia", "dhtIterate")
	distLt := needFn(r, "p/kademlia", "DistanceLt")
	containsFn := needFn(r, "p/kademlia", "contains")
	popFn := needFn(r, "p/kademlia", "pop")
	put := needFn(r, "p/kademlia", "DHTPut")
	get := needFn(r, "p/kademlia", "DHTGet")
	find := needFn(r, "p/kademlia", "DHTFindNode")
	hfn := needFn(r, "p/kademlia", "DHTNode.HandleFindNode")
	lni := needFn(r, "p/kademlia", "DHTNode.ListNodeInfos")
	if len(r.Failures) > 0 {
		return
	}

	// ---- C20-ADMIT
	r.Rule("C20-ADMIT", "the candidate list grows only by an append guarded by strictly-closer and not-already-queued", 4)
	{
		fn := iter
		var appends []*ssa.Call
		for _, in := range core.AllInstrs(fn) {
			if c, ok := in.(*ssa.Call); ok && core.IsBuiltin(c.Common(), "append") {
				appends = append(appends, c)
			}
		}
		isDist := func(c *ssa.CallCommon) bool { return core.IsCallToFn(c, distLt) }
		isContains := func(c *ssa.CallCommon) bool { return core.IsCallToFn(c, containsFn) }
		for _, ap := range appends {
			c := core.FnName(fn) + " append(nodes, …)"
			cutCloser := core.CutWhere(core.BoolCallGuard(isDist, true))
			r.Check(core.GuardEdges(fn, cutCloser) > 0 && core.GuardedFromEntry(fn, ap, cutCloser), "C20-ADMIT", c+" strictly-closer", p.Pos(ap.Pos()),
				"a peer is admitted only when DistanceLt(key, peer, contacted) holds", "a suggested peer that is not strictly closer than the node just contacted can be queued: cyclic or self-referential peer lists make the iteration run forever")
			cutNew := core.CutWhere(core.BoolCallGuard(isContains, false))
			r.Check(core.GuardEdges(fn, cutNew) > 0 && core.GuardedFromEntry(fn, ap, cutNew), "C20-ADMIT", c+" not-queued", p.Pos(ap.Pos()),
				"a peer is admitted only when it is not already queued", "a peer already in the candidate list can be queued again")
		}
		r.Check(len(appends) == 1, "C20-ADMIT", core.FnName(fn)+" single growth site", p.Pos(fn.Pos()), "exactly one append grows the candidate list", "the candidate list grows at more than one site (or none): the admission guards do not cover all growth")
		// argument roles of the distance test
		for _, ci := range core.CallsToFn(fn, distLt) {
			args := ci.Common().Args
			keyOK := core.DerivesFrom(args[0], func(x ssa.Value) bool { return x == ssa.Value(fn.Params[1]) })
			fromPop := func(v ssa.Value) bool {
				return core.DerivesFromDirect(v, func(x ssa.Value) bool {
					c, idx, ok := core.CallResult(x)
					return ok && idx == 0 && core.IsCallToFn(c.Common(), popFn)
				})
			}
			fromResp := func(v ssa.Value) bool {
				return core.DerivesFromDirect(v, func(x ssa.Value) bool {
					c, idx, ok := core.CallResult(x)
					return ok && idx == 0 && core.IsParamFuncCall(c.Common())
				})
			}
			ok := keyOK && fromResp(args[1]) && !fromPop(args[1]) && fromPop(args[2]) && !fromResp(args[2])
			r.Check(ok, "C20-ADMIT", core.FnName(fn)+" distance roles", p.Pos(ci.Pos()), "the test compares the suggested peer with the node just contacted, relative to the key", "the distance test does not compare (key, suggested peer, contacted node) in that order")
		}
		// contains compares ids of the queued nodes with the candidate
		for _, ci := range core.CallsToFn(fn, containsFn) {
			lit := core.ClosureFn(ci.Common().Args[2])
			ok := false
			if lit != nil {
				for _, ret := range core.Returns(lit) {
					if b, isB := ret.Results[0].(*ssa.BinOp); isB && b.Op == token.EQL {
						fx, _ := core.FieldRead(b.X)
						fy, _ := core.FieldRead(b.Y)
						ok = fx != nil && fy != nil && fx.Name() == "ID" && fy.Name() == "ID"
					}
				}
			}
			r.Check(ok, "C20-ADMIT", core.FnName(fn)+" same-id", p.Pos(ci.Pos()), "queued-ness is decided by node id", "the already-queued test does not compare node ids")
		}
		// n >= 1
		cutN := core.CutWhere(func(cond ssa.Value) int {
			b, ok := cond.(*ssa.BinOp)
			if !ok || b.X != ssa.Value(fn.Params[2]) {
				return 0
			}
			k, isK := core.ConstInt(b.Y)
			if !isK || k != 1 {
				return 0
			}
			switch b.Op {
			case token.LSS:
				return -1
			case token.GEQ:
				return 1
			}
			return 0
		})
		okN := core.GuardEdges(fn, cutN) > 0
		for _, ci := range core.CallsToFn(fn, popFn) {
			if !core.GuardedFromEntry(fn, ci.(ssa.Instruction), cutN) {
				okN = false
			}
		}
		r.Check(okN, "C20-ADMIT", core.FnName(fn)+" window", p.Pos(fn.Pos()), "the candidate window is at least 1 before anything is popped", "the candidate window can be 0: the list is truncated to nothing and pop indexes an empty slice")
	}

	// ---- C20-DISTANCE (shared with C19-CMP-SHAPE): every decision of the iteration (candidate order,
	// "actually closer", Closest) goes through DistanceLt; it must be the byte-wise order of XOR distances
	r.Rule("C20-DISTANCE", "DistanceCmp compares x^a with x^b byte by byte from the first byte; DistanceLt/Gt are its sign", 6)
	ruleCmpShape(r, "C20-DISTANCE")

	// ---- C20-VISIT-ONCE: "contacting each distinct node at most once": the callback is reached only
	// through the 'not yet visited' edge of a lookup of the popped node's id in a set local to
	// dhtIterate, and the id is added to that set before the callback runs. (With both, no id is ever
	// handed to the callback twice, whatever lists the responders return.)
	r.Rule("C20-VISIT-ONCE", "dhtIterate hands a node to the callback only after a visited-set miss on its id, and records the id first", 2)
	{
		var fnCalls []*ssa.Call
		for _, in := range core.AllInstrs(iter) {
			if c, ok := in.(*ssa.Call); ok && core.IsParamFuncCall(c.Common()) {
				fnCalls = append(fnCalls, c)
			}
		}
		r.Check(len(fnCalls) == 1, "C20-VISIT-ONCE", "dhtIterate single callback site", p.Pos(iter.Pos()), "the callback is invoked at one site", fmt.Sprintf("the callback is invoked at %d sites", len(fnCalls)))
		for _, fc := range fnCalls {
			// the node handed to the callback: where its id comes from
			nodeIDOf := func(v ssa.Value) bool {
				// v derives from the ID field of the same cell/value that is passed to fn
				arg := core.Through(fc.Call.Args[0])
				return core.DerivesFrom(v, func(x ssa.Value) bool {
					f, base := core.FieldRead(x)
					if f == nil || f.Name() != "ID" {
						if fa, ok := x.(*ssa.FieldAddr); ok {
							f2, b2 := core.FieldOfAddr(fa)
							if f2 != nil && f2.Name() == "ID" {
								return core.Through(&ssa.UnOp{Op: token.MUL, X: b2}) == arg || sameCellValue(b2, fc.Call.Args[0])
							}
						}
						return false
					}
					return core.Through(base) == arg || sameCellValue(base, fc.Call.Args[0])
				})
			}
			var set ssa.Value
			cutMiss := func(b *ssa.BasicBlock, i int) bool {
				iff, ok := b.Instrs[len(b.Instrs)-1].(*ssa.If)
				if !ok {
					return false
				}
				cond, neg := core.StripNot(iff.Cond)
				ex, ok := cond.(*ssa.Extract)
				if !ok || ex.Index != 1 {
					return false
				}
				lk, ok := ex.Tuple.(*ssa.Lookup)
				if !ok || !lk.CommaOk {
					return false
				}
				if _, isMake := lk.X.(*ssa.MakeMap); !isMake || !nodeIDOf(lk.Index) {
					return false
				}
				set = lk.X
				// the miss edge: ok == false
				missEdge := 1
				if neg {
					missEdge = 0
				}
				return i == missEdge
			}
			guarded := core.GuardEdges(iter, cutMiss) > 0 && core.GuardedFromEntry(iter, fc, cutMiss)
			r.Check(guarded, "C20-VISIT-ONCE", "dhtIterate callback after visited-set miss", p.Pos(fc.Pos()), "the callback is reachable only through the miss edge of a lookup of the node's id in a local set", "a node is handed to the callback without a visited-set test on its id: a node that was contacted and removed from the candidate list is contacted again when a farther node names it (or when it is listed twice initially), so contacts and accepted counts are inflated and adversarial peer lists multiply the work")
			if !guarded || set == nil {
				continue
			}
			// the id is recorded before the callback on every path from the miss edge
			recorded := true
			for _, b := range iter.Blocks {
				for i := range b.Succs {
					if !cutMiss(b, i) {
						continue
					}
					first := b.Succs[i].Instrs[0]
					reach := core.ReachAt(iter, first, nil, func(in ssa.Instruction) bool {
						mu, ok := in.(*ssa.MapUpdate)
						return ok && mu.Map == set && nodeIDOf(mu.Key)
					})
					if reach[fc] {
						recorded = false
					}
				}
			}
			r.Check(recorded, "C20-VISIT-ONCE", "dhtIterate records before calling", p.Pos(fc.Pos()), "the node's id is added to the set on every path from the miss to the callback", "the node's id is not added to the visited set before the callback: the same node passes the test again later")
		}
	}

	// ---- C20-CLOSEST: "the reported closest node is the nearest among those contacted": every store
	// of the contacted node's id into a result's Closest field is guarded by `Closest is unset` or
	// `DistanceLt(key, node.ID, Closest)`, and both guards exist (starting from the all-zero id without
	// the unset test reports the zero id, or misses every node farther from the key than zero)
	r.Rule("C20-CLOSEST", "Closest is replaced only by a node strictly nearer to the key, or when it is still unset", 3)
	nClosest := 0
	for _, root := range []*ssa.Function{find, get, put} {
		for _, lit := range core.WithAnons(root) {
			if lit == root || len(lit.Params) != 1 {
				continue
			}
			node := lit.Params[0]
			for _, in := range core.AllInstrs(lit) {
				st, ok := in.(*ssa.Store)
				if !ok {
					continue
				}
				f, _ := core.FieldOfAddr(st.Addr)
				if f == nil || f.Name() != "Closest" {
					continue
				}
				nClosest++
				c := core.FnName(root) + " Closest"
				isClosestRead := func(v ssa.Value) bool {
					return core.DerivesFrom(v, func(x ssa.Value) bool {
						if fa, ok := x.(*ssa.FieldAddr); ok {
							f2, _ := core.FieldOfAddr(fa)
							return f2 != nil && f2.Name() == "Closest"
						}
						f2, _ := core.FieldRead(x)
						return f2 != nil && f2.Name() == "Closest"
					})
				}
				fromNode := func(v ssa.Value) bool {
					return core.DerivesFrom(v, func(x ssa.Value) bool { return x == ssa.Value(node) })
				}
				r.Check(fromNode(st.Val), "C20-CLOSEST", c+" value", p.Pos(st.Pos()), "the recorded id is the contacted node's", "Closest is set to something other than the contacted node's id")
				cutZero := core.CutWhere(func(cond ssa.Value) int {
					cl, ok := cond.(*ssa.Call)
					if ok && core.CalleeName(cl.Common()) == "(go.brendoncarroll.net/p2p.PeerID).IsZero" && len(cl.Call.Args) == 1 && isClosestRead(cl.Call.Args[0]) {
						return 1
					}
					return 0
				})
				cutLt := core.CutWhere(func(cond ssa.Value) int {
					cl, ok := cond.(*ssa.Call)
					if ok && core.IsCallToFn(cl.Common(), distLt) && len(cl.Call.Args) == 3 && fromNode(cl.Call.Args[1]) && isClosestRead(cl.Call.Args[2]) && !fromNode(cl.Call.Args[0]) && !isClosestRead(cl.Call.Args[0]) {
						return 1
					}
					return 0
				})
				// the same guard written as a helper `g(key, candidate, closest) bool` that answers true only when
				// closest is unset or candidate is strictly nearer to key
				helperHasZero, helperHasLt := false, false
				guardHelper := func(cl *ssa.Call) bool {
					g := core.StaticCallee(cl.Common())
					if g == nil || !p.InModule(g) || g.Blocks == nil || g.Signature.Results().Len() != 1 {
						return false
					}
					candIdx, closIdx := -1, -1
					for ai, a := range cl.Call.Args {
						switch {
						case isClosestRead(a):
							closIdx = ai
						case fromNode(a):
							candIdx = ai
						}
					}
					if candIdx < 0 || closIdx < 0 || closIdx >= len(g.Params) || candIdx >= len(g.Params) {
						return false
					}
					fromP := func(i int) func(ssa.Value) bool {
						return func(v ssa.Value) bool {
							return core.DerivesFrom(v, func(x ssa.Value) bool { return x == ssa.Value(g.Params[i]) })
						}
					}
					isCand, isClos := fromP(candIdx), fromP(closIdx)
					zeroCall := func(v ssa.Value) bool {
						c2, ok := v.(*ssa.Call)
						return ok && core.CalleeName(c2.Common()) == "(go.brendoncarroll.net/p2p.PeerID).IsZero" && len(c2.Call.Args) == 1 && isClos(c2.Call.Args[0])
					}
					ltCall := func(v ssa.Value) bool {
						c2, ok := v.(*ssa.Call)
						return ok && core.IsCallToFn(c2.Common(), distLt) && len(c2.Call.Args) == 3 && isCand(c2.Call.Args[1]) && isClos(c2.Call.Args[2]) && !isCand(c2.Call.Args[0]) && !isClos(c2.Call.Args[0])
					}
					gz := core.CutWhere(func(cond ssa.Value) int {
						if zeroCall(cond) {
							return 1
						}
						return 0
					})
					gl := core.CutWhere(func(cond ssa.Value) int {
						if ltCall(cond) {
							return 1
						}
						return 0
					})
					for _, ret := range core.Returns(g) {
						for _, v := range core.ReturnValues(ret, 0) {
							vals := []ssa.Value{v}
							if ph, isPhi := v.(*ssa.Phi); isPhi {
								vals = ph.Edges
							}
							for _, x := range vals {
								b, isK := core.ConstBool(x)
								switch {
								case isK && !b:
								case isK && b:
									if len(vals) > 1 || !core.GuardedFromEntry(g, ret, core.CutAny(gz, gl)) {
										return false
									}
								case zeroCall(x):
									helperHasZero = true
								case ltCall(x):
									helperHasLt = true
								default:
									return false
								}
							}
						}
					}
					if core.GuardEdges(g, gz) > 0 {
						helperHasZero = true
					}
					if core.GuardEdges(g, gl) > 0 {
						helperHasLt = true
					}
					return true
				}
				cutHelper := core.CutWhere(func(cond ssa.Value) int {
					if cl, ok := cond.(*ssa.Call); ok && guardHelper(cl) {
						return 1
					}
					return 0
				})
				usesHelper := core.GuardEdges(lit, cutHelper) > 0
				hasZero, hasLt := core.GuardEdges(lit, cutZero) > 0 || (usesHelper && helperHasZero), core.GuardEdges(lit, cutLt) > 0 || (usesHelper && helperHasLt)
				guarded := core.GuardedFromEntry(lit, st, core.CutAny(cutZero, cutLt, cutHelper))
				why := ""
				switch {
				case !guarded:
					why = "Closest is overwritten without comparing distances (it ends up being the last node that answered, not the nearest)"
				case !hasLt:
					why = "no DistanceLt(key, node.ID, Closest) guards the replacement"
				case !hasZero:
					why = "Closest starts as the all-zero id and there is no 'still unset' test: a node is recorded only if it is nearer to the key than the zero id, so for keys near zero the result names the zero id, which is no node at all"
				}
				r.Check(why == "", "C20-CLOSEST", c+" guard", p.Pos(st.Pos()), "replaced only when unset or when the contacted node is strictly nearer to the key", why)
			}
		}
	}
	if nClosest < 3 {
		r.Fail("C20-CLOSEST: %d stores to a Closest field found in the iteration callbacks, 3 confirmed on the pinned tree", nClosest)
	}

	// ---- C20-UNSET-EXACT: "Closest.IsZero()" / "From.IsZero()" is how the operations tell "nothing recorded
	// yet" from a recorded node. The test has to be exact (true for the all-zero id only): with a lossy test the
	// nearest node, once recorded, is overwritten by a farther one and a found value is reported as not found.
	r.Rule("C20-UNSET-EXACT", "the unset test of a node id is the comparison with the zero value, or folds the bytes with OR and compares with zero only", 1)
	{
		seenZ := map[*ssa.Function]bool{}
		for _, nm := range []string{"DHTFindNode", "DHTGet", "DHTPut", "DHTJoin", "dhtIterate"} {
			fn := p.Func("p/kademlia", nm)
			if fn == nil {
				continue
			}
			fns := append([]*ssa.Function{fn}, fn.AnonFuncs...)
			for _, g := range fns {
				for _, in := range core.AllInstrs(g) {
					c, ok := in.(*ssa.Call)
					if !ok {
						continue
					}
					z := core.StaticCallee(c.Common())
					if z == nil || z.Name() != "IsZero" || !p.InModule(z) || seenZ[z] || z.Blocks == nil {
						continue
					}
					seenZ[z] = true
					r.Analysed(z)
					recv := z.Params[0]
					fromRecv := func(v ssa.Value) bool {
						return core.DerivesFrom(v, func(x ssa.Value) bool { return x == ssa.Value(recv) })
					}
					bad := ""
					for _, zi := range core.AllInstrs(z) {
						b, isB := zi.(*ssa.BinOp)
						if !isB || !(fromRecv(b.X) || fromRecv(b.Y)) {
							continue
						}
						switch b.Op {
						case token.EQL, token.NEQ, token.OR:
						default:
							bad = fmt.Sprintf("%s at %s", b.Op, p.Pos(b.Pos()))
						}
					}
					r.Check(bad == "", "C20-UNSET-EXACT", core.FnName(z), p.Pos(z.Pos()),
						"the id's bytes are only compared for equality or OR-ed together",
						"the unset test combines the id's bytes with "+bad+": ids that are not all-zero can test as unset (e.g. bytes that cancel), so a recorded nearest node is overwritten by a farther one and a found value is reported as missing")
				}
			}
		}
		if len(seenZ) == 0 {
			r.Fail("C20-UNSET-EXACT: no IsZero call found in the iterative operations")
		}
	}

	// ---- C20-ACCEPT-TRUTH: the accepted count DHTPut reports is the sum of the responders' Accepted flags. An
	// honest responder stored the value whenever the cache did not evict that very entry: when nothing was evicted
	// (free space, or an overwrite of a key it already holds, which Cache.Update reports as (nil, false)) the
	// answer is "accepted", whatever else the responder knows.
	r.Rule("C20-ACCEPT-TRUTH", "wasAccepted returns true on every path on which no entry was evicted", 1)
	if wa := needFn(r, "p/kademlia", "wasAccepted"); wa != nil {
		r.Analysed(wa)
		var ev ssa.Value
		for _, prm := range wa.Params {
			if _, isPtr := prm.Type().Underlying().(*types.Pointer); isPtr {
				ev = prm
			}
		}
		if ev == nil {
			r.Fail("C20-ACCEPT-TRUTH: wasAccepted has no evicted-entry parameter")
		} else {
			// keep only the edges on which evicted == nil is possible: cut the edges where it is known non-nil
			cutNonNil := core.CutWhere(func(cond ssa.Value) int {
				x, isEq, ok := core.NilCheck(cond)
				if !ok || core.Through(x) != ev {
					return 0
				}
				if isEq {
					return -1 // non-nil is known on the false edge of `evicted == nil`
				}
				return 1
			})
			reached := core.Reach(wa, nil, cutNonNil, nil)
			pe := &core.PathEval{Reached: reached, Cut: cutNonNil}
			okAll := core.GuardEdges(wa, cutNonNil) > 0
			for _, ret := range core.Returns(wa) {
				if !reached[ret] {
					continue
				}
				for _, v := range core.ReturnValues(ret, 0) {
					if !pe.AlwaysBool(v, true) {
						okAll = false
					}
				}
			}
			r.Check(okAll, "C20-ACCEPT-TRUTH", core.FnName(wa), p.Pos(wa.Pos()), "with no eviction the put is reported as accepted",
				"wasAccepted can report 'not accepted' although nothing was evicted: a responder that overwrote a key it already held (Update returns (nil, false)) denies having stored the value, DHTPut under-counts and fails although enough nodes hold it")
		}
	}

	// ---- C20-PUT-RESULT (after seed C20-s7): wasAccepted reads "nothing evicted" as "stored". That is only right if
	// the cache reports a refusal some other way. Cache.Put is therefore a pure delegation to Cache.Update (no result
	// fabricated in front of it), and Update returns the constant (nil, false) — indistinguishable from an overwrite —
	// only on its two audited refusal edges: max == 0 (a node without a data cache) and evict() == nil (every bucket
	// at its minimum; unreachable for the data cache, which is built with minPerBucket 0 — checked below).
	r.Rule("C20-PUT-RESULT", "Cache.Put passes Update's results through; Update fabricates (nil,false) only on the audited refusal edges; the data cache has minPerBucket 0", 4)
	{
		put := needFn(r, "p/kademlia", "Cache.Put")
		upd := needFn(r, "p/kademlia", "Cache.Update")
		evictFn := needFn(r, "p/kademlia", "Cache.evict")
		newCache := needFn(r, "p/kademlia", "NewCache")
		if put != nil && upd != nil && evictFn != nil && newCache != nil {
			r.Analysed(put)
			r.Analysed(upd)
			calls := core.CallsToFn(put, upd)
			okPut := len(calls) == 1
			for _, ret := range core.Returns(put) {
				for i := 0; i < 2 && okPut; i++ {
					for _, v := range core.ReturnValues(ret, i) {
						ex, isE := v.(*ssa.Extract)
						if !isE || ex.Index != i || len(calls) != 1 || ex.Tuple != calls[0].Value() {
							okPut = false
						}
					}
				}
			}
			r.Check(okPut, "C20-PUT-RESULT", core.FnName(put), p.Pos(put.Pos()), "every return passes the results of the one Update call through",
				"Cache.Put can return a result that does not come from Update: a refusal fabricated here as (nil, false) is read by wasAccepted as 'stored', the responder answers Accepted for a value it does not hold and DHTPut over-counts")
			for _, ret := range core.Returns(upd) {
				if len(ret.Results) != 2 {
					continue
				}
				if upd.Recover != nil && ret.Block() == upd.Recover {
					continue
				}
				allConst := func(vs []ssa.Value, want func(*ssa.Const) bool) bool {
					for _, v := range vs {
						c, isC := v.(*ssa.Const)
						if !isC || !want(c) {
							return false
						}
					}
					return len(vs) > 0
				}
				if !allConst(core.ReturnValues(ret, 0), func(c *ssa.Const) bool { return c.IsNil() }) ||
					!allConst(core.ReturnValues(ret, 1), func(c *ssa.Const) bool { return c.Value != nil && c.Value.Kind() == constant.Bool && !constant.BoolVal(c.Value) }) {
					continue
				}
				why := ""
				for b := ret.Block(); b != nil && why == ""; b = b.Idom() {
					if b == ret.Block() {
						continue
					}
					iff, isIf := b.Instrs[len(b.Instrs)-1].(*ssa.If)
					if !isIf {
						continue
					}
					if bo, isB := iff.Cond.(*ssa.BinOp); isB && bo.Op == token.EQL {
						if f, _ := core.FieldRead(core.Through(bo.X)); f != nil && f.Name() == "max" {
							if k, isK := core.ConstInt(bo.Y); isK && k == 0 && b.Succs[0].Dominates(ret.Block()) {
								why = "max == 0: the cache stores nothing"
							}
						}
					}
					if x, isEq, ok := core.NilCheck(iff.Cond); ok {
						fromEvict := false
						for _, rv := range core.ReachingValues(core.Through(x)) {
							if c, isC := core.Through(rv).(*ssa.Call); isC {
								if sc := core.StaticCallee(c.Common()); sc != nil && (sc == evictFn || (sc.Origin() != nil && sc.Origin() == evictFn) || (evictFn.Origin() != nil && sc.Origin() == evictFn.Origin())) {
									fromEvict = true
								}
							}
						}
						if fromEvict {
							t := b.Succs[0]
							if !isEq {
								t = b.Succs[1]
							}
							if t.Dominates(ret.Block()) {
								why = "evict() == nil: every bucket at its minimum"
							}
						}
					}
				}
				r.Check(why != "", "C20-PUT-RESULT", core.FnName(upd)+" return (nil,false)", p.Pos(ret.Pos()), "audited refusal edge: "+why,
					"Cache.Update returns the constant (nil, false) on an edge that is not one of the audited refusals: wasAccepted reads it as 'stored'")
			}
			// the data cache cannot take the evict()==nil refusal: minPerBucket is the constant 0 where DHTNode builds it
			nData := 0
			for _, fn := range p.ModFuncs {
				for _, ci := range core.Calls(fn, func(ci ssa.CallInstruction) bool {
					c := core.StaticCallee(ci.Common())
					return c != nil && (c == newCache || c.Origin() == newCache || (newCache.Origin() != nil && c.Origin() == newCache.Origin()))
				}) {
					// the call whose result is stored into a field named data
					isData := false
					for _, ref := range *ci.Value().Referrers() {
						if u, isU := ref.(*ssa.UnOp); isU && u.Op == token.MUL {
							for _, r2 := range *u.Referrers() {
								if st, isSt := r2.(*ssa.Store); isSt {
									if f, _ := core.FieldOfAddr(st.Addr); f != nil && f.Name() == "data" {
										isData = true
									}
								}
							}
						}
					}
					if !isData {
						continue
					}
					nData++
					k, isK := core.ConstInt(ci.Common().Args[2])
					r.Check(isK && k == 0, "C20-PUT-RESULT", core.FnName(fn)+" NewCache(data)", p.Pos(ci.Pos()), "minPerBucket is the constant 0: evict() finds a victim whenever the cache is over capacity",
						"the data cache is built with a per-bucket minimum: Update can refuse a new value as (nil, false) and the responder still answers Accepted")
				}
			}
			if nData == 0 {
				r.Fail("C20-PUT-RESULT: the NewCache call that builds DHTNode.data was not found (anchor stale)")
			}
		}
	}

	// ---- C20-TRUTH
	r.Rule("C20-TRUTH", "results and errors of the iterative operations are guarded by the conditions they report", 8)
	fieldCmp := func(op token.Token, xName, yName string) func(ssa.Value) bool {
		return func(cond ssa.Value) bool {
			b, ok := cond.(*ssa.BinOp)
			if !ok || b.Op != op {
				return false
			}
			fx, _ := core.FieldRead(core.Through(b.X))
			fy, _ := core.FieldRead(core.Through(b.Y))
			return fx != nil && fy != nil && fx.Name() == xName && fy.Name() == yName
		}
	}
	errIff := func(fn *ssa.Function, cond func(ssa.Value) bool, what string) {
		// the returned error is non-nil on the edge where cond holds and nil otherwise
		nn := core.NewNonNil(p)
		okT, okF := false, false
		for _, ret := range core.Returns(fn) {
			ei := len(ret.Results) - 1
			cutF := condCut(cond, false) // remove edges where cond is false: what remains is "cond holds"
			cutT := condCut(cond, true)
			if core.GuardEdges(fn, cutT) == 0 {
				continue
			}
			reachedHold := core.Reach(fn, nil, cutF, nil)
			peHold := &core.PathEval{Reached: reachedHold, Cut: cutF}
			lv := peHold.Leaves(ret.Results[ei])
			okT = len(lv) > 0
			for _, v := range lv {
				if !nn.At(v, nil) {
					okT = false
				}
			}
			reachedNot := core.Reach(fn, nil, cutT, nil)
			peNot := &core.PathEval{Reached: reachedNot, Cut: cutT}
			lv2 := peNot.Leaves(ret.Results[ei])
			okF = len(lv2) > 0
			for _, v := range lv2 {
				if !core.IsNilConst(v) {
					okF = false
				}
			}
		}
		r.Check(okT && okF, "C20-TRUTH", core.FnName(fn)+" error iff "+what, p.Pos(fn.Pos()), "the error is non-nil exactly on the edge '"+what+"'", "the returned error does not correspond to '"+what+"': success can be reported for a failed operation or vice versa")
	}
	errIff(put, fieldCmp(token.LSS, "Accepted", "MinAccepted"), "accepted < min")
	errIff(find, func(cond ssa.Value) bool {
		b, ok := cond.(*ssa.BinOp)
		if !ok || b.Op != token.NEQ {
			return false
		}
		fx, _ := core.FieldRead(core.Through(b.X))
		fy, _ := core.FieldRead(core.Through(b.Y))
		return fx != nil && fy != nil && fx.Name() == "Closest" && fy.Name() == "Target"
	}, "closest != target")
	errIff(get, func(cond ssa.Value) bool {
		c, ok := cond.(*ssa.Call)
		if !ok || c.Call.StaticCallee() == nil || c.Call.StaticCallee().Name() != "IsZero" {
			return false
		}
		f, _ := core.FieldRead(core.Through(c.Call.Args[0]))
		if f == nil {
			// value receiver: argument is a load of &res.From
			if u, ok := c.Call.Args[0].(*ssa.UnOp); ok {
				f, _ = core.FieldOfAddr(u.X)
			}
		}
		return f != nil && f.Name() == "From"
	}, "no value found")
	// DHTPut: Accepted incremented only under resp.Accepted
	if len(put.AnonFuncs) == 1 {
		lit := put.AnonFuncs[0]
		r.Analysed(lit)
		n := 0
		for _, in := range core.AllInstrs(lit) {
			st, ok := in.(*ssa.Store)
			if !ok {
				continue
			}
			f, _ := core.FieldOfAddr(st.Addr)
			if f == nil || f.Name() != "Accepted" || !isNamedType(f, "DHTPutResult") {
				continue
			}
			n++
			cut := core.CutWhere(func(cond ssa.Value) int {
				f2, base := core.FieldRead(cond)
				if f2 == nil || f2.Name() != "Accepted" {
					return 0
				}
				if core.DerivesFromDirect(base, func(x ssa.Value) bool {
					c, idx, ok := core.CallResult(x)
					return ok && idx == 0 && core.IsParamFuncCallThrough(c.Common())
				}) {
					return 1
				}
				return 0
			})
			r.Check(core.GuardEdges(lit, cut) > 0 && core.GuardedFromEntry(lit, st, cut), "C20-TRUTH", core.FnName(lit)+" count acceptance", p.Pos(st.Pos()), "the accepted count grows only when the response says accepted", "the accepted count grows for a response that did not accept")
		}
		if n == 0 {
			r.Fail("C20-TRUTH: no store to DHTPutResult.Accepted found")
		}
	} else {
		r.Fail("C20-TRUTH: DHTPut literal not found")
	}
	// DHTGet: Value/From stored only under validated non-nil value from this response
	if len(get.AnonFuncs) >= 1 {
		var lit *ssa.Function
		for _, a := range get.AnonFuncs {
			if a.Signature.Params().Len() == 1 && a.Signature.Results().Len() == 2 {
				lit = a
			}
		}
		if lit == nil {
			r.Fail("C20-TRUTH: DHTGet iteration literal not found")
		} else {
			r.Analysed(lit)
			isValidate := func(c *ssa.CallCommon) bool {
				if c.IsInvoke() {
					return false
				}
				f, _ := core.FieldRead(core.Through(c.Value))
				return f != nil && f.Name() == "Validate"
			}
			cutV := core.CutWhere(core.BoolCallGuard(isValidate, true))
			for _, in := range core.AllInstrs(lit) {
				st, ok := in.(*ssa.Store)
				if !ok {
					continue
				}
				f, _ := core.FieldOfAddr(st.Addr)
				if f == nil || !isNamedType(f, "DHTGetResult") || (f.Name() != "Value" && f.Name() != "From") {
					continue
				}
				okG := core.GuardEdges(lit, cutV) > 0 && core.GuardedFromEntry(lit, st, cutV)
				r.Check(okG, "C20-TRUTH", core.FnName(lit)+" store "+f.Name(), p.Pos(st.Pos()), "recorded only after the value passed validation", "a value (or its source) is recorded without passing validation")
				var okO bool
				if f.Name() == "Value" {
					okO = core.DerivesFromDirect(st.Val, func(x ssa.Value) bool {
						c, idx, ok := core.CallResult(x)
						return ok && idx == 0 && core.IsParamFuncCallThrough(c.Common())
					})
				} else {
					okO = core.DerivesFromDirect(st.Val, func(x ssa.Value) bool { return x == ssa.Value(lit.Params[0]) })
				}
				r.Check(okO, "C20-TRUTH", core.FnName(lit)+" origin "+f.Name(), p.Pos(st.Pos()), "the recorded value comes from this node's response, the source is this node", "the recorded value/source does not come from the node that was asked")
			}
			// the validated value is the response's value
			for _, ci := range core.Calls(lit, func(ci ssa.CallInstruction) bool { return isValidate(ci.Common()) }) {
				okA := core.DerivesFromDirect(ci.Common().Args[0], func(x ssa.Value) bool {
					c, idx, ok := core.CallResult(x)
					return ok && idx == 0 && core.IsParamFuncCallThrough(c.Common())
				})
				r.Check(okA, "C20-TRUTH", core.FnName(lit)+" validated value", p.Pos(ci.Pos()), "validation is applied to the response's value", "validation is applied to something other than the response's value")
			}
		}
	}
	// HandleFindNode caps the list
	for _, ci := range core.CallsToFn(hfn, lni) {
		arg := ci.Common().Args[2]
		r.Check(boundedAbove(arg, 10), "C20-TRUTH", core.FnName(hfn)+" limit", p.Pos(ci.Pos()), "the number of nodes returned is capped at 10", "a requester can make the node return an arbitrarily long peer list")
	}
}

func isNamedType(f *types.Var, structName string) bool {
	// f is a field; find the struct that declares it in its package scope
	if f.Pkg() == nil {
		return false
	}
	tn, _ := f.Pkg().Scope().Lookup(structName).(*types.TypeName)
	if tn == nil {
		return false
	}
	st, _ := tn.Type().Underlying().(*types.Struct)
	if st == nil {
		return false
	}
	for i := 0; i < st.NumFields(); i++ {
		if st.Field(i) == f.Origin() {
			return true
		}
	}
	return false
}

// boundedAbove: v <= k on every path: a constant <= k, or a phi whose edges are
// such constants or arrive over the false edge of `x > k` / true edge of `x <= k`.
func boundedAbove(v ssa.Value, k int64) bool {
	if c, ok := core.ConstInt(v); ok {
		return c <= k
	}
	ph, ok := v.(*ssa.Phi)
	if !ok {
		return false
	}
	for i, e := range ph.Edges {
		if c, ok := core.ConstInt(e); ok {
			if c > k {
				return false
			}
			continue
		}
		pred := ph.Block().Preds[i]
		iff, ok := pred.Instrs[len(pred.Instrs)-1].(*ssa.If)
		if !ok {
			return false
		}
		b, ok := iff.Cond.(*ssa.BinOp)
		if !ok || b.X != e {
			return false
		}
		kk, isK := core.ConstInt(b.Y)
		if !isK || kk > k {
			return false
		}
		// edge index from pred to the phi's block
		idx := 0
		for j, s := range pred.Succs {
			if s == ph.Block() {
				idx = j
			}
		}
		switch {
		case b.Op == token.GTR && idx == 1:
		case b.Op == token.LEQ && idx == 0:
		default:
			return false
		}
	}
	return true
}

// sameCellValue: addr is (an address inside) the local cell whose load is v.
func sameCellValue(addr ssa.Value, v ssa.Value) bool {
	u, ok := v.(*ssa.UnOp)
	if !ok || u.Op != token.MUL {
		return false
	}
	for i := 0; i < 4; i++ {
		if addr == u.X {
			return true
		}
		switch x := addr.(type) {
		case *ssa.FieldAddr:
			addr = x.X
		case *ssa.IndexAddr:
			addr = x.X
		default:
			return false
		}
	}
	return false
}
