package rules

import (
	"fmt"
	"go/constant"
	"go/token"
	"go/types"
	"sort"
	"strings"

	"golang.org/x/tools/go/ssa"

	"p2pverif/core"
)

func init() { All["C08"] = c08 }

// packet-facing entry points: functions that are handed bytes, address text or
// key encodings originating from a remote party.
var c08Entries = [][2]string{
	{"s/fragswarm", "swarm.handleTell"},
	{"p/mbapp", "Swarm.handleMessage"},
	{"p/p2pmux", "muxCore.handleRecv"}, {"p/p2pmux", "muxCore.serveLoop"},
	{"p/p2pmux", "stringDemuxFunc"}, {"p/p2pmux", "varintDemuxFunc"}, {"p/p2pmux", "uint16DemuxFunc"}, {"p/p2pmux", "uint32DemuxFunc"}, {"p/p2pmux", "uint64DemuxFunc"},
	{"p/p2pke", "Session.Deliver"}, {"p/p2pke", "Channel.Deliver"},
	{"p/p2pke", "ParseMessage"}, {"p/p2pke", "IsInitHello"}, {"p/p2pke", "IsRespHello"}, {"p/p2pke", "IsHello"}, {"p/p2pke", "IsPostHandshake"}, {"p/p2pke", "PrettyPrint"},
	{"s/p2pkeswarm", "Swarm.handleMessage"},
	{"s/quicswarm", "readFrame"}, {"s/quicswarm", "Swarm.handleAsk"}, {"s/quicswarm", "Swarm.handleTells"}, {"s/quicswarm", "Swarm.remoteAddrFromSession"}, {"s/quicswarm", "Swarm.LookupPublicKey"},
	{"s/sshswarm", "Conn.loop"},
	{"f/x509", "ParsePublicKey"}, {"f/x509", "ParsePrivateKey"}, {"f/x509", "Registry.ParseVerifier"}, {"f/x509", "Registry.LoadVerifier"},
	{"", "PeerID.UnmarshalText"},
	{"s/udpswarm", "ParseAddr"}, {"s/udpswarm", "Addr.UnmarshalText"}, {"s/sshswarm", "ParseAddr"}, {"s/memswarm", "ParseAddr"},
	{"s/multiswarm", "AddrSchema.ParseAddr"}, {"s/quicswarm", "ParseAddr"}, {"s/p2pkeswarm", "ParseAddr"},
	{"p/kademlia", "DHTNode.HandlePut"}, {"p/kademlia", "DHTNode.HandleGet"}, {"p/kademlia", "DHTNode.HandleFindNode"}, {"p/kademlia", "DHTNode.AddPeer"},
	{"s/udpswarm", "Swarm.Receive"},
	{"p2pconn", "packetConn.ReadFrom"},
	{"s/multiswarm", "multiSwarm.recvLoops"}, {"s/multiswarm", "multiAsker.serveLoops"},
	{"s/wlswarm", "swarm.Receive"}, {"s/wlswarm", "asker.ServeAsk"},
	{"s/mapswarm", "swarm.Receive"},
}

type panicSite struct {
	fn   *ssa.Function
	in   ssa.Instruction
	kind string
	desc string
}

func c08sites(fn *ssa.Function) []panicSite {
	var out []panicSite
	for _, in := range core.AllInstrs(fn) {
		switch x := in.(type) {
		case *ssa.IndexAddr:
			out = append(out, panicSite{fn, in, "index", "index " + typeKind(x.X.Type())})
		case *ssa.Index:
			out = append(out, panicSite{fn, in, "index", "index " + typeKind(x.X.Type())})
		case *ssa.Lookup:
			if _, isMap := x.X.Type().Underlying().(*types.Map); !isMap {
				out = append(out, panicSite{fn, in, "index", "index string"})
			}
		case *ssa.Slice:
			out = append(out, panicSite{fn, in, "slice", "slice " + typeKind(x.X.Type())})
		case *ssa.Panic:
			if core.IsSelectNoCasePanic(x) {
				continue
			}
			out = append(out, panicSite{fn, in, "panic", "explicit panic"})
		case *ssa.TypeAssert:
			if !x.CommaOk {
				out = append(out, panicSite{fn, in, "assert", "type assertion without comma-ok to " + x.AssertedType.String()})
			}
		case *ssa.BinOp:
			if x.Op == token.QUO || x.Op == token.REM {
				if b, ok := x.X.Type().Underlying().(*types.Basic); ok && b.Info()&types.IsInteger != 0 {
					if _, isK := core.ConstInt(x.Y); !isK {
						out = append(out, panicSite{fn, in, "div", "integer division by a variable"})
					}
				}
			}
		case *ssa.MakeSlice:
			_, lenK := core.ConstInt(x.Len)
			_, capK := core.ConstInt(x.Cap)
			if !lenK || !capK {
				out = append(out, panicSite{fn, in, "make", "make with variable length or capacity"})
			}
		case *ssa.SliceToArrayPointer:
			out = append(out, panicSite{fn, in, "slice", "slice to array pointer"})
		}
	}
	return out
}

func typeKind(t types.Type) string {
	if p, ok := t.Underlying().(*types.Pointer); ok {
		t = p.Elem()
	}
	switch t.Underlying().(type) {
	case *types.Slice:
		return "slice"
	case *types.Array:
		return "array"
	case *types.Basic:
		return "string"
	}
	return "other"
}

// audited sites: function | kind -> (number of such sites audited, reason).
// Each entry is a site whose safety rests on an invariant the prover cannot
// see; the reason names the invariant. A function that grows more sites of the
// kind than were audited is reported.
type auditEntry struct {
	n      int
	reason string
}

var c08Audit = map[string]auditEntry{
	// --- p2pke: failures of local key material / constant configuration, not of input
	"(*p2p/p/p2pke.Channel).Deliver$1|panic": {1, "panic(i) when a session in slot 0/1 becomes ready: slots 0 and 1 only ever hold sessions that were ready when promoted (onReadySession/expireSessions are the only writers) and readiness is monotone (C06 INV-MONOTONE)"},
	"(*p2p/p/p2pke.privateKey).Public|panic": {1, "PublicFromPrivate of the LOCAL private key, validated when the swarm/channel was constructed"},
	"p2p/p/p2pke.NewSession|panic":           {1, "noise.NewHandshakeState with the constant NN/25519/ChaChaPoly/BLAKE2b configuration cannot fail"},
	"p2p/p/p2pke.PrettyPrint|panic":          {1, "json.MarshalIndent of the parsed InitHello (plain byte-slice fields) cannot fail; debugging helper"},
	"p2p/p/p2pke.createPreSig|panic":         {1, "blake2b.NewXOF(64, nil) with a constant size cannot fail"},
	"p2p/p/p2pke.makeChannelAuthClaim|panic": {1, "signing with the local private key"},
	"p2p/p/p2pke.makeTAI64NAuthClaim|panic":  {1, "signing with the local private key"},
	"p2p/p/p2pke.marshal|panic":              {1, "proto.Marshal of locally built messages whose fields are byte slices cannot fail"},
	"p2p/p/p2pke.readInitHello|panic":        {1, "hs.WriteMessage of the fixed-size RespHello fails only on handshake misuse (wrong turn), excluded by the hsIndex state machine"},
	"p2p/p/p2pke.readRespHello|panic":        {1, "unreachable: err was checked and returned just above (dead check of a stale variable)"},
	"p2p/p/p2pke.writeInitHello|panic":       {1, "hs.WriteMessage of the locally built InitHello on a fresh initiator handshake"},
	// --- mbapp bitmap: constructor invariant
	"(p2p/p/mbapp.bitMap).get|index": {1, "buf has ceil(n/8) bytes (newBitMap) and 0 <= i < n at every caller (partIndex from a uint16, checked against partCount; allSet's loop index)"},
	"(p2p/p/mbapp.bitMap).set|index": {4, "same as get"},
	// --- local handler contract, not network input
	"(*p2p/p/mbapp.Swarm[A, Pub]).handleAskRequest|slice": {1, "bufLen is the LOCAL ask handler's return value, which by the AskHandler contract is at most len(resp); extractErrorCode maps negatives to 0"},
	"(*p2p/s/quicswarm.Swarm[T]).handleAsk|slice":         {1, "respBuf[:n]: n is the local ask handler's return value (<= len(resp) by contract), negatives return earlier; reqData[:n] is proved from readFrame's summary"},
	"(*p2p/s/sshswarm.Conn).loop|slice":                   {1, "resp[:n]: n is the local ask handler's return value, negatives are replaced by 0"},
	"(*p2p/p/mbapp.Swarm[A, Pub]).handleAskRequest|make":  {1, "s.mtu is a construction parameter; a negative MTU is a configuration error, not input"},
	"(*p2p/s/quicswarm.Swarm[T]).handleAsk|make":          {2, "s.mtu is a construction parameter"},
	"(*p2p/p/mbapp.Swarm[A, Pub]).send|div":               {1, "partSize = inner MTU - HeaderSize; an inner MTU <= 24 is a configuration error, not input"},
	"(*p2p/p/mbapp.Swarm[A, Pub]).send$1|slice":           {1, "send path: start = i*partSize with i < partCount = ceil(len(whole)/partSize), end clipped to len(whole)"},
	"p2p/p/mbapp.lastEvenEpoch|div":                       {1, "period = units << 31 with units = time.Millisecond at the module's only call site (handleMessage)"},
	"p2p/p/mbapp.lastOddEpoch|div":                        {2, "same period"},
	// --- fragswarm header parse: three-term arithmetic
	"p2p/s/fragswarm.parseMessage$1|slice": {1, "x[n:]: n accumulates Uvarint consumption, each n2 <= len(x[n:]) = len(x) - n, so n + n2 <= len(x) (needs a three-variable invariant the difference-bound prover cannot express)"},
	"p2p/s/fragswarm.parseMessage|slice":   {1, "x[n:] after the same loop: n <= len(x)"},
	// --- keys of addresses produced by the inner swarm itself
	"p2p/s/fragswarm.keyForAddr|panic":              {1, "MarshalText of an address the inner swarm itself produced; module address types never return an error"},
	"(*p2p/s/p2pkeswarm.Swarm[T]).keyForAddr|panic": {1, "same"},
	// --- kademlia internal invariants
	"(*p2p/p/kademlia.bucket[V]).update|panic": {1, "the update closures of Cache.Put and DHTNode.AddPeer set (or keep) Key == key"},
	// --- queue: equal capacities
	// --- oids: callers iterate i < Len()
	"(p2p/f/x509/oids.OID).At|slice": {1, "every module caller iterates i < oid.Len() = len(s)/8 (ASN1, String)"},
	// --- TLS / net library facts
	"(*p2p/s/quicswarm.Swarm[T]).LookupPublicKey$1|index":      {1, "sessions enter the cache only after remoteAddrFromSession verified len(PeerCertificates) >= 1 (both putSession call sites)"},
	"p2p/s/swarmutil.GenerateSelfSigned|panic":                 {2, "certificate generation with the local signer"},
	"p2p/s/udpswarm.FromNetAddr|panic":                         {1, "the IP of a net.UDPAddr returned by ReadFromUDP / LocalAddr has 4 or 16 bytes"},
	"(*p2p/s/udpswarm.Swarm).Receive|assert":                   {1, "LocalAddr of a *net.UDPConn is a *net.UDPAddr"},
	"(*p2p/s/quicswarm.Swarm[T]).makeLocalAddr|assert":         {1, "quic connections run over the swarm's own packetConn, whose addresses are p2pconn.Addr[T]"},
	"(*p2p/s/quicswarm.Swarm[T]).remoteAddrFromSession|assert": {1, "same"},
	"(*p2p/p/p2pmux.muxCore[A, C, Pub]).getSwarm|assert":       {1, "mc.swarms only ever stores *muxedSwarm (open is the only writer)"},
	"p2p/f/x509.NewCodec$2|assert":                             {1, "codec closures are applied to verifiers created by the same codec (StoreVerifier path, local keys)"},
	"p2p/f/x509.NewCodec$4|assert":                             {1, "same, signers"},
}

// c08AuditPanicMsg: explicit panics that carry a constant message are audited by that message, wherever the
// statement sits (moving it into a helper does not change what it asserts). message -> reason.
var c08AuditPanicMsg = map[string]string{
	"queue is full, but freelist gave us a message": "'queue is full but freelist gave us a message': queue and freelist have the same capacity and every message is in exactly one of them or held by one receiver, so a message taken from the freelist always fits the queue",
	"writeHandshake without init":                   "msgCache[k] is filled in the transition that enters the state which emits it (C06 INV-PURE-GETTER checks this on the extracted state machine)",
	"writeHandshake called before readHandshake":    "msgCache[k] is filled in the transition that enters the state which emits it (C06 INV-PURE-GETTER checks this on the extracted state machine)",
	"Send must be set":                              "nil Send/AcceptKey are constructor misuse; p2pkeswarm always sets both",
	"AcceptKey must be set":                         "nil Send/AcceptKey are constructor misuse; p2pkeswarm always sets both",
	"bitMap: index out of bounds":                   "collector.addPart rejects partIndex >= partCount before get/set and the bitmap was made for partCount; allSet loops i < len()",
	"evict from bucket with len=0":                  "Cache.evict only picks a bucket with len() > minPerBucket >= 0",
}

func c08(r *core.Report) {
	p := r.P
	r.Explanation = "Panic-site obligations over everything statically reachable from the packet-facing entry points (table of functions that are handed bytes, address text or key encodings from a remote party; a function with a packet-handler signature that is missing from the table fails the check). In every reachable module function each index, slice, explicit panic, unchecked type assertion, integer division by a variable, make with a variable length and dereference of a possibly-nil module result is enumerated and must be discharged by (a) the difference-bound prover (facts from dominating branch conditions, value definitions, unsigned types, library contracts such as Uvarint's n <= len and copy's result, no fact carried across a non-value-preserving conversion), (b) a length-invariant type whose producers are proved module-wide (mbapp.Header >= 24 bytes, p2pke.Message >= 4 bytes), or (c) an audited table entry with its reason; anything else is a violation naming the site. Out of scope: nil map writes, out-of-memory, stack exhaustion, panics inside dependencies beyond the listed contracts, 32-bit int in the quick tier."
	r.Assumptions = []string{"no overflow in index arithmetic on 64-bit int", "library contracts: binary.Uvarint returns n <= len(buf); copy/io.ReadFull return at most len; noise Cipher.Encrypt and HandshakeState.WriteMessage append to their first buffer; asn1/proto/regexp/netip/fmt.Sscan do not panic on any input", "a struct field that no function writes between two loads has the same value at both"}
	r.Trusted = []string{"go/types, go/ssa (x/tools v0.29.0)", "the listed library contracts"}
	bd := core.NewBounds(p)
	for _, inv := range []struct {
		rel, name string
		k         int64
	}{{"p/mbapp", "Header", 24}, {"p/p2pke", "Message", 4}} {
		if n := needNamed(r, inv.rel, inv.name); n != nil {
			bd.LenInvariant[n.Obj()] = inv.k
		}
	}
	if hs, ok := p.Object(core.ModPath+"/p/mbapp", "HeaderSize").(*types.Const); ok {
		if v, exact := constantInt(hs); exact && v != 24 {
			r.Fail("mbapp.HeaderSize is %d, the Header length invariant assumes 24", v)
		}
	}
	bd.MinFuncs = map[*ssa.Function]string{}
	for _, m := range [][2]string{{"p/kademlia", "min"}, {"s/p2pkeswarm", "min"}} {
		if f := needFn(r, m[0], m[1]); f != nil {
			bd.MinFuncs[f] = "audited contract: returns the smallest of its variadic arguments (loop keeps ret = x whenever x < ret, starting from the first element)"
		}
	}
	var roots []*ssa.Function
	for _, e := range c08Entries {
		if f := needFn(r, e[0], e[1]); f != nil {
			roots = append(roots, f)
		}
	}
	if len(r.Failures) > 0 {
		return
	}
	// completeness of the entry table: every module function that is handed a
	// p2p.Message (a receive/ask callback or handler) is an entry point too
	msgT := p.Named("", "Message")
	inRoots := map[*ssa.Function]bool{}
	for _, f := range roots {
		inRoots[f] = true
	}
	extra := 0
	for _, f := range p.ModFuncs {
		if inRoots[f] || strings.Contains(f.String(), "swarmtest") || strings.Contains(f.String(), "p2ptest") {
			continue
		}
		for _, prm := range f.Params {
			if msgT != nil && isNamed(prm.Type(), msgT) {
				roots = append(roots, f)
				inRoots[f] = true
				extra++
				break
			}
		}
	}
	r.Extra["entry_points_from_signature"] = extra
	reach := p.ReachableFuncs(roots, nil)
	var fns []*ssa.Function
	for f := range reach {
		if p.InModule(f) && f.Blocks != nil {
			fns = append(fns, f)
		}
	}
	sort.Slice(fns, func(i, j int) bool { return fns[i].String() < fns[j].String() })
	r.Extra["entry_points"] = len(roots)
	r.Extra["reachable_functions"] = len(fns)

	r.Rule("C08-BOUNDS", "every index and slice expression reachable from packet input is within bounds", 100)
	r.Rule("C08-PANIC", "no explicit panic reachable from packet input (audited exceptions name their invariant)", 5)
	r.Rule("C08-ASSERT", "no unchecked type assertion reachable from packet input", 3)
	r.Rule("C08-ARITH", "no division by a possibly-zero variable, no make with a possibly-negative length", 2)
	usedAudit := map[string]int{}
	usedMsg := map[string]int{}
	audited := func(f *ssa.Function, kind string) (string, bool) {
		k := core.FnName(f) + "|" + kind
		e, ok := c08Audit[k]
		if !ok {
			return "", false
		}
		usedAudit[k]++
		if usedAudit[k] > e.n {
			return "", false
		}
		return e.reason, true
	}
	for _, f := range fns {
		r.Analysed(f)
		for _, s := range c08sites(f) {
			pos := p.Pos(s.in.Pos())
			c := fmt.Sprintf("%s %s", core.FnName(f), s.desc)
			switch s.kind {
			case "index":
				var x, idx ssa.Value
				switch y := s.in.(type) {
				case *ssa.IndexAddr:
					x, idx = y.X, y.Index
				case *ssa.Index:
					x, idx = y.X, y.Index
				case *ssa.Lookup:
					x, idx = y.X, y.Index
				}
				if n, isArr := arrayLenOf(x.Type()); isArr {
					if k, isK := core.ConstInt(idx); isK && k >= 0 && k < n {
						r.Trivial("C08-BOUNDS", c, pos, "constant index into an array")
						continue
					}
				}
				ok, why := bd.ProveIndex(s.in, x, idx)
				if ok {
					r.OK("C08-BOUNDS", c, pos, "0 <= index < len follows from dominating checks and definitions")
				} else if reason, aud := audited(f, s.kind); aud {
					r.OK("C08-BOUNDS", c, pos, "audited: "+reason)
				} else {
					r.Violation("C08-BOUNDS", c, pos, "index may be out of range: "+why+" — a crafted packet reaching this site panics the node")
				}
			case "slice":
				switch y := s.in.(type) {
				case *ssa.Slice:
					if n, isArr := arrayLenOf(y.X.Type()); isArr {
						lo, hi := int64(0), n
						okK := true
						if y.Low != nil {
							lo, okK = core.ConstInt(y.Low)
						}
						if y.High != nil && okK {
							hi, okK = core.ConstInt(y.High)
						}
						if okK && 0 <= lo && lo <= hi && hi <= n {
							r.Trivial("C08-BOUNDS", c, pos, "constant bounds on an array")
							continue
						}
					}
					ok, why := bd.ProveSlice(s.in, y.X, y.Low, y.High, y.Max)
					if ok {
						r.OK("C08-BOUNDS", c, pos, "0 <= low <= high <= len follows from dominating checks and definitions")
					} else if reason, aud := audited(f, s.kind); aud {
						r.OK("C08-BOUNDS", c, pos, "audited: "+reason)
					} else {
						r.Violation("C08-BOUNDS", c, pos, "slice bounds may be out of range: "+why+" — a crafted packet reaching this site panics the node")
					}
				default:
					r.Violation("C08-BOUNDS", c, pos, "slice-to-array conversion with unproven length")
				}
			case "panic":
				if msg, isK := panicMessage(s.in.(*ssa.Panic)); isK && c08AuditPanicMsg[msg] != "" {
					usedMsg[msg]++
					r.OK("C08-PANIC", c+" \""+msg+"\"", pos, "audited by message: "+c08AuditPanicMsg[msg])
				} else if reason, aud := audited(f, s.kind); aud {
					r.OK("C08-PANIC", c, pos, "audited: "+reason)
				} else {
					r.Violation("C08-PANIC", c, pos, "explicit panic reachable from packet-handling code and not in the audited table")
				}
			case "assert":
				if reason, aud := audited(f, s.kind); aud {
					r.OK("C08-ASSERT", c, pos, "audited: "+reason)
				} else {
					r.Violation("C08-ASSERT", c, pos, "type assertion without comma-ok reachable from packet-handling code")
				}
			case "div":
				b := s.in.(*ssa.BinOp)
				if bd.ProveAtLeast(s.in, b.Y, 1) {
					r.OK("C08-ARITH", c, pos, "the divisor is at least 1")
				} else if reason, aud := audited(f, s.kind); aud {
					r.OK("C08-ARITH", c, pos, "audited: "+reason)
				} else {
					r.Violation("C08-ARITH", c, pos, "integer division by a value not known to be non-zero")
				}
			case "make":
				ms := s.in.(*ssa.MakeSlice)
				// makeslice panics unless 0 <= len <= cap
				capOK := ms.Cap == ms.Len
				if !capOK {
					if k, isK := core.ConstInt(ms.Len); isK {
						capOK = bd.ProveAtLeast(s.in, ms.Cap, k)
					} else {
						capOK = bd.ProveDiffAtMost(s.in, ms.Len, ms.Cap, 0)
					}
				}
				if capOK && bd.ProveAtLeast(s.in, ms.Len, 0) {
					r.OK("C08-ARITH", c, pos, "0 <= length <= capacity")
				} else if reason, aud := audited(f, s.kind); aud {
					r.OK("C08-ARITH", c, pos, "audited: "+reason)
				} else {
					r.Violation("C08-ARITH", c, pos, "make with a length or capacity not known to satisfy 0 <= len <= cap: a negative value from a packet panics in makeslice")
				}
			}
		}
	}

	// supporting obligations of audited entries: the guard an audit's reason leans on
	// is itself checked, so deleting it re-opens the site
	r.Rule("C08-AUDIT-SUPPORT", "the guards that audited sites rely on are present", 2)
	if pm := p.Func("s/fragswarm", "parseMessage"); pm != nil && len(pm.AnonFuncs) == 1 {
		lit := pm.AnonFuncs[0]
		okS, n := true, 0
		for _, in := range core.AllInstrs(lit) {
			b, isB := in.(*ssa.BinOp)
			if !isB || b.Op != token.ADD {
				continue
			}
			// n += n2 where n2 is the length returned by Uvarint
			ext, isE := b.Y.(*ssa.Extract)
			if !isE || ext.Index != 1 {
				continue
			}
			if c, isC := ext.Tuple.(*ssa.Call); !isC || core.CalleeName(c.Common()) != "encoding/binary.Uvarint" {
				continue
			}
			n++
			if !bd.ProveAtLeast(in, b.Y, 1) {
				okS = false
			}
		}
		r.Check(okS && n > 0, "C08-AUDIT-SUPPORT", core.FnName(lit)+" n2 >= 1", p.Pos(lit.Pos()), "the consumed length is added only when Uvarint reported at least one byte", "the varint length is accumulated without checking it is positive: a truncated or overflowing varint (n2 <= 0) makes the offset negative and x[n:] panics")
	} else {
		r.Fail("C08-AUDIT-SUPPORT: fragswarm.parseMessage literal not found")
	}
	if ap := p.Func("p/mbapp", "collector.addPart"); ap != nil {
		get, set := p.Func("p/mbapp", "bitMap.get"), p.Func("p/mbapp", "bitMap.set")
		pc := p.Field("p/mbapp", "collector", "partCount")
		cut := core.CutWhere(func(cond ssa.Value) int {
			b, ok := cond.(*ssa.BinOp)
			if !ok || b.X != ssa.Value(ap.Params[1]) {
				return 0
			}
			f, _ := core.FieldRead(b.Y)
			if !core.SameField(f, pc) {
				return 0
			}
			switch b.Op {
			case token.GEQ:
				return -1
			case token.LSS:
				return 1
			}
			return 0
		})
		okS, n := core.GuardEdges(ap, cut) > 0, 0
		for _, in := range core.AllInstrs(ap) {
			c, isC := in.(*ssa.Call)
			if !isC || !(core.IsCallToFn(c.Common(), get) || core.IsCallToFn(c.Common(), set)) {
				continue
			}
			n++
			if !core.GuardedFromEntry(ap, in, cut) || c.Call.Args[1] != ssa.Value(ap.Params[1]) {
				okS = false
			}
		}
		r.Check(okS && n >= 2, "C08-AUDIT-SUPPORT", core.FnName(ap)+" partIndex < partCount", p.Pos(ap.Pos()), "the bitmap is consulted only after partIndex < partCount was established", "the bitmap is indexed with a part index that was not checked against the part count: bitMap.get/set panic")
	} else {
		r.Fail("C08-AUDIT-SUPPORT: collector.addPart not found")
	}
	for m := range c08AuditPanicMsg {
		if usedMsg[m] == 0 {
			r.Fail("stale audit entry: no reachable panic with the message %q", m)
		}
	}
	for k, e := range c08Audit {
		if usedAudit[k] == 0 {
			r.Fail("stale audit entry %q (%s): the function no longer has such a site or is no longer reachable", k, e.reason)
		}
	}
	r.Extra["audited_sites"] = len(c08Audit)

	// ---- length-invariant producers (module-wide)
	r.Rule("C08-INVARIANT", "every value converted or sliced into a length-invariant type has at least the invariant length", 8)
	for _, f := range p.ModFuncs {
		if strings.Contains(f.String(), "swarmtest") || strings.Contains(f.String(), "p2ptest") {
			continue
		}
		for _, in := range core.AllInstrs(f) {
			v, ok := in.(ssa.Value)
			if !ok {
				continue
			}
			nt, ok := v.Type().(*types.Named)
			if !ok {
				continue
			}
			k, has := bd.LenInvariant[nt.Obj()]
			if !has {
				continue
			}
			var src ssa.Value
			switch y := in.(type) {
			case *ssa.ChangeType:
				if sn, ok := y.X.Type().(*types.Named); ok && sn.Obj() == nt.Obj() {
					continue
				}
				src = y.X
			case *ssa.Convert:
				src = y.X
			case *ssa.MakeSlice:
				src = v
			case *ssa.Slice:
				// a slice of a T is again of type T; it only matters when it is used AS a T
				usedAsT := false
				for _, ref := range *y.Referrers() {
					switch z := ref.(type) {
					case *ssa.DebugRef:
					case *ssa.ChangeType:
						if zn, ok := z.Type().(*types.Named); ok && zn.Obj() == nt.Obj() {
							usedAsT = true
						}
					case *ssa.Slice, *ssa.IndexAddr:
					default:
						usedAsT = true
					}
				}
				if !usedAsT {
					continue
				}
				src = v
			case *ssa.Call:
				if core.IsBuiltin(y.Common(), "append") {
					src = v
				} else {
					continue
				}
			default:
				continue
			}
			c := fmt.Sprintf("%s into %s", core.FnName(f), nt.Obj().Name())
			r.Check(bd.ProveLenAtLeast(in, src, k), "C08-INVARIANT", c, p.Pos(in.Pos()), fmt.Sprintf("the value has at least %d bytes here", k), fmt.Sprintf("a value that may be shorter than %d bytes becomes a %s: its accessors index fixed offsets and panic", k, nt.Obj().Name()))
		}
	}

	// ---- possibly-nil module results
	// ---- C08-SESSION-STATE (typestate, shared with C06-NO-PANIC): a packet is not only bytes but also
	// a handshake message arriving in a state that does not expect it; no Deliver/Send/Handshake
	// transition from a reachable session state panics (a method call on a cipher that is not keyed yet,
	// an index of an unset cached message)
	r.Rule("C08-SESSION-STATE", "no session transition from a reachable state panics, whatever message class arrives", 1)
	if ts := buildTypestate(r); ts != nil {
		if ts.err != nil {
			r.Fail("typestate extraction failed: %v", ts.err)
		} else {
			ts.checkNoPanic("C08-SESSION-STATE")
		}
	}

	// ---- C08-LIB-CONTRACT: dependency calls that panic on a destination too short for the input
	r.Rule("C08-LIB-CONTRACT", "base64 Decode is reached only with text of exactly the destination's encoded length (it indexes past a shorter destination)", 1)
	ruleBase64DecodeFits(r, "C08-LIB-CONTRACT", "text longer than the destination's encoded length reaches base64's Decode, which indexes past the destination: an over-long identity in an address string panics the node")

	r.Rule("C08-NIL", "results of module functions that can return nil are not dereferenced unchecked on packet paths", 1)
	nn := core.NewNonNil(p)
	nilRet := map[*ssa.Function]map[int]bool{}
	for _, f := range p.ModFuncs {
		for _, ret := range core.Returns(f) {
			for i := range ret.Results {
				if _, isPtr := f.Signature.Results().At(i).Type().Underlying().(*types.Pointer); !isPtr {
					continue
				}
				for _, v := range core.ReturnValues(ret, i) {
					if core.IsNilConst(v) {
						// only when some other return of the function is non-nil with a nil error (a nil result paired with an error is the usual contract)
						if nilRet[f] == nil {
							nilRet[f] = map[int]bool{}
						}
						nilRet[f][i] = true
					}
				}
			}
		}
	}
	nNil := 0
	for _, f := range fns {
		for _, in := range core.AllInstrs(f) {
			call, ok := in.(*ssa.Call)
			if !ok {
				continue
			}
			callee := core.StaticCallee(call.Common())
			if callee == nil || nilRet[callee] == nil {
				continue
			}
			// (value, error) results: the nil comes with a non-nil error; the error check guards it
			if errResultIndex2(callee.Signature) >= 0 {
				continue
			}
			for idx := range nilRet[callee] {
				var res ssa.Value = call
				if callee.Signature.Results().Len() > 1 {
					res = nil
					for _, ref := range *call.Referrers() {
						if e, ok := ref.(*ssa.Extract); ok && e.Index == idx {
							res = e
						}
					}
				}
				if res == nil {
					continue
				}
				for _, in2 := range core.AllInstrs(f) {
					var base ssa.Value
					switch x := in2.(type) {
					case *ssa.FieldAddr:
						base = x.X
					case *ssa.UnOp:
						if x.Op == token.MUL {
							base = x.X
						}
					}
					if base == nil {
						continue
					}
					isRes := base == res
					if !isRes {
						if cell := core.CellOf(base); cell != nil {
							for _, r2 := range *cell.Referrers() {
								if st, ok := r2.(*ssa.Store); ok && st.Val == res {
									isRes = true
								}
							}
						}
					}
					if !isRes {
						continue
					}
					nNil++
					c := fmt.Sprintf("%s deref %s()", core.FnName(f), callee.Name())
					r.Check(nn.At(base, in2), "C08-NIL", c, p.Pos(in2.Pos()), "dereferenced only after a nil check", callee.Name()+"() can return nil and its result is dereferenced without a check")
				}
			}
		}
	}
	r.Extra["nil_deref_sites"] = nNil
	_ = strings.Join
}

func arrayLenOf(t types.Type) (int64, bool) {
	if p, ok := t.Underlying().(*types.Pointer); ok {
		t = p.Elem()
	}
	if a, ok := t.Underlying().(*types.Array); ok {
		return a.Len(), true
	}
	return 0, false
}

func constantInt(c *types.Const) (int64, bool) {
	return constant.Int64Val(c.Val())
}

// panicMessage: the constant string a panic statement is raised with.
func panicMessage(pn *ssa.Panic) (string, bool) {
	v := pn.X
	if mi, ok := v.(*ssa.MakeInterface); ok {
		v = mi.X
	}
	k, ok := v.(*ssa.Const)
	if !ok || k.Value == nil || k.Value.Kind() != constant.String {
		return "", false
	}
	return constant.StringVal(k.Value), true
}
