package rules

import (
	"go/token"
	"go/types"
	"strings"

	"golang.org/x/tools/go/ssa"

	"p2pverif/core"
)

func init() { All["C05"] = c05 }

type chanSlots struct {
	ch                                                          *types.Named
	deliver, deliverLit, newResp, onReady, checkKey, setCurrent *ssa.Function
	setNext, propose, getOrInit, onRekey, onHandshake, newInit  *ssa.Function
	sessDeliver, sessIsReady, newSession, verifyAuthClaim       *ssa.Function
	remoteKey, sessions, ready, lastReceived, remoteTS, paramsF *types.Var
	acceptKey, entrySession, rekeyTimer, handshakeTimer         *types.Var
	equalKeys, isZero, timerReset                               *ssa.Function
}

func resolveChan(r *core.Report) *chanSlots {
	c := &chanSlots{}
	c.ch = needNamed(r, "p/p2pke", "Channel")
	c.deliver = needFn(r, "p/p2pke", "Channel.Deliver")
	c.newResp = needFn(r, "p/p2pke", "Channel.newResp")
	c.onReady = needFn(r, "p/p2pke", "Channel.onReadySession")
	c.checkKey = needFn(r, "p/p2pke", "Channel.checkKey")
	c.setCurrent = needFn(r, "p/p2pke", "Channel.setCurrent")
	c.setNext = needFn(r, "p/p2pke", "Channel.setNext")
	c.propose = needFn(r, "p/p2pke", "Channel.proposeNewSession")
	c.getOrInit = needFn(r, "p/p2pke", "Channel.getOrInit")
	c.onRekey = needFn(r, "p/p2pke", "Channel.onRekey")
	c.onHandshake = needFn(r, "p/p2pke", "Channel.onHandshake")
	c.newInit = needFn(r, "p/p2pke", "Channel.newInit")
	c.sessDeliver = needFn(r, "p/p2pke", "Session.Deliver")
	c.sessIsReady = needFn(r, "p/p2pke", "Session.IsReady")
	c.newSession = needFn(r, "p/p2pke", "NewSession")
	c.verifyAuthClaim = needFn(r, "p/p2pke", "verifyAuthClaim")
	c.equalKeys = needFn(r, "f/x509", "EqualPublicKeys")
	c.isZero = needFn(r, "f/x509", "PublicKey.IsZero")
	c.timerReset = needFn(r, "p/p2pke", "Timer.Reset")
	c.remoteKey = needField(r, "p/p2pke", "Channel", "remoteKey")
	c.sessions = needField(r, "p/p2pke", "Channel", "sessions")
	c.ready = needField(r, "p/p2pke", "Channel", "ready")
	c.lastReceived = needField(r, "p/p2pke", "Channel", "lastReceived")
	c.remoteTS = needField(r, "p/p2pke", "Channel", "remoteTimestamp")
	c.paramsF = needField(r, "p/p2pke", "Channel", "params")
	c.acceptKey = needField(r, "p/p2pke", "ChannelConfig", "AcceptKey")
	c.entrySession = needField(r, "p/p2pke", "sessionEntry", "Session")
	c.rekeyTimer = needField(r, "p/p2pke", "Channel", "rekeyTimer")
	c.handshakeTimer = needField(r, "p/p2pke", "Channel", "handshakeTimer")
	if c.deliver != nil && len(c.deliver.AnonFuncs) == 1 {
		c.deliverLit = c.deliver.AnonFuncs[0]
		r.Analysed(c.deliverLit)
	} else if c.deliver != nil {
		r.Fail("unresolved anchor: the function literal of Channel.Deliver")
	}
	return c
}

// keyJudgementCut returns the cut of edges on which the key judgement of fn
// is known to have succeeded, in any of the accepted forms:
//
//	checkKey(k) == nil;  EqualPublicKeys(&c.remoteKey, k) true (reached only
//	under !remoteKey.IsZero());  params.AcceptKey(k) true (reached only under
//	remoteKey.IsZero()).
//
// ok=false when a primitive judgement is present but not under its zero-ness
// precondition.
func (c *chanSlots) keyJudgementCut(fn *ssa.Function) (core.CutFunc, int, bool) {
	isCheckKey := func(cc *ssa.CallCommon) bool { return core.IsCallToFn(cc, c.checkKey) }
	isEqual := func(cc *ssa.CallCommon) bool {
		if !core.IsCallToFn(cc, c.equalKeys) {
			return false
		}
		f, _ := core.FieldOfAddr(cc.Args[0])
		return core.SameField(f, c.remoteKey)
	}
	isAccept := func(cc *ssa.CallCommon) bool {
		if cc.IsInvoke() {
			return false
		}
		f, _ := core.FieldRead(cc.Value)
		return core.SameField(f, c.acceptKey)
	}
	isZeroOfRemote := func(cc *ssa.CallCommon) bool {
		if !core.IsCallToFn(cc, c.isZero) {
			return false
		}
		f, _ := core.FieldOfAddr(cc.Args[0])
		return core.SameField(f, c.remoteKey)
	}
	g1, g2, g3 := core.ErrNilGuard(isCheckKey), core.BoolCallGuard(isEqual, true), core.BoolCallGuard(isAccept, true)
	cut := core.CutWhere(func(cond ssa.Value) int {
		for _, g := range []core.GuardPred{g1, g2, g3} {
			if s := g(cond); s != 0 {
				return s
			}
		}
		return 0
	})
	n := core.GuardEdges(fn, cut)
	// preconditions of the primitive forms
	ok := true
	zeroTrue := core.CutWhere(core.BoolCallGuard(isZeroOfRemote, true))
	zeroFalse := core.CutWhere(core.BoolCallGuard(isZeroOfRemote, false))
	for _, ci := range core.Calls(fn, func(ci ssa.CallInstruction) bool { return isEqual(ci.Common()) }) {
		// Equal must be unreachable once the !IsZero edges are removed
		if core.Reach(fn, nil, zeroFalse, nil)[ci.(ssa.Instruction)] {
			ok = false
		}
	}
	for _, ci := range core.Calls(fn, func(ci ssa.CallInstruction) bool { return isAccept(ci.Common()) }) {
		if core.Reach(fn, nil, zeroTrue, nil)[ci.(ssa.Instruction)] {
			ok = false
		}
	}
	return cut, n, ok
}

func c05(r *core.Report) {
	p := r.P
	r.Explanation = "Static necessary conditions of 'a channel talks only to an accepted key, and to the same key forever': (RESP-CHECK) a responder session is created only after checkKey accepted the key that verifyAuthClaim proved; (CHECKKEY-SHAPE) checkKey returns nil only through 'known key and equal' or 'no known key and AcceptKey said yes'; (PROMOTE-CHECK) promoting the prospective session to current and recording its key are unreachable unless that key passed the judgement (checkKey, or its two primitive forms under their preconditions), whichever side initiated; (NO-DISTURB) the rejecting path touches only the prospective slot; (APP-FROM-PROMOTED) application data is handed out only after the readiness re-check that promotes (and judges) the session it came from; setNext/setCurrent write only their own slots. Simultaneous-open histories are not decided."
	r.Assumptions = []string{"x509.EqualPublicKeys is the intended key equality (its field coverage is rule C17-FIELDS)", "the acceptance predicate is ChannelConfig.AcceptKey"}
	r.Trusted = []string{"go/types, go/ssa (x/tools v0.29.0)"}
	c := resolveChan(r)
	if len(r.Failures) > 0 {
		return
	}

	// ---- C05-RESP-CHECK
	r.Rule("C05-RESP-CHECK", "newResp creates the responder session only after checkKey accepted the proven key", 2)
	{
		fn := c.newResp
		cut := core.CutWhere(core.ErrNilGuard(func(cc *ssa.CallCommon) bool { return core.IsCallToFn(cc, c.checkKey) }))
		for _, ci := range core.CallsToFn(fn, c.newSession) {
			ok := core.GuardEdges(fn, cut) > 0 && core.GuardedFromEntry(fn, ci.(ssa.Instruction), cut)
			r.Check(ok, "C05-RESP-CHECK", core.FnName(fn)+" NewSession", p.Pos(ci.Pos()), "session creation is unreachable unless checkKey returned nil", "a responder session is created for a key that was not judged: a rejected or different key can establish a session")
		}
		for _, ci := range core.CallsToFn(fn, c.checkKey) {
			arg := ci.Common().Args[1]
			ok := core.DerivesFrom(arg, func(x ssa.Value) bool {
				cc, idx, ok := core.CallResult(x)
				return ok && idx == 0 && core.IsCallToFn(cc.Common(), c.verifyAuthClaim)
			})
			r.Check(ok, "C05-RESP-CHECK", core.FnName(fn)+" judged key", p.Pos(ci.Pos()), "the judged key is the one verifyAuthClaim proved", "the key judged is not the key whose signature was verified")
		}
	}

	// ---- C05-CHECKKEY-SHAPE
	r.Rule("C05-CHECKKEY-SHAPE", "checkKey returns nil only via (known ∧ equal) or (unknown ∧ AcceptKey)", 1)
	ruleCheckKeyShape(r, c, "C05-CHECKKEY-SHAPE")
	// ---- C05-KEY-EQUALITY (shared with C17-FIELDS): "same key" is decided by EqualPublicKeys; it must
	// compare every field (algorithm and key bytes) or a different key passes as the pinned one and skips
	// AcceptKey
	r.Rule("C05-KEY-EQUALITY", "EqualPublicKeys touches every field of PublicKey", 1)
	ruleKeyFields(r, "C05-KEY-EQUALITY", true)
	// ---- C05-KEY-WRITERS: "same key forever": the pinned key is written by onReadySession only (there
	// under the judgement, PROMOTE-CHECK): any other store — a reset to zero after an idle expiry, a
	// copy from elsewhere — makes checkKey fall back to AcceptKey and lets a different acceptable key in
	r.Rule("C05-KEY-WRITERS", "Channel.remoteKey is stored only by onReadySession", 1)
	ruleKeyWriters(r, c, "C05-KEY-WRITERS")

	// ---- C05-PROMOTE-CHECK / NO-DISTURB
	r.Rule("C05-PROMOTE-CHECK", "onReadySession promotes and records a key only after the key judgement succeeded", 2)
	r.Rule("C05-NO-DISTURB", "the rejecting path of onReadySession touches only the prospective slot", 1)
	{
		fn := c.onReady
		cut, n, pre := c.keyJudgementCut(fn)
		for _, ci := range core.CallsToFn(fn, c.setCurrent) {
			ok := n > 0 && pre && core.GuardedFromEntry(fn, ci.(ssa.Instruction), cut)
			r.Check(ok, "C05-PROMOTE-CHECK", core.FnName(fn)+" setCurrent", p.Pos(ci.Pos()), "promotion is unreachable unless the prospective key passed the judgement", "a prospective session is promoted to current on a path that never consults the acceptance predicate (first contact as initiator): the channel becomes ready with, and encrypts to, a key AcceptKey rejects")
		}
		for _, st := range core.StoresToField(fn, c.remoteKey) {
			ok := n > 0 && pre && core.GuardedFromEntry(fn, st, cut)
			r.Check(ok, "C05-PROMOTE-CHECK", core.FnName(fn)+" store remoteKey", p.Pos(st.Pos()), "the channel's remote key is recorded only after the judgement", "the channel records a remote key that was never judged")
		}
		// the judged key is the prospective session's
		for _, ci := range core.CallsToFn(fn, c.checkKey) {
			ok := core.DerivesFrom(ci.Common().Args[1], func(x ssa.Value) bool {
				cc, ok := x.(*ssa.Call)
				return ok && cc.Call.StaticCallee() != nil && cc.Call.StaticCallee().Name() == "RemoteKey"
			})
			r.Check(ok, "C05-PROMOTE-CHECK", core.FnName(fn)+" judged key", p.Pos(ci.Pos()), "the judged key is the prospective session's remote key", "the key judged is not the prospective session's")
		}
		// NO-DISTURB: from entry, with the success edges removed, nothing but setNext may write
		reached := core.Reach(fn, nil, cut, nil)
		bad := ""
		for in := range reached {
			switch x := in.(type) {
			case *ssa.Store:
				if f, _ := core.FieldOfAddr(x.Addr); f != nil && isChannelField(c, f) {
					bad = "store to " + f.Name()
				}
				if ia, ok := x.Addr.(*ssa.IndexAddr); ok {
					if f, _ := core.FieldOfAddr(ia.X); core.SameField(f, c.sessions) {
						bad = "store to sessions"
					}
				}
			case ssa.CallInstruction:
				if core.IsCallToFn(x.Common(), c.setCurrent) {
					bad = "setCurrent"
				}
				if core.IsBuiltin(x.Common(), "close") {
					bad = "close(ready)"
				}
			}
		}
		r.Check(n > 0 && bad == "", "C05-NO-DISTURB", core.FnName(fn), p.Pos(fn.Pos()), "when the key is refused only setNext runs: previous/current sessions, remote key and readiness are untouched", "the refusing path disturbs the established session ("+bad+")")
	}
	// REJECT-IS-ERROR: Channel.Deliver stops (and hands out nothing) only because onReadySession
	// reports the refusal as an error
	r.Rule("C05-REJECT-IS-ERROR", "onReadySession returns a provably non-nil error whenever the key judgement did not succeed", 1)
	ruleRejectIsError(r, c, "C05-REJECT-IS-ERROR")
	// REJECT-CLEARS: a refused prospective session must not stay in the prospective slot:
	// it is keyed and ready, and Channel.Deliver would decrypt and hand out its data.
	r.Rule("C05-REJECT-CLEARS", "the refusing path of onReadySession empties the prospective slot on every path", 1)
	{
		fn := c.onReady
		cut, n, _ := c.keyJudgementCut(fn)
		isClear := func(in ssa.Instruction) bool {
			cc, ok := in.(ssa.CallInstruction)
			if !ok || !core.IsCallToFn(cc.Common(), c.setNext) {
				return false
			}
			return isZeroStruct(cc.Common().Args[1])
		}
		reached := core.Reach(fn, nil, cut, isClear)
		ok := n > 0
		for _, ret := range core.Returns(fn) {
			if reached[ret] {
				ok = false
			}
		}
		r.Check(ok, "C05-REJECT-CLEARS", core.FnName(fn), p.Pos(fn.Pos()), "every path on which the key was refused passes setNext(sessionEntry{})", "a refused session can stay in the prospective slot: it is fully keyed and ready, so every later data packet from the refused peer is decrypted and delivered as application data")
	}
	// setNext writes slot 2 only, setCurrent slots 0 and 1 only
	r.Rule("C05-SLOTS", "setNext writes only the prospective slot; setCurrent only previous and current", 2)
	for _, s := range []struct {
		fn      *ssa.Function
		allowed map[int64]bool
	}{{c.setNext, map[int64]bool{2: true}}, {c.setCurrent, map[int64]bool{0: true, 1: true}}} {
		ok := true
		n := 0
		for _, in := range core.AllInstrs(s.fn) {
			st, isSt := in.(*ssa.Store)
			if !isSt {
				continue
			}
			ia, isIA := st.Addr.(*ssa.IndexAddr)
			if !isIA {
				ok = false
				continue
			}
			k, isK := core.ConstInt(ia.Index)
			if !isK || !s.allowed[k] {
				ok = false
			}
			n++
		}
		r.Check(ok && n > 0, "C05-SLOTS", core.FnName(s.fn), p.Pos(s.fn.Pos()), "writes only its own session slots", "writes a session slot it does not own")
	}

	// ---- C05-APP-FROM-PROMOTED
	r.Rule("C05-APP-FROM-PROMOTED", "application data is handed out only after the readiness re-check of the session it came from", 1)
	ruleAppAfterRecheck(r, c, "C05-APP-FROM-PROMOTED")

	// ---- C05-APP-READY (typestate): the re-check above judges the key only on the not-ready -> ready
	// edge, so a session must be ready whenever it returns application data
	r.Rule("C05-NO-HIDDEN-READY", "a session transition that returns an error changes nothing (in particular it does not make the session ready)", 1)
	r.Rule("C05-APP-READY", "every session transition that returns application data ends in a ready state", 2)
	r.Rule("C05-PROVEN-BEFORE-DATA", "every session state that can send or receive application data was reached through the role's signature verification", 4)
	if ts := buildTypestate(r); ts != nil {
		if ts.err != nil {
			r.Fail("typestate extraction failed: %v", ts.err)
		} else {
			ts.checkAppImpliesReady("C05-APP-READY")
			// the channel judges the key only when a delivery SUCCEEDS and leaves the session ready:
			// a transition that makes the session ready and then reports an error hides the ready edge
			ts.checkAtomicFail("C05-NO-HIDDEN-READY")
			// the key the channel judges is the key the peer CLAIMED in its hello; the claim is public and
			// signs only a timestamp. "Only a holder of the accepted key talks" needs every usable state
			// to lie behind the role's proof-of-possession transition (shared with C03-AUTH-PATH)
			ts.checkAuthPath("C05-PROVEN-BEFORE-DATA")
		}
	}
}

func isChannelField(c *chanSlots, f *types.Var) bool {
	for _, x := range []*types.Var{c.remoteKey, c.sessions, c.ready, c.lastReceived, c.remoteTS} {
		if core.SameField(f, x) {
			return true
		}
	}
	return false
}

// appDataStores: stores in the Deliver literal to the captured appData cell.
func appDataStores(c *chanSlots) []*ssa.Store {
	lit := c.deliverLit
	var out []*ssa.Store
	// the literal's result that carries application data is the free variable
	// read back by Channel.Deliver's success return
	var cell *ssa.Alloc
	for _, ret := range core.Returns(c.deliver) {
		if len(ret.Results) == 2 && core.IsNilConst(ret.Results[1]) {
			if a := core.CellOf(ret.Results[0]); a != nil {
				cell = a
			}
		}
	}
	if cell == nil {
		return nil
	}
	for _, in := range core.AllInstrs(lit) {
		if st, ok := in.(*ssa.Store); ok && core.CellOfAddr(st.Addr) == cell {
			out = append(out, st)
		}
	}
	return out
}

// ruleAppAfterRecheck: in the Channel.Deliver literal, from a successful
// Session.Deliver every path to "hand out application data", to a return, or
// to the next loop iteration passes the second IsReady call (the readiness
// re-check), and its ready edge passes onReadySession.
func ruleAppAfterRecheck(r *core.Report, c *chanSlots, ruleID string) {
	p := r.P
	lit := c.deliverLit
	calls := core.CallsToFn(lit, c.sessDeliver)
	if len(calls) != 1 {
		r.Fail("%s: expected one Session.Deliver call in the Channel.Deliver literal, found %d", ruleID, len(calls))
		return
	}
	sd := calls[0].(*ssa.Call)
	stores := appDataStores(c)
	if len(stores) == 0 {
		r.Fail("%s: cannot find where the Channel.Deliver literal hands out application data", ruleID)
		return
	}
	// the re-check: an IsReady call on the same session that executes after Session.Deliver
	isRecheck := func(in ssa.Instruction) bool {
		cc, ok := in.(*ssa.Call)
		return ok && core.IsCallToFn(cc.Common(), c.sessIsReady) && cc.Call.Args[0] == sd.Call.Args[0] && core.InstrDominates(sd, in)
	}
	// failing deliveries are irrelevant: remove the err != nil edges
	cutErr := core.CutWhere(func(cond ssa.Value) int {
		x, isEq, ok := core.NilCheck(cond)
		if !ok {
			return 0
		}
		cc, idx, ok := core.CallResult(x)
		if !ok || cc != sd || idx != 2 {
			return 0
		}
		if isEq {
			return -1
		}
		return 1
	})
	// the session was not ready before (a session that was ready before needs no promotion):
	// remove the edges on which the IsReady taken BEFORE the delivery was true
	var before *ssa.Call
	for _, in := range core.AllInstrs(lit) {
		cc, ok := in.(*ssa.Call)
		if ok && core.IsCallToFn(cc.Common(), c.sessIsReady) && cc.Call.Args[0] == sd.Call.Args[0] && core.InstrDominates(cc, sd) {
			before = cc
		}
	}
	cutReadyBefore := core.CutFunc(func(b *ssa.BasicBlock, i int) bool { return false })
	if before != nil {
		cutReadyBefore = core.CutWhere(func(cond ssa.Value) int {
			if cond == ssa.Value(before) {
				return 1
			}
			return 0
		})
	}
	cut := core.CutAny(cutErr, cutReadyBefore)
	reached := core.Reach(lit, sd, cut, func(in ssa.Instruction) bool { return isRecheck(in) || in == ssa.Instruction(sd) })
	bad := ""
	for _, st := range stores {
		if reached[st] {
			bad = "application data is handed out at " + p.Pos(st.Pos()) + " before the readiness re-check"
		}
	}
	for _, ret := range core.Returns(lit) {
		if reached[ret] && bad == "" {
			bad = "return at " + p.Pos(ret.Pos()) + " before the readiness re-check"
		}
	}
	r.Check(bad == "", ruleID, core.FnName(lit)+" after Session.Deliver", p.Pos(sd.Pos()),
		"every path from a successful delivery of a not-yet-ready session to data hand-out or return passes the readiness re-check",
		bad+": data that completes the handshake (RespDone lost) is delivered from a session that was never judged or promoted, and the session stays unpromoted so Send blocks until it expires")
	// the ready edge of the re-check leads to onReadySession before any hand-out
	for _, in := range core.AllInstrs(lit) {
		if !isRecheck(in) {
			continue
		}
		rc := in.(*ssa.Call)
		for _, ref := range *rc.Referrers() {
			iff, ok := ref.(*ssa.If)
			if !ok {
				continue
			}
			tb := iff.Block().Succs[0]
			rs := core.ReachAt(lit, tb.Instrs[0], nil, func(i ssa.Instruction) bool {
				cc, ok := i.(*ssa.Call)
				return ok && core.IsCallToFn(cc.Common(), c.onReady)
			})
			bad2 := ""
			for _, st := range stores {
				if rs[st] {
					bad2 = "data hand-out"
				}
			}
			for _, ret := range core.Returns(lit) {
				if rs[ret] {
					bad2 = "return"
				}
			}
			r.Check(bad2 == "", ruleID, core.FnName(lit)+" ready edge", p.Pos(rc.Pos()), "a session that became ready is promoted (onReadySession) before anything else happens", "a session that became ready reaches "+bad2+" without being promoted")
		}
	}
}

var _ = token.EQL

// isZeroStruct: v is the zero value of a struct type (a load of a local that
// is never stored to, or a nil-valued constant).
func isZeroStruct(v ssa.Value) bool {
	if c, ok := v.(*ssa.Const); ok {
		return c.Value == nil
	}
	cell := core.CellOf(v)
	if cell == nil {
		return false
	}
	for _, ref := range *cell.Referrers() {
		switch ref.(type) {
		case *ssa.UnOp, *ssa.DebugRef:
		default:
			return false
		}
	}
	return true
}

// ruleCheckKeyShape (shared by C05 and C02): checkKey returns nil only when the known key equals the
// offered one, or no key is known and AcceptKey accepted it.
func ruleCheckKeyShape(r *core.Report, c *chanSlots, ruleID string) {
	p := r.P
	fn := c.checkKey
	cut, n, pre := c.keyJudgementCut(fn)
	ok := n >= 2 && pre
	reached := core.Reach(fn, nil, cut, nil)
	for _, ret := range core.Returns(fn) {
		if !reached[ret] {
			continue
		}
		for _, v := range core.ReturnValues(ret, 0) {
			// provably non-nil, not merely "not the nil constant" (errors.Wrapf(nil, ...) is nil)
			if !nnShared(p).At(v, ret) {
				ok = false
			}
		}
	}
	// the judged key is the parameter
	for _, ci := range core.Calls(fn, func(ci ssa.CallInstruction) bool {
		return core.IsCallToFn(ci.Common(), c.equalKeys)
	}) {
		if ci.Common().Args[1] != ssa.Value(fn.Params[1]) {
			ok = false
		}
	}
	r.Check(ok, ruleID, core.FnName(fn), p.Pos(fn.Pos()), "nil is returned only when the known key equals the offered one, or no key is known and AcceptKey accepted it", "checkKey can accept a key that is neither equal to the established key nor accepted by the predicate (for an established channel: a different key that AcceptKey admits)")
}

// ruleKeyWriters (shared by C05 and C02): the channel's pinned remote key has one writer.
func ruleKeyWriters(r *core.Report, c *chanSlots, ruleID string) {
	p := r.P
	n := 0
	for _, fn := range p.ModFuncs {
		if strings.Contains(fn.String(), "_test") {
			continue
		}
		for _, st := range core.StoresToField(fn, c.remoteKey) {
			n++
			if fn == c.onReady {
				r.OK(ruleID, core.FnName(fn)+" store remoteKey", p.Pos(st.Pos()), "written by onReadySession (under the key judgement, PROMOTE-CHECK)")
				continue
			}
			r.Violation(ruleID, core.FnName(fn)+" store remoteKey", p.Pos(st.Pos()), "the channel's pinned remote key is overwritten outside onReadySession: once it is reset (or replaced) checkKey treats the channel as never established and accepts any key AcceptKey admits, so the channel changes peer after e.g. an idle expiry")
		}
		// partial writes through the address (fields of the key struct) or passing its address to a callee
		for _, fa := range core.FieldAddrsOf(fn, c.remoteKey) {
			for _, ref := range *fa.Referrers() {
				switch x := ref.(type) {
				case *ssa.FieldAddr:
					for _, r2 := range *x.Referrers() {
						if s2, ok := r2.(*ssa.Store); ok && s2.Addr == ssa.Value(x) && fn != c.onReady {
							n++
							r.Violation(ruleID, core.FnName(fn)+" store remoteKey field", p.Pos(s2.Pos()), "a component of the pinned remote key is overwritten outside onReadySession")
						}
					}
				}
			}
		}
	}
	if n == 0 {
		r.Fail("%s: no store to Channel.remoteKey found (anchor stale)", ruleID)
	}
}

// ruleRejectIsError (shared by C05, C02 and C04): when the prospective session's key is refused,
// onReadySession must return an error: Channel.Deliver relies on it to stop before `appData = out`, so
// a nil there hands the refused peer's plaintext to the application under the pinned identity.
func ruleRejectIsError(r *core.Report, c *chanSlots, ruleID string) {
	p := r.P
	fn := c.onReady
	cut, n, pre := c.keyJudgementCut(fn)
	ok := n > 0 && pre
	reached := core.Reach(fn, nil, cut, nil)
	for _, ret := range core.Returns(fn) {
		if !reached[ret] {
			continue
		}
		for _, v := range core.ReturnValues(ret, 0) {
			if !nnShared(p).At(v, ret) {
				ok = false
			}
		}
	}
	r.Check(ok, ruleID, core.FnName(fn), p.Pos(fn.Pos()), "every return not preceded by a successful key judgement returns a non-nil error", "onReadySession can return nil although the prospective session's key was refused: Channel.Deliver goes on and hands the data message that completed that session to the application, attributed to the channel's (pinned or empty) remote key")
}
