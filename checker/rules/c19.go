package rules

import (
	"fmt"
	"go/token"
	"go/types"
	"strings"

	"golang.org/x/tools/go/ssa"

	"p2pverif/core"
)

func init() { All["C19"] = c19 }

// inLoopWith: block b lies in a loop whose header holds phi (b is dominated by the phi's block and
// can reach it again).
func inLoopWith(b *ssa.BasicBlock, phi *ssa.Phi) bool {
	h := phi.Block()
	if !h.Dominates(b) {
		return false
	}
	seen := map[*ssa.BasicBlock]bool{}
	var walk func(x *ssa.BasicBlock) bool
	walk = func(x *ssa.BasicBlock) bool {
		if x == h {
			return true
		}
		if seen[x] {
			return false
		}
		seen[x] = true
		for _, s := range x.Succs {
			if walk(s) {
				return true
			}
		}
		return false
	}
	for _, s := range b.Succs {
		if walk(s) {
			return true
		}
	}
	return false
}

// phiStep: +1 if the loop phi advances by a positive constant, -1 if by a negative one, 0 otherwise;
// start is the value entering the loop.
func phiStep(phi *ssa.Phi) (step int, start ssa.Value) {
	for _, e := range phi.Edges {
		b, ok := e.(*ssa.BinOp)
		if ok && core.Through(b.X) == ssa.Value(phi) {
			if k, isK := core.ConstInt(b.Y); isK && k != 0 {
				s := 1
				if (b.Op == token.SUB) != (k < 0) {
					s = -1
				}
				if b.Op == token.ADD || b.Op == token.SUB {
					step = s
					continue
				}
			}
		}
		start = e
	}
	return step, start
}

func c19(r *core.Report) {
	p := r.P
	r.Explanation = "Static necessary conditions of 'nearest-first queries are nearest-first and complete', decided on the structure of the code and NOT on the order produced for all cache contents: (CMP-SHAPE) DistanceCmp walks the bytes from index 0 upward, compares x[i]^a[i] with x[i]^b[i] at the same index and returns -1 / 1 on the first strict difference in that orientation; DistanceLt and DistanceGt are DistanceCmp < 0 and > 0 on the same arguments; (CMP-ORIENT) every comparator handed to a sort in the package is DistanceLt(key, a.<id>, b.<id>) with the comparator's parameters in that order and a key that is neither; (FOREACH-ORDER) Cache.ForEach emits the key's own bucket (index = number of leading zero bits of locus^key) first, then the entries of all deeper buckets through ONE sorted emission fed by a loop that only collects, then the shallower buckets in a loop whose index decreases; no emission happens inside a loop whose bucket index increases (entries of different deeper buckets all share exactly the same number of leading bits with the key, and shallower buckets are farther the smaller their index); (CLOSEST) Closest stops ForEach at the first entry; (CLOSER) ForEachCloser stops at the first entry that is not strictly nearer to x than the locus and forwards only nearer ones. Exactly-once coverage of the bucket index ranges, the per-bucket invariant (an entry is in the bucket of its leading-zero count) and the order for every content and key length are not decided."
	r.Assumptions = []string{"an entry is stored in the bucket whose index is the number of leading zero bits of locus^key (Cache.Update/bucketIndex, C18)", "slices.SortFunc sorts by the given less function"}
	r.Trusted = []string{"go/types, go/ssa (x/tools v0.29.0)"}
	cmp := needFn(r, "p/kademlia", "DistanceCmp")
	lt := needFn(r, "p/kademlia", "DistanceLt")
	forEach := needFn(r, "p/kademlia", "Cache.ForEach")
	closest := needFn(r, "p/kademlia", "Cache.Closest")
	closer := needFn(r, "p/kademlia", "Cache.ForEachCloser")
	lzFn := needFn(r, "p/kademlia", "LeadingZeros")
	bucketsF := needField(r, "p/kademlia", "Cache", "buckets")
	locusF := needField(r, "p/kademlia", "Cache", "locus")
	if len(r.Failures) > 0 {
		return
	}

	// ---- C19-CMP-SHAPE
	r.Rule("C19-CMP-SHAPE", "DistanceCmp compares x[i]^a[i] with x[i]^b[i] from the first byte on; DistanceLt/Gt are its sign", 4)
	ruleCmpShape(r, "C19-CMP-SHAPE")

	// ---- C19-CMP-ORIENT
	r.Rule("C19-CMP-ORIENT", "every sort comparator in the package is DistanceLt(key, a.id, b.id) with the comparator's parameters in order", 2)
	nSort := 0
	for _, fn := range p.ModFuncs {
		if fn.Pkg == nil || fn.Pkg != cmp.Pkg || strings.Contains(fn.String(), "_test") {
			continue
		}
		for _, in := range core.AllInstrs(fn) {
			c, ok := in.(*ssa.Call)
			if !ok || !strings.HasPrefix(core.CalleeName(c.Common()), "golang.org/x/exp/slices.SortFunc") && !strings.HasPrefix(core.CalleeName(c.Common()), "slices.SortFunc") && !strings.HasPrefix(core.CalleeName(c.Common()), "sort.Slice") {
				continue
			}
			nSort++
			lit := core.ClosureFn(c.Call.Args[len(c.Call.Args)-1])
			cname := core.FnName(fn) + " sort comparator"
			if lit == nil || len(lit.Params) != 2 {
				r.Undecided("C19-CMP-ORIENT", cname, p.Pos(c.Pos()), "the comparator is not a two-parameter function literal")
				continue
			}
			pa, pb := lit.Params[0], lit.Params[1]
			from := func(v ssa.Value, prm *ssa.Parameter) bool {
				return core.DerivesFrom(v, func(x ssa.Value) bool { return x == ssa.Value(prm) })
			}
			good := false
			why := "the comparator does not return DistanceLt / DistanceCmp < 0"
			for _, ret := range core.Returns(lit) {
				for _, v := range core.ReturnValues(ret, 0) {
					var call *ssa.Call
					switch y := core.Through(v).(type) {
					case *ssa.Call:
						if core.IsCallToFn(y.Common(), lt) {
							call = y
						}
					case *ssa.BinOp:
						if cc, ok := core.Through(y.X).(*ssa.Call); ok && core.IsCallToFn(cc.Common(), cmp) && y.Op == token.LSS {
							if k, isK := core.ConstInt(y.Y); isK && k == 0 {
								call = cc
							}
						}
					}
					if call == nil {
						continue
					}
					k, a, b := call.Call.Args[0], call.Call.Args[1], call.Call.Args[2]
					switch {
					case from(a, pa) && !from(a, pb) && from(b, pb) && !from(b, pa) && !from(k, pa) && !from(k, pb):
						good = true
					case from(a, pb) && from(b, pa):
						why = "the comparator's parameters are swapped: the sort puts the FARTHEST entry first"
					default:
						why = "the comparator does not compare its two parameters' ids relative to a third key"
					}
				}
			}
			r.Check(good, "C19-CMP-ORIENT", cname, p.Pos(c.Pos()), "less(a, b) = DistanceLt(key, a, b)", why)
		}
	}
	if nSort < 2 {
		r.Fail("C19-CMP-ORIENT: %d sorts found in p/kademlia, 2 confirmed on the pinned tree", nSort)
	}

	// ---- C19-FOREACH-ORDER
	r.Rule("C19-FOREACH-ORDER", "ForEach: own bucket, then all deeper buckets through one sorted emission, then shallower buckets by decreasing index", 5)
	{
		var fnParam *ssa.Parameter
		for _, prm := range forEach.Params {
			if _, ok := prm.Type().Underlying().(*types.Signature); ok {
				fnParam = prm
			}
		}
		var lzVal ssa.Value
		for _, in := range core.AllInstrs(forEach) {
			if c, ok := in.(*ssa.Call); ok && core.IsCallToFn(c.Common(), lzFn) {
				lzVal = c
			}
		}
		if fnParam == nil || lzVal == nil {
			r.Fail("C19-FOREACH-ORDER: callback parameter or LeadingZeros call not found in ForEach")
		} else {
			isBuckets := func(v ssa.Value) bool {
				f, _ := core.FieldRead(core.Through(v))
				return core.SameField(f, bucketsF)
			}
			// loop phis that index kc.buckets
			var idxPhis []*ssa.Phi
			for _, in := range core.AllInstrs(forEach) {
				ia, ok := in.(*ssa.IndexAddr)
				if !ok || !isBuckets(ia.X) {
					continue
				}
				if ph, isPhi := core.Through(ia.Index).(*ssa.Phi); isPhi {
					dup := false
					for _, q := range idxPhis {
						dup = dup || q == ph
					}
					if !dup {
						idxPhis = append(idxPhis, ph)
					}
				}
			}
			// emission sites: calls that receive the callback (or call it)
			type site struct {
				call   *ssa.Call
				loop   *ssa.Phi
				ownIdx bool
			}
			var sites []site
			for _, in := range core.AllInstrs(forEach) {
				c, ok := in.(*ssa.Call)
				if !ok {
					continue
				}
				passes := core.Through(c.Call.Value) == ssa.Value(fnParam)
				for _, a := range c.Call.Args {
					if core.Through(a) == ssa.Value(fnParam) {
						passes = true
					}
				}
				if !passes {
					continue
				}
				s := site{call: c}
				for _, ph := range idxPhis {
					if inLoopWith(c.Block(), ph) {
						s.loop = ph
					}
				}
				// receiver bucket indexed directly by lz?
				if len(c.Call.Args) > 0 {
					if u, ok := core.Through(c.Call.Args[0]).(*ssa.UnOp); ok {
						if ia, ok := u.X.(*ssa.IndexAddr); ok && isBuckets(ia.X) && core.Through(ia.Index) == lzVal {
							s.ownIdx = true
						}
					}
				}
				sites = append(sites, s)
			}
			var own, merged, shallow *site
			asc := false
			for i := range sites {
				s := &sites[i]
				switch {
				case s.loop == nil && s.ownIdx:
					own = s
				case s.loop == nil:
					merged = s
				default:
					step, _ := phiStep(s.loop)
					if step > 0 {
						asc = true
						r.Violation("C19-FOREACH-ORDER", "ForEach emission in an ascending bucket loop", p.Pos(s.call.Pos()), "entries are emitted bucket by bucket while the bucket index increases: entries of different deeper buckets all share exactly the same number of leading bits with the key, so their order does not follow the bucket index (locus 00, entries 20 and 40, query 80: 40 is emitted before 20, and Closest returns 40)")
					} else if step < 0 {
						shallow = s
					}
				}
			}
			if !asc {
				r.OK("C19-FOREACH-ORDER", "ForEach no emission in an ascending bucket loop", p.Pos(forEach.Pos()), "no call that receives the callback lies in a loop whose bucket index increases")
			}
			r.Check(own != nil, "C19-FOREACH-ORDER", "ForEach own bucket", p.Pos(forEach.Pos()), "the bucket indexed by the leading-zero count of locus^key is emitted outside any loop", "the key's own bucket (index = leading zeros of locus^key) is not emitted on its own: its entries are the nearest ones")
			// the merged emission: fed by a collecting loop that starts at lz+1 and ascends
			okMerged := false
			whyM := "no single emission of the collected deeper buckets found"
			if merged != nil {
				var accs []*ssa.Phi
				for _, a := range merged.call.Call.Args {
					if ph, isPhi := core.Through(a).(*ssa.Phi); isPhi {
						accs = append(accs, ph)
						// a guard around the loop merges the loop's accumulator with the empty slice
						for _, e := range ph.Edges {
							if p2, ok := core.Through(e).(*ssa.Phi); ok {
								accs = append(accs, p2)
							}
						}
					}
				}
				for _, ph := range accs {
					// form 2: `for _, b := range kc.buckets[lz+1:]` — the loop indexes a sub-slice of the
					// buckets that starts at lz+1 and runs to the end
					for _, in2 := range core.AllInstrs(forEach) {
						ia, ok := in2.(*ssa.IndexAddr)
						if !ok || !inLoopWith(ia.Block(), ph) {
							continue
						}
						sl, ok := core.Through(ia.X).(*ssa.Slice)
						if !ok || !isBuckets(sl.X) || sl.High != nil || sl.Low == nil {
							continue
						}
						if lo, isB := core.Through(sl.Low).(*ssa.BinOp); isB && lo.Op == token.ADD && core.Through(lo.X) == lzVal {
							if k, isK := core.ConstInt(lo.Y); isK && k == 1 {
								okMerged = true
							}
						}
					}
					// form 1: the accumulator phi lives in a loop header together with an index phi
					for _, ip := range idxPhis {
						if ip.Block() != ph.Block() {
							continue
						}
						step, start := phiStep(ip)
						sb, isB := core.Through(start).(*ssa.BinOp)
						startOK := isB && sb.Op == token.ADD && core.Through(sb.X) == lzVal
						if startOK {
							k, isK := core.ConstInt(sb.Y)
							startOK = isK && k == 1
						}
						if step > 0 && startOK {
							okMerged = true
						} else {
							whyM = "the loop that collects the deeper buckets does not run upward from lz+1"
						}
					}
				}
			}
			r.Check(okMerged, "C19-FOREACH-ORDER", "ForEach deeper buckets merged", p.Pos(forEach.Pos()), "the buckets deeper than the key's own are collected by a loop from lz+1 upward and emitted by one call", whyM+": entries of different deeper buckets must be sorted together")
			okShallow := false
			whyS := "no emission loop with a decreasing bucket index found"
			if shallow != nil {
				_, start := phiStep(shallow.loop)
				if core.DerivesFrom(start, func(x ssa.Value) bool {
					b, ok := x.(*ssa.BinOp)
					if !ok || b.Op != token.SUB || core.Through(b.X) != lzVal {
						return false
					}
					k, isK := core.ConstInt(b.Y)
					return isK && k == 1
				}) {
					okShallow = true
				} else {
					whyS = "the decreasing loop does not start at lz-1"
				}
			}
			r.Check(okShallow, "C19-FOREACH-ORDER", "ForEach shallower buckets descending", p.Pos(forEach.Pos()), "the shallower buckets are emitted one by one from index lz-1 downward", whyS+": a shallower bucket is farther from the key the smaller its index")
			// order of the three phases
			// own (conditional on lz < len) before merged before the descending loop: the merged emission
			// dominates the descending loop and cannot reach the own-bucket emission again
			okOrder := own != nil && merged != nil && shallow != nil &&
				merged.call.Block().Dominates(shallow.loop.Block()) &&
				!core.Reach(forEach, merged.call, nil, nil)[ssa.Instruction(own.call)] &&
				core.Reach(forEach, own.call, nil, nil)[ssa.Instruction(merged.call)]
			r.Check(okOrder, "C19-FOREACH-ORDER", "ForEach phase order", p.Pos(forEach.Pos()), "own bucket, then the merged deeper buckets, then the shallower loop", "the three phases are not emitted in the order own bucket, deeper buckets, shallower buckets")
		}
	}

	// ---- C19-QUERY-PRIVATE: queries run under the read lock, concurrently and re-entrantly (a callback may
	// query the cache): a query that stores to a Cache field, or sorts a slice whose backing array is held in
	// cache state, rearranges the entries another enumeration is walking
	r.Rule("C19-QUERY-PRIVATE", "every store to a Cache field holds the write lock, and every slice the package sorts is backed by an array private to the call", 6)
	ruleWritesExclusive(r, core.NewLocks(p, false), "C19-QUERY-PRIVATE", "p/kademlia:Cache")
	ruleSortPrivate(r, "C19-QUERY-PRIVATE", "p/kademlia")

	// ---- C19-CLOSEST / C19-CLOSER
	r.Rule("C19-CLOSEST", "Closest takes the first entry ForEach emits; ForEachCloser forwards exactly the entries strictly nearer to x than the locus and stops at the first that is not", 3)
	{
		ok := false
		for _, lit := range closest.AnonFuncs {
			allFalse := len(core.Returns(lit)) > 0
			for _, ret := range core.Returns(lit) {
				for _, v := range core.ReturnValues(ret, 0) {
					if b, isK := core.ConstBool(v); !isK || b {
						allFalse = false
					}
				}
			}
			ok = ok || allFalse
		}
		calls := len(core.CallsToFn(closest, forEach)) == 1
		r.Check(ok && calls, "C19-CLOSEST", "Cache.Closest", p.Pos(closest.Pos()), "the callback records the entry and stops the enumeration at once", "Closest does not stop ForEach at the first entry: it returns some later (farther) entry")
	}
	for _, lit := range closer.AnonFuncs {
		if len(lit.Params) != 1 {
			continue
		}
		e := lit.Params[0]
		var xPrm ssa.Value
		for _, prm := range closer.Params {
			if types.Identical(prm.Type(), types.NewSlice(types.Typ[types.Byte])) {
				xPrm = prm
			}
		}
		cut := core.CutWhere(func(cond ssa.Value) int {
			c, ok := cond.(*ssa.Call)
			if !ok || !core.IsCallToFn(c.Common(), lt) {
				return 0
			}
			k, a, b := c.Call.Args[0], c.Call.Args[1], c.Call.Args[2]
			fromE := core.DerivesFrom(a, func(x ssa.Value) bool { return x == ssa.Value(e) })
			fb, _ := core.FieldRead(core.Through(b))
			if core.DerivesFrom(k, func(y ssa.Value) bool { return y == xPrm }) {
				if fromE && core.SameField(fb, locusF) {
					return 1
				}
			}
			return 0
		})
		var fwd []ssa.Instruction
		for _, in := range core.AllInstrs(lit) {
			if c, ok := in.(*ssa.Call); ok && core.IsParamFuncCall(c.Common()) {
				fwd = append(fwd, in)
			}
		}
		okGuard := core.GuardEdges(lit, cut) > 0 && len(fwd) == 1 && core.GuardedFromEntry(lit, fwd[0], cut)
		r.Check(okGuard, "C19-CLOSEST", "Cache.ForEachCloser forwards nearer entries only", p.Pos(closer.Pos()), "fn(e) is reachable only when DistanceLt(x, e.Key, locus) holds", "ForEachCloser forwards an entry without testing that it is strictly nearer to x than the locus (or tests the wrong arguments)")
		// on the other edge it returns false (stops): relies on the global order
		stops := true
		noFact := core.Reach(lit, nil, cut, nil)
		for _, ret := range core.Returns(lit) {
			if !noFact[ret] {
				continue
			}
			for _, v := range core.ReturnValues(ret, 0) {
				if b, isK := core.ConstBool(v); !isK || b {
					stops = false
				}
			}
		}
		r.Check(stops, "C19-CLOSEST", "Cache.ForEachCloser stops at the first farther entry", p.Pos(closer.Pos()), "the enumeration stops when an entry is not nearer than the locus", "ForEachCloser keeps enumerating after an entry that is not nearer than the locus without forwarding: harmless for completeness, but then the early stop elsewhere is inconsistent")
	}
	_ = fmt.Sprintf
}

// phiStride: the absolute constant a loop phi advances by (0 if not a constant step).
func phiStride(phi *ssa.Phi) int64 {
	for _, e := range phi.Edges {
		b, ok := e.(*ssa.BinOp)
		if ok && core.Through(b.X) == ssa.Value(phi) && (b.Op == token.ADD || b.Op == token.SUB) {
			if k, isK := core.ConstInt(b.Y); isK {
				if k < 0 {
					k = -k
				}
				return k
			}
		}
	}
	return 0
}

// ruleCmpShape (shared by C19, C20 — every DHT decision goes through DistanceLt — and C18, whose
// bucket index is LeadingZeros of a distance): the byte-wise comparator, its tie-break on lengths, its
// two signs, and the leading-zero count.
func ruleCmpShape(r *core.Report, ruleID string) {
	p := r.P
	cmp := needFn(r, "p/kademlia", "DistanceCmp")
	lt := needFn(r, "p/kademlia", "DistanceLt")
	gt := needFn(r, "p/kademlia", "DistanceGt")
	lzf := needFn(r, "p/kademlia", "LeadingZeros")
	if cmp == nil || lt == nil || gt == nil || lzf == nil {
		return
	}
	{
		x, a, b := cmp.Params[0], cmp.Params[1], cmp.Params[2]
		// byte loads: value -> (slice param, index value)
		elem := func(v ssa.Value) (ssa.Value, ssa.Value) {
			u, ok := core.Through(v).(*ssa.UnOp)
			if !ok || u.Op != token.MUL {
				return nil, nil
			}
			ia, ok := u.X.(*ssa.IndexAddr)
			if !ok {
				return nil, nil
			}
			return core.Through(ia.X), ia.Index
		}
		xorOf := func(v ssa.Value) (other ssa.Value, idx ssa.Value, ok bool) {
			bo, isB := core.Through(v).(*ssa.BinOp)
			if !isB || bo.Op != token.XOR {
				return nil, nil, false
			}
			s1, i1 := elem(bo.X)
			s2, i2 := elem(bo.Y)
			if s1 == nil || s2 == nil || i1 != i2 {
				return nil, nil, false
			}
			switch {
			case s1 == ssa.Value(x):
				return s2, i1, true
			case s2 == ssa.Value(x):
				return s1, i1, true
			}
			return nil, nil, false
		}
		var idxPhi *ssa.Phi
		rangeForm := false
		okNeg, okPos, nCmp := false, false, 0
		for _, in := range core.AllInstrs(cmp) {
			iff, ok := in.(*ssa.If)
			if !ok {
				continue
			}
			c, ok := iff.Cond.(*ssa.BinOp)
			if !ok || (c.Op != token.LSS && c.Op != token.GTR) {
				continue
			}
			l, li, ok1 := xorOf(c.X)
			rr, ri, ok2 := xorOf(c.Y)
			if !ok1 || !ok2 || li != ri {
				continue
			}
			nCmp++
			if ph, isPhi := li.(*ssa.Phi); isPhi {
				idxPhi = ph
			}
			// `for i := range s`: go/ssa keeps a counter that starts at -1 and indexes with counter+1
			if bo, isB := li.(*ssa.BinOp); isB && bo.Op == token.ADD {
				if ph, isPhi := bo.X.(*ssa.Phi); isPhi {
					if k, isK := core.ConstInt(bo.Y); isK && k == 1 {
						idxPhi, rangeForm = ph, true
					}
				}
			}
			// which constant does the true edge return?
			tb := iff.Block().Succs[0]
			ret, isRet := tb.Instrs[len(tb.Instrs)-1].(*ssa.Return)
			if !isRet || len(ret.Results) != 1 {
				continue
			}
			k, isK := core.ConstInt(ret.Results[0])
			if !isK {
				continue
			}
			// normalise to "left < right"
			left, right := l, rr
			if c.Op == token.GTR {
				left, right = rr, l
			}
			if left == ssa.Value(a) && right == ssa.Value(b) && k == -1 {
				okNeg = true
			}
			if left == ssa.Value(b) && right == ssa.Value(a) && k == 1 {
				okPos = true
			}
		}
		r.Check(nCmp == 2 && okNeg && okPos, ruleID, "DistanceCmp first difference", p.Pos(cmp.Pos()), "returns -1 when x[i]^a[i] < x[i]^b[i] and 1 when x[i]^b[i] < x[i]^a[i], both at the same index", "DistanceCmp does not return -1 / 1 on the first byte where x^a and x^b differ, in that orientation: the order is not the byte-wise order of XOR distances")
		ascending := false
		if idxPhi != nil {
			step, start := phiStep(idxPhi)
			k, isK := core.ConstInt(start)
			first := int64(0)
			if rangeForm {
				first = -1
			}
			ascending = step > 0 && isK && k == first && phiStride(idxPhi) == 1
		}
		r.Check(ascending, ruleID, "DistanceCmp most significant byte first", p.Pos(cmp.Pos()), "the byte index starts at 0 and increases", "DistanceCmp does not walk the bytes from index 0 upward: distances are not compared most significant byte first")
		sign := func(fn *ssa.Function, op token.Token) bool {
			for _, ret := range core.Returns(fn) {
				for _, v := range core.ReturnValues(ret, 0) {
					bo, ok := core.Through(v).(*ssa.BinOp)
					if !ok || bo.Op != op {
						return false
					}
					c, ok := core.Through(bo.X).(*ssa.Call)
					if !ok || !core.IsCallToFn(c.Common(), cmp) {
						return false
					}
					if k, isK := core.ConstInt(bo.Y); !isK || k != 0 {
						return false
					}
					for i := 0; i < 3; i++ {
						if core.Through(c.Call.Args[i]) != ssa.Value(fn.Params[i]) {
							return false
						}
					}
				}
			}
			return true
		}
		r.Check(sign(lt, token.LSS), ruleID, "DistanceLt", p.Pos(lt.Pos()), "DistanceLt(x,a,b) is DistanceCmp(x,a,b) < 0", "DistanceLt is not DistanceCmp(x,a,b) < 0 on its own arguments in order")
		r.Check(sign(gt, token.GTR), ruleID, "DistanceGt", p.Pos(gt.Pos()), "DistanceGt(x,a,b) is DistanceCmp(x,a,b) > 0", "DistanceGt is not DistanceCmp(x,a,b) > 0 on its own arguments in order")
	}

	// tie-break after the loop: 0 is returned only when x is exhausted (len(x) == l, so the two
	// distances are the same string) or when a and b have the same length
	{
		x, a, b := cmp.Params[0], cmp.Params[1], cmp.Params[2]
		bd := core.NewBounds(p)
		bd.MinFuncs = map[*ssa.Function]string{}
		if mf := p.Func("p/kademlia", "min"); mf != nil {
			bd.MinFuncs[mf] = "audited contract: returns the smallest of its variadic arguments"
		}
		var l ssa.Value
		for _, in := range core.AllInstrs(cmp) {
			if c, ok := in.(*ssa.Call); ok {
				if g := core.StaticCallee(c.Common()); g != nil && g.Name() == "min" {
					l = c
				}
			}
		}
		okTie, nZero := true, 0
		for _, ret := range core.Returns(cmp) {
			for _, v := range core.ReturnValues(ret, 0) {
				k, isK := core.ConstInt(v)
				if !isK || k != 0 {
					continue
				}
				nZero++
				exhausted := l != nil && bd.ProveLenLE(ret, x, l)
				sameLen := bd.ProveLenLenLE(ret, a, b) && bd.ProveLenLenLE(ret, b, a)
				if !exhausted && !sameLen {
					okTie = false
				}
			}
		}
		r.Check(nZero > 0 && okTie, ruleID, "DistanceCmp tie", p.Pos(cmp.Pos()), "0 is returned only when the key is exhausted (len(x) == common length) or a and b have equal length", "DistanceCmp can return 0 for keys of different length although the query key extends beyond their common prefix: a key and its extension compare as equally distant, the sort comparator stops being a strict weak order and ForEach / Closest / ForEachCloser misorder or drop entries")
	}
	// LeadingZeros: whatever unit the loop advances by, the count grows by 8 bits per byte skipped
	{
		okLZ := true
		why := ""
		n := 0
		for _, in := range core.AllInstrs(lzf) {
			add, ok := in.(*ssa.BinOp)
			if !ok || add.Op != token.ADD {
				continue
			}
			k, isK := core.ConstInt(add.Y)
			if !isK || k < 8 {
				continue // the data-dependent increment (bits.LeadingZeros8) or the index step
			}
			// a constant credit of k bits: the same loop must consume k/8 bytes (x = x[s:] or i += s)
			n++
			stride := int64(0)
			for _, in2 := range core.AllInstrs(lzf) {
				switch y := in2.(type) {
				case *ssa.Slice:
					if y.Block() == add.Block() && y.Low != nil && y.High == nil {
						if s2, isS := core.ConstInt(y.Low); isS {
							stride = s2
						}
					}
				case *ssa.BinOp:
					if y != add && y.Op == token.ADD && y.Block() == add.Block() {
						if s2, isS := core.ConstInt(y.Y); isS && s2 >= 2 && s2 != k {
							stride = s2
						}
					}
				}
			}
			if stride*8 != k {
				okLZ = false
				why = fmt.Sprintf("a step that skips %d byte(s) credits %d leading zero bits", stride, k)
			}
		}
		_ = n
		r.Check(okLZ, ruleID, "LeadingZeros unit", p.Pos(lzf.Pos()), "every constant credit of leading zeros is 8 bits per byte skipped", "LeadingZeros miscounts: "+why+": keys sharing a long prefix with the locus get a far too low bucket index, so the cache sheds its nearest entries first and the bucket order is not the distance order")
	}
}

// ruleSortPrivate: every slices.SortFunc / sort.Slice call in package rel sorts a slice whose backing array does
// not come from a struct field (parameters are followed to the arguments at the module's call sites, two levels up).
func ruleSortPrivate(r *core.Report, ruleID, rel string) {
	p := r.P
	var fieldHit func(v ssa.Value, up int, seen map[ssa.Value]bool) ssa.Value
	fieldHit = func(v ssa.Value, up int, seen map[ssa.Value]bool) ssa.Value {
		var hit ssa.Value
		core.BackingOrigins(p, v, 3, func(x ssa.Value) bool {
			if hit != nil || seen[x] {
				return false
			}
			switch y := x.(type) {
			case *ssa.FieldAddr:
				if _, local := y.X.(*ssa.Alloc); local {
					return true
				}
				if _, isSl := derefType(y.Type()).Underlying().(*types.Slice); isSl {
					hit = y
					return false
				}
			case *ssa.Parameter:
				if up >= 2 {
					return true
				}
				seen[x] = true
				g := y.Parent()
				idx := -1
				for i, prm := range g.Params {
					if prm == y {
						idx = i
					}
				}
				for _, caller := range p.ModFuncs {
					for _, in := range core.AllInstrs(caller) {
						ci, ok := in.(ssa.CallInstruction)
						if !ok {
							continue
						}
						sc := core.StaticCallee(ci.Common())
						if sc == nil || (sc != g && sc.Origin() != g) || idx >= len(ci.Common().Args) {
							continue
						}
						if h := fieldHit(ci.Common().Args[idx], up+1, seen); h != nil {
							hit = h
							return false
						}
					}
				}
			}
			return true
		})
		return hit
	}
	n := 0
	for _, fn := range p.ModFuncs {
		if fn.Pkg == nil || fn.Pkg.Pkg.Path() != core.ModPath+"/"+rel {
			continue
		}
		for _, in := range core.AllInstrs(fn) {
			ci, ok := in.(ssa.CallInstruction)
			if !ok {
				continue
			}
			name := core.CalleeName(ci.Common())
			if !(strings.Contains(name, "slices.SortFunc") || strings.Contains(name, "slices.SortStableFunc") || strings.HasPrefix(name, "sort.Slice") || strings.HasPrefix(name, "sort.SliceStable")) {
				continue
			}
			n++
			r.Analysed(fn)
			c := fmt.Sprintf("%s sort #%d", core.FnName(fn), n)
			arg := ci.Common().Args[0]
			if mi, isMI := arg.(*ssa.MakeInterface); isMI {
				arg = mi.X
			}
			if h := fieldHit(arg, 0, map[ssa.Value]bool{}); h != nil {
				r.Violation(ruleID, c, p.Pos(in.Pos()), fmt.Sprintf("the sorted slice may share its backing array with %s (%s): a second query under the read lock re-sorts the entries this one is walking", h.String(), p.Pos(h.Pos())))
			} else {
				r.OK(ruleID, c, p.Pos(in.Pos()), "the sorted slice is built by the call itself (fresh or appended to nil)")
			}
		}
	}
	if n == 0 {
		r.Fail("%s: no sort call found in %s", ruleID, rel)
	}
}
