package rules

import (
	"go/token"
	"go/types"

	"golang.org/x/tools/go/ssa"

	"p2pverif/core"
)

func init() { All["C04"] = c04 }

// fieldCall: c calls a function-typed struct field named name (s.config.fingerprinter(...)).
func isFieldFuncCall(c *ssa.CallCommon, name string) bool {
	if c.IsInvoke() {
		return false
	}
	f, _ := core.FieldRead(core.Through(c.Value))
	return f != nil && f.Name() == name
}

// addrFieldValues: the values stored into field `field` of the struct value v
// (a composite literal built in a local, possibly nested inside another
// literal: &lit.Src.ID is a FieldAddr of a FieldAddr).
func addrFieldValues(v ssa.Value, field string) []ssa.Value {
	var out []ssa.Value
	var fromAddr func(addr ssa.Value)
	fromAddr = func(addr ssa.Value) {
		refs := addr.Referrers()
		if refs == nil {
			return
		}
		for _, ref := range *refs {
			fa, ok := ref.(*ssa.FieldAddr)
			if !ok || fa.X != addr {
				continue
			}
			f, _ := core.FieldOfAddr(fa)
			if f == nil || f.Name() != field {
				continue
			}
			direct := false
			for _, r2 := range *fa.Referrers() {
				if st, ok := r2.(*ssa.Store); ok && st.Addr == ssa.Value(fa) {
					out = append(out, st.Val)
					direct = true
				}
			}
			if !direct {
				// the field is itself a struct filled field by field: hand back its address
				out = append(out, fa)
			}
		}
	}
	if fa, ok := v.(*ssa.FieldAddr); ok {
		fromAddr(fa)
		return out
	}
	if cell := core.CellOf(v); cell != nil {
		fromAddr(cell)
		return out
	}
	if a, ok := v.(*ssa.Alloc); ok {
		fromAddr(a)
	}
	return out
}

func c04(r *core.Report) {
	p := r.P
	r.Explanation = "Static necessary conditions of 'secure swarms attribute every message to the key its sender proved': (P2PKE) the identity in a delivered message's source is the fingerprint of RemoteKey() of the very channel whose Deliver produced the payload, the destination identity is the local id, getFullAddr hands out a channel only when the fingerprint of its remote key equals the requested identity, Tell sends only through it, and the acceptance predicate built for inbound channels applies the whitelist to the fingerprint of the offered key; (QUIC) the remote address's identity is the fingerprint of the key parsed from the peer's first certificate, a dialled session is cached and used only if that identity equals the requested one, inbound sessions are admitted only when the allow function accepts them; (SSH) the client accepts a host key only when its fingerprint equals the requested one, and the server's recorded key originates from the handshake RESULT (ServerConn.Permissions), never from a variable assigned inside PublicKeyCallback, which the library also calls for keys that are merely queried; (WL) callbacks, Tell and Ask are guarded by the allow function. That TLS, SSH and Noise prove key possession is the libraries' job and is not decided."
	r.Assumptions = []string{"x/crypto/ssh returns in ServerConn.Permissions the Permissions of the key that actually authenticated", "quic-go/crypto/tls completed the handshake with the presented certificate's key"}
	r.Trusted = []string{"go/types, go/ssa (x/tools v0.29.0)", "crypto/tls, quic-go, x/crypto/ssh, flynn/noise"}
	h := resolveHubs(r)

	// ---------------- p2pkeswarm
	r.Rule("C04-P2PKE", "p2pkeswarm: source identity = fingerprint of the delivering channel's remote key; dial-side identity check; whitelist on the offered key", 6)
	hm := needFn(r, "s/p2pkeswarm", "Swarm.handleMessage")
	chDeliver := needFn(r, "p/p2pke", "Channel.Deliver")
	chRemoteKey := needFn(r, "p/p2pke", "Channel.RemoteKey")
	localID := needField(r, "s/p2pkeswarm", "Swarm", "localID")
	if hm != nil && chDeliver != nil && chRemoteKey != nil && localID != nil {
		var del *ssa.Call
		for _, ci := range core.CallsToFn(hm, chDeliver) {
			del, _ = ci.(*ssa.Call)
		}
		for _, ci := range core.Calls(hm, func(ci ssa.CallInstruction) bool { return core.IsCallToFn(ci.Common(), h.fns["TellHub.Deliver"]) }) {
			msg := ci.Common().Args[2]
			srcs := addrFieldValues(msg, "Src")
			okSrc := len(srcs) > 0 && del != nil
			for _, sv := range srcs {
				ids := addrFieldValues(sv, "ID")
				if len(ids) == 0 {
					okSrc = false
				}
				for _, id := range ids {
					fc, isC := id.(*ssa.Call)
					if !isC || !isFieldFuncCall(fc.Common(), "fingerprinter") {
						okSrc = false
						continue
					}
					// argument: RemoteKey() of the same channel value that Deliver was called on
					okKey := core.DerivesFromDirect(fc.Call.Args[0], func(x ssa.Value) bool {
						rk, isRK := x.(*ssa.Call)
						return isRK && core.IsCallToFn(rk.Common(), chRemoteKey) && del != nil && core.SameSource(rk.Call.Args[0], del.Call.Args[0])
					})
					if !okKey {
						okSrc = false
					}
				}
			}
			r.Check(okSrc, "C04-P2PKE", core.FnName(hm)+" Src.ID", p.Pos(ci.Pos()), "the source identity is fingerprinter(RemoteKey()) of the channel that decrypted the payload", "the delivered message's source identity is not the fingerprint of the authenticated remote key of the channel that produced the payload: a message can be attributed to a key its sender never proved")
			dsts := addrFieldValues(msg, "Dst")
			okDst := len(dsts) > 0
			for _, dv := range dsts {
				for _, id := range addrFieldValues(dv, "ID") {
					f, _ := core.FieldRead(id)
					if !core.SameField(f, localID) {
						okDst = false
					}
				}
			}
			r.Check(okDst, "C04-P2PKE", core.FnName(hm)+" Dst.ID", p.Pos(ci.Pos()), "the destination identity is the local id", "the destination identity is not the local id")
			// payload delivered = output of that channel's Deliver, and only when non-nil / no error
			pls := addrFieldValues(msg, "Payload")
			okPl := len(pls) > 0 && del != nil

			for _, pv := range pls {
				c2, idx, isR := core.CallResult(pv)
				if !isR || c2 != del || idx != 0 {
					okPl = false
				}
			}
			r.Check(okPl, "C04-P2PKE", core.FnName(hm)+" payload", p.Pos(ci.Pos()), "the delivered payload is the channel's decrypted output", "the delivered payload is not the channel's decrypted output")
		}
		// whitelist closure: AcceptKey literal returns whitelist(Addr{ID: fingerprinter(pubKey), Addr: msg.Src})
		okWL := false
		for _, lit := range core.WithAnons(hm) {
			if lit.Signature.Params().Len() != 1 || lit.Signature.Results().Len() != 1 {
				continue
			}
			if b, isB := lit.Signature.Results().At(0).Type().Underlying().(*types.Basic); !isB || b.Kind() != types.Bool {
				continue
			}
			for _, ret := range core.Returns(lit) {
				wc, isC := ret.Results[0].(*ssa.Call)
				if !isC || !isFieldFuncCall(wc.Common(), "whitelist") {
					continue
				}
				ids := addrFieldValues(wc.Call.Args[0], "ID")
				okID := len(ids) > 0
				for _, id := range ids {
					fc, isF := id.(*ssa.Call)
					if !isF || !isFieldFuncCall(fc.Common(), "fingerprinter") || core.Through(fc.Call.Args[0]) != ssa.Value(lit.Params[0]) {
						okID = false
					}
				}
				okWL = okID
			}
		}
		r.Check(okWL, "C04-P2PKE", core.FnName(hm)+" whitelist", p.Pos(hm.Pos()), "inbound channels accept a key only if the whitelist accepts the fingerprint of that offered key", "the acceptance predicate of inbound channels does not apply the whitelist to the fingerprint of the offered key: a peer the whitelist rejects can establish a channel")
	}
	ruleP2PKEAddressee(r, "C04-P2PKE")

	// the identity p2pkeswarm reports is the CHANNEL's RemoteKey(), one value for all of its sessions:
	// every session of a channel must therefore have been admitted under that one key (shared with C05)
	r.Rule("C04-P2PKE-PIN", "a channel admits sessions of its pinned key only; the pin has one writer; a refusal is an error", 3)
	if cs := resolveChan(r); cs != nil && len(r.Failures) == 0 {
		ruleCheckKeyShape(r, cs, "C04-P2PKE-PIN")
		ruleKeyWriters(r, cs, "C04-P2PKE-PIN")
		ruleRejectIsError(r, cs, "C04-P2PKE-PIN")
	}

	// the identity p2pkeswarm reports is Channel.RemoteKey(), i.e. the remote key of a session
	// that became usable: it is authenticated only if every path to a usable session state
	// passed the role's verification transitions (shared with C03-AUTH-PATH)
	r.Rule("C04-P2PKE-AUTH", "every usable p2pke session state was reached through the role's signature verifications", 4)
	if ts := buildTypestate(r); ts != nil {
		if ts.err != nil {
			r.Fail("typestate extraction failed: %v", ts.err)
		} else {
			ts.checkAuthPath("C04-P2PKE-AUTH")
			ruleVerifyInside(r, "C04-P2PKE-AUTH")
		}
	}

	// ---------------- quicswarm
	r.Rule("C04-QUIC", "quicswarm: identity from the peer certificate's key; dial-side identity check; allow function on inbound sessions", 5)
	rafs := needFn(r, "s/quicswarm", "Swarm.remoteAddrFromSession")
	ws := needFn(r, "s/quicswarm", "Swarm.withSession")
	serve := needFn(r, "s/quicswarm", "Swarm.serve")
	putSess := needFn(r, "s/quicswarm", "Swarm.putSession")
	handleSess := needFn(r, "s/quicswarm", "Swarm.handleSession")
	parsePK := needFn(r, "f/x509", "ParsePublicKey")
	if rafs != nil && parsePK != nil {
		ok := false
		for _, ret := range core.Returns(rafs) {
			if len(ret.Results) != 2 || !core.IsNilConst(ret.Results[1]) {
				continue
			}
			ids := addrFieldValues(ret.Results[0], "ID")
			ok = len(ids) > 0
			for _, id := range ids {
				fc, isC := id.(*ssa.Call)
				if !isC || !isFieldFuncCall(fc.Common(), "fingerprinter") {
					ok = false
					continue
				}
				pk, _, isR := core.CallResult(fc.Call.Args[0])
				if !isR || !core.IsCallToFn(pk.Common(), parsePK) {
					ok = false
					continue
				}
				// parsed from PeerCertificates[..].RawSubjectPublicKeyInfo of the session argument
				okCert := core.DerivesFromDirect(pk.Call.Args[0], func(x ssa.Value) bool {
					f, _ := core.FieldRead(x)
					return f != nil && f.Name() == "RawSubjectPublicKeyInfo"
				}) && core.DerivesFrom(pk.Call.Args[0], func(x ssa.Value) bool {
					f, _ := core.FieldRead(x)
					return f != nil && f.Name() == "PeerCertificates"
				}) && core.DerivesFrom(pk.Call.Args[0], func(x ssa.Value) bool { return x == ssa.Value(rafs.Params[1]) })
				if !okCert {
					ok = false
				}
			}
		}
		r.Check(ok, "C04-QUIC", core.FnName(rafs)+" ID", p.Pos(rafs.Pos()), "the identity is the fingerprint of the key parsed from this session's peer certificate", "the remote identity is not derived from the key in this session's peer certificate")
	}
	ruleQuicAddressee(r, "C04-QUIC")
	if serve != nil && putSess != nil {
		cut := core.CutWhere(core.BoolCallGuard(func(c *ssa.CallCommon) bool { return isFieldFuncCall(c, "allowFunc") }, true))
		okS := core.GuardEdges(serve, cut) > 0
		for _, in := range core.AllInstrs(serve) {
			c, ok := in.(ssa.CallInstruction)
			if !ok {
				continue
			}
			if core.IsCallToFn(c.Common(), putSess) || core.IsCallToFn(c.Common(), handleSess) {
				if !core.GuardedFromEntry(serve, in, cut) {
					okS = false
				}
			}
		}
		// the allow function judges the address derived from this session
		for _, ci := range core.Calls(serve, func(ci ssa.CallInstruction) bool { return isFieldFuncCall(ci.Common(), "allowFunc") }) {
			if !core.DerivesFromDirect(ci.Common().Args[0], func(x ssa.Value) bool {
				c, idx, ok := core.CallResult(x)
				return ok && idx == 0 && core.IsCallToFn(c.Common(), rafs)
			}) {
				okS = false
			}
		}
		r.Check(okS, "C04-QUIC", core.FnName(serve)+" allow", p.Pos(serve.Pos()), "inbound sessions are cached and served only when the allow function accepts their authenticated address", "an inbound session is admitted without (or before) the allow function judging its authenticated address")
	}
	if lpk := needFn(r, "s/quicswarm", "Swarm.LookupPublicKey"); lpk != nil && ws != nil && parsePK != nil {
		ok := false
		for _, ci := range core.CallsToFn(lpk, ws) {
			ok = core.Through(ci.Common().Args[2]) == ssa.Value(lpk.Params[2])
		}
		r.Check(ok, "C04-QUIC", core.FnName(lpk), p.Pos(lpk.Pos()), "the key is read from the session found for that very address", "LookupPublicKey reads the key of a session found for another address")
	}

	// ---------------- sshswarm
	r.Rule("C04-SSH", "sshswarm: host key fingerprint check on the client; server key from the authenticated Permissions", 2)
	nc := needFn(r, "s/sshswarm", "newClient")
	ns := needFn(r, "s/sshswarm", "newServer")
	if nc != nil {
		ok := false
		for _, lit := range nc.AnonFuncs {
			if lit.Signature.Params().Len() != 3 {
				continue
			}
			cut := core.CutWhere(func(cond ssa.Value) int {
				b, isB := cond.(*ssa.BinOp)
				if !isB || (b.Op != token.EQL && b.Op != token.NEQ) {
					return 0
				}
				isFP := func(v ssa.Value) bool {
					c, isC := v.(*ssa.Call)
					return isC && core.CalleeName(c.Common()) == "golang.org/x/crypto/ssh.FingerprintSHA256" && c.Call.Args[0] == ssa.Value(lit.Params[2])
				}
				isWant := func(v ssa.Value) bool {
					f, _ := core.FieldRead(v)
					return f != nil && f.Name() == "Fingerprint"
				}
				if !(isFP(b.X) && isWant(b.Y) || isFP(b.Y) && isWant(b.X)) {
					return 0
				}
				if b.Op == token.EQL {
					return 1
				}
				return -1
			})
			ok = core.GuardEdges(lit, cut) > 0
			reached := core.Reach(lit, nil, cut, nil)
			for _, ret := range core.Returns(lit) {
				if reached[ret] {
					for _, v := range core.ReturnValues(ret, 0) {
						if core.IsNilConst(v) {
							ok = false
						}
					}
				}
			}
		}
		r.Check(ok, "C04-SSH", core.FnName(nc)+" HostKeyCallback", p.Pos(nc.Pos()), "the host key is accepted only when its SHA-256 fingerprint equals the requested one", "the client accepts a host key whose fingerprint was not compared with the requested identity")
	}
	if ns != nil {
		// (1) no free variable written by the PublicKeyCallback literal reaches an identity field
		okSrc, why := true, ""
		for _, lit := range ns.AnonFuncs {
			for _, in := range core.AllInstrs(lit) {
				st, isSt := in.(*ssa.Store)
				if !isSt {
					continue
				}
				if fv, isFV := st.Addr.(*ssa.FreeVar); isFV {
					okSrc = false
					why = "the PublicKeyCallback literal assigns the captured variable " + fv.Name() + " at " + p.Pos(st.Pos())
				}
			}
		}
		// (2) the key recorded in Conn.pubKey / remoteAddr.Fingerprint derives from sconn.Permissions
		okPerm := false
		pubKeyF := p.Field("s/sshswarm", "Conn", "pubKey")
		for _, in := range core.AllInstrs(ns) {
			st, isSt := in.(*ssa.Store)
			if !isSt {
				continue
			}
			f, _ := core.FieldOfAddr(st.Addr)
			if !core.SameField(f, pubKeyF) {
				continue
			}
			okPerm = core.DerivesFrom(st.Val, func(x ssa.Value) bool {
				ff, base := core.FieldRead(x)
				if ff == nil || ff.Name() != "Permissions" {
					return false
				}
				return core.DerivesFrom(base, func(y ssa.Value) bool {
					c, _, ok := core.CallResult(y)
					return ok && core.CalleeName(c.Common()) == "golang.org/x/crypto/ssh.NewServerConn"
				})
			})
		}
		r.Check(okSrc && okPerm, "C04-SSH", core.FnName(ns)+" key source", p.Pos(ns.Pos()), "the recorded peer key comes from the Permissions the handshake returned for the key that authenticated", "the server's recorded peer key does not come from the handshake result ("+why+"): x/crypto/ssh also calls PublicKeyCallback for keys a client merely queries and caches the answers, so 'query own key, query victim key, sign with own key' leaves the victim's key recorded")
	}

	// ---------------- wlswarm
	r.Rule("C04-WL", "wlswarm: callbacks, Tell and Ask are guarded by the allow function", 4)
	checkAddr := needFn(r, "s/wlswarm", "checkAddr")
	if checkAddr != nil {
		for _, e := range []struct {
			name string
			kind string
		}{{"swarm.Tell", "Tell"}, {"asker.Ask", "Ask"}, {"swarm.Receive", "cb"}, {"asker.ServeAsk", "cb"}} {
			fn := needFn(r, "s/wlswarm", e.name)
			if fn == nil {
				continue
			}
			for _, f := range core.WithAnons(fn) {
				cut := core.CutWhere(core.BoolCallGuard(func(c *ssa.CallCommon) bool { return core.IsCallToFn(c, checkAddr) }, true))
				for _, in := range core.AllInstrs(f) {
					c, ok := in.(ssa.CallInstruction)
					if !ok {
						continue
					}
					guardMe := false
					if e.kind == "cb" && core.IsParamFuncCall(c.Common()) {
						guardMe = true
					}
					if e.kind != "cb" && c.Common().IsInvoke() && c.Common().Method.Name() == e.kind {
						guardMe = true
					}
					if !guardMe {
						continue
					}
					ok2 := core.GuardEdges(f, cut) > 0 && core.GuardedFromEntry(f, in, cut)
					r.Check(ok2, "C04-WL", core.FnName(f)+" "+e.kind, p.Pos(in.Pos()), "reached only when the allow function accepted the address", "a message/ask reaches the application (or is sent) without the allow function having accepted the address")
				}
			}
		}
		// checkAddr returns true only when af(addr) did
		cut := core.CutWhere(core.BoolCallGuard(func(c *ssa.CallCommon) bool { return core.IsParamFuncCall(c) }, true))
		ok := core.GuardEdges(checkAddr, cut) > 0
		reached := core.Reach(checkAddr, nil, cut, nil)
		for _, ret := range core.Returns(checkAddr) {
			if reached[ret] {
				if b, isK := core.ConstBool(ret.Results[0]); !isK || b {
					ok = false
				}
			}
		}
		r.Check(ok, "C04-WL", core.FnName(checkAddr), p.Pos(checkAddr.Pos()), "checkAddr is true only when the allow function is", "checkAddr can return true for an address the allow function rejected")
	}
}

// ruleP2PKEAddressee (shared by C04 and C01 "to whom it was told"): getFullAddr hands out a channel
// without error only when the fingerprint of its authenticated remote key equals the identity asked
// for, and Tell sends only through the channel it returned.
func ruleP2PKEAddressee(r *core.Report, ruleID string) {
	p := r.P
	gfa := needFn(r, "s/p2pkeswarm", "Swarm.getFullAddr")
	tell := needFn(r, "s/p2pkeswarm", "Swarm.Tell")
	chRemoteKey := needFn(r, "p/p2pke", "Channel.RemoteKey")
	chSend := needFn(r, "p/p2pke", "Channel.Send")
	if gfa != nil && chRemoteKey != nil {
		cut := core.CutWhere(func(cond ssa.Value) int {
			b, ok := cond.(*ssa.BinOp)
			if !ok || (b.Op != token.EQL && b.Op != token.NEQ) {
				return 0
			}
			isFP := func(v ssa.Value) bool {
				c, isC := v.(*ssa.Call)
				if !isC || !isFieldFuncCall(c.Common(), "fingerprinter") {
					return false
				}
				return core.DerivesFromDirect(c.Call.Args[0], func(x ssa.Value) bool {
					rk, ok := x.(*ssa.Call)
					return ok && core.IsCallToFn(rk.Common(), chRemoteKey)
				})
			}
			isWant := func(v ssa.Value) bool {
				f, base := core.FieldRead(v)
				return f != nil && f.Name() == "ID" && core.Through(base) == ssa.Value(gfa.Params[2]) || f != nil && f.Name() == "ID" && core.CellOfAddrOrLoad(base, gfa.Params[2])
			}
			if !(isFP(b.X) && isWant(b.Y) || isFP(b.Y) && isWant(b.X)) {
				return 0
			}
			if b.Op == token.EQL {
				return 1
			}
			return -1
		})
		ok := core.GuardEdges(gfa, cut) > 0
		reached := core.Reach(gfa, nil, cut, nil)
		for _, ret := range core.Returns(gfa) {
			if !reached[ret] {
				continue
			}
			for _, v := range core.ReturnValues(ret, 1) {
				if !nnShared(p).At(v, ret) {
					ok = false
				}
			}
		}
		r.Check(ok, ruleID, core.FnName(gfa)+" identity check", p.Pos(gfa.Pos()), "a channel is returned without error only when the fingerprint of its remote key equals the requested identity", "getFullAddr can return a channel whose authenticated key does not fingerprint to the requested identity: Tell to X encrypts to whoever answered at that transport address")
	}
	if tell != nil && gfa != nil && chSend != nil {
		ok := false
		for _, ci := range core.CallsToFn(tell, chSend) {
			c2, idx, isR := core.CallResult(ci.Common().Args[0])
			if isR && core.IsCallToFn(c2.Common(), gfa) && idx == 0 {
				cut := cutErrNilOf(c2)
				ok = core.GuardEdges(tell, cut) > 0 && core.GuardedFromEntry(tell, ci.(ssa.Instruction), cut)
			}
		}
		r.Check(ok, ruleID, core.FnName(tell)+" sends through getFullAddr", p.Pos(tell.Pos()), "the payload is sent only on the channel getFullAddr returned without error", "Tell sends on a channel that did not pass the identity check")
	}

}

// ruleQuicAddressee: quicswarm.withSession sends a Tell/Ask on a session that leads to the requested identity:
// a dialled session is cached and used only after the peer's authenticated identity was compared with the
// requested one, and cached sessions are looked up under a key that contains the identity. Shared by C04
// (attribution) and C11 (the answer comes from the addressed peer's handler, never another's).
func ruleQuicAddressee(r *core.Report, ruleID string) {
	p := r.P
	rafs := needFn(r, "s/quicswarm", "Swarm.remoteAddrFromSession")
	ws := needFn(r, "s/quicswarm", "Swarm.withSession")
	putSess := needFn(r, "s/quicswarm", "Swarm.putSession")
	handleSess := needFn(r, "s/quicswarm", "Swarm.handleSession")
	if ws != nil && rafs != nil && putSess != nil {
		// after Dial: putSession and fn(sess) guarded by peerAddr.ID == dst.ID
		cut := core.CutWhere(func(cond ssa.Value) int {
			b, ok := cond.(*ssa.BinOp)
			if !ok || (b.Op != token.EQL && b.Op != token.NEQ) {
				return 0
			}
			fromPeer := func(v ssa.Value) bool {
				f, base := core.FieldRead(v)
				if f == nil || f.Name() != "ID" {
					return false
				}
				return core.DerivesFromDirect(base, func(x ssa.Value) bool {
					c, idx, ok := core.CallResult(x)
					return ok && idx == 0 && core.IsCallToFn(c.Common(), rafs)
				})
			}
			fromDst := func(v ssa.Value) bool {
				f, base := core.FieldRead(v)
				return f != nil && f.Name() == "ID" && (core.Through(base) == ssa.Value(ws.Params[2]) || core.CellOfAddrOrLoad(base, ws.Params[2]))
			}
			if !(fromPeer(b.X) && fromDst(b.Y) || fromPeer(b.Y) && fromDst(b.X)) {
				return 0
			}
			if b.Op == token.EQL {
				return 1
			}
			return -1
		})
		okG := core.GuardEdges(ws, cut) > 0
		// sites after the dial
		var dial ssa.Instruction
		for _, in := range core.AllInstrs(ws) {
			if c, ok := in.(*ssa.Call); ok && core.CalleeName(c.Common()) == "(*github.com/quic-go/quic-go.Transport).Dial" {
				dial = in
			}
		}
		if dial == nil {
			r.Fail("%s: Dial call not found in withSession", ruleID)
		} else {
			reached := core.Reach(ws, dial, cut, nil)
			bad := ""
			for in := range reached {
				c, ok := in.(ssa.CallInstruction)
				if !ok {
					continue
				}
				if core.IsCallToFn(c.Common(), putSess) {
					bad = "putSession"
				}
				if core.IsParamFuncCall(c.Common()) {
					bad = "fn(sess)"
				}
				if _, isGo := in.(*ssa.Go); isGo && core.IsCallToFn(c.Common(), handleSess) {
					bad = "handleSession"
				}
			}
			r.Check(okG && bad == "", ruleID, core.FnName(ws)+" dial identity check", p.Pos(dial.Pos()), "a dialled session is cached and used only when the peer's identity equals the requested one", "after dialling, "+bad+" is reachable without the peer's authenticated identity having been compared with the requested one: a Tell/Ask addressed to X is sent to whoever answered")
		}
		// cache lookup key contains the full destination (dst.Key()); the lookup may sit in withSession itself or
		// in a helper it hands its destination to
		okKey := false
		nLookups := 0
		keyOf := func(fn *ssa.Function, dstVal func(ssa.Value) bool) bool {
			ok, seen := true, false
			for _, in := range core.AllInstrs(fn) {
				lk, isL := in.(*ssa.Lookup)
				if !isL {
					continue
				}
				if f, _ := core.FieldRead(lk.X); f == nil || f.Name() != "sessCache" {
					continue
				}
				seen = true
				nLookups++
				if !core.DerivesFrom(lk.Index, func(x ssa.Value) bool {
					c, isC := x.(*ssa.Call)
					if !isC {
						return false
					}
					sc := core.StaticCallee(c.Common())
					return sc != nil && sc.Name() == "Key" && (dstVal(core.Through(c.Call.Args[0])) || core.DerivesFromDirect(c.Call.Args[0], dstVal))
				}) {
					ok = false
				}
			}
			return ok && seen
		}
		isDst := func(v ssa.Value) bool { return v == ssa.Value(ws.Params[2]) }
		okKey = keyOf(ws, isDst)
		if nLookups == 0 {
			for _, in := range core.AllInstrs(ws) {
				hc, isC := in.(*ssa.Call)
				if !isC {
					continue
				}
				g := core.StaticCallee(hc.Common())
				if g == nil || !p.InModule(g) || g.Blocks == nil {
					continue
				}
				for ai, a := range hc.Call.Args {
					if ai < len(g.Params) && (isDst(core.Through(a)) || core.DerivesFromDirect(a, isDst)) {
						prm := g.Params[ai]
						if keyOf(g, func(v ssa.Value) bool { return v == ssa.Value(prm) }) {
							okKey = true
						}
					}
				}
			}
		}
		r.Check(okKey, ruleID, core.FnName(ws)+" cache key", p.Pos(ws.Pos()), "cached sessions are found under the destination's full text (identity included)", "the session cache is looked up with a key that does not contain the requested identity")
	}
}
