package rules

import (
	"go/constant"
	"go/types"
	"strings"

	"golang.org/x/tools/go/ssa"

	"p2pverif/core"
)

func init() { All["C03"] = c03 }

func c03(r *core.Report) {
	p := r.P
	r.Explanation = "Static necessary conditions of 'a session is usable only after the peer proved its key for this handshake': (AUTH-PATH) on the session state machine extracted from the source, every path to a state that can send, can receive or is ready passes the successful verification transitions of its role (responder: readInitHello and readInitDone; initiator: readRespHello); (VERIFY-INSIDE) those readers return without error only on the success edge of the signature verification, down to Verifier.Verify; (KEY-PROVENANCE) the key recorded as the session's remote key is the one whose claim was verified in that same step, InitDone is verified against that recorded key, and RemoteKey() returns it; (TRANSCRIPT) the signed value is this handshake's channel binding taken at the agreed transcript position (responder signs after reading InitHello and before writing RespHello; the initiator copies the binding before reading RespHello and verifies against that copy, then signs the binding after reading; the responder verifies InitDone against its own handshake's binding with no read/write in between), signer and verifier use the same purpose constant, the two purposes differ, and the pre-hash is length-prefixed; (EARLY) application data is decrypted only under canReceive and sealed only under canSend. Unforgeability and the Noise transcript hash are the libraries' part and are not decided."
	r.Assumptions = []string{"flynn/noise ChannelBinding() is the handshake transcript hash; signature schemes in the registry are unforgeable"}
	r.Trusted = []string{"go/types, go/ssa (x/tools v0.29.0)", "flynn/noise, the signature schemes"}
	rih := needFn(r, "p/p2pke", "readInitHello")
	rrh := needFn(r, "p/p2pke", "readRespHello")
	rid := needFn(r, "p/p2pke", "readInitDone")
	vac := needFn(r, "p/p2pke", "verifyAuthClaim")
	verify := needFn(r, "p/p2pke", "verify")
	sign := needFn(r, "p/p2pke", "sign")
	mcac := needFn(r, "p/p2pke", "makeChannelAuthClaim")
	mtac := needFn(r, "p/p2pke", "makeTAI64NAuthClaim")
	cps := needFn(r, "p/p2pke", "createPreSig")
	rh := needFn(r, "p/p2pke", "Session.readHandshake")
	sessDeliver := needFn(r, "p/p2pke", "Session.Deliver")
	sessSend := needFn(r, "p/p2pke", "Session.Send")
	newResp := needFn(r, "p/p2pke", "Channel.newResp")
	remoteKeyF := needField(r, "p/p2pke", "Session", "remoteKey")
	if len(r.Failures) > 0 {
		return
	}

	// ---- C03-AUTH-PATH
	r.Rule("C03-AUTH-PATH", "every path to a usable session state passed the role's verification transitions", 4)
	if ts := buildTypestate(r); ts != nil {
		if ts.err != nil {
			r.Fail("typestate extraction failed: %v", ts.err)
		} else {
			ts.describe(r)
			ts.checkAuthPath("C03-AUTH-PATH")
		}
	}

	// ---- C03-VERIFY-INSIDE
	r.Rule("C03-VERIFY-INSIDE", "the handshake readers succeed only on the success edge of signature verification", 5)
	ruleVerifyInside(r, "C03-VERIFY-INSIDE")

	// ---- C03-KEY-PROVENANCE
	r.Rule("C03-KEY-PROVENANCE", "the recorded remote key is the verified one; InitDone is verified against it", 5)
	for _, reader := range []*ssa.Function{rih, rrh} {
		// result.RemoteKey = pubKey from verifyAuthClaim
		ok := false
		for _, ret := range core.Returns(reader) {
			if len(ret.Results) == 2 && core.IsNilConst(ret.Results[1]) {
				vals := fieldValuesOfAllocated(ret.Results[0], "RemoteKey")
				ok = len(vals) > 0
				for _, v := range vals {
					c, idx, isR := core.CallResult(core.Through(v))
					if !isR || idx != 0 || !core.IsCallToFn(c.Common(), vac) {
						ok = false
					}
				}
			}
		}
		r.Check(ok, "C03-KEY-PROVENANCE", core.FnName(reader)+" result key", p.Pos(reader.Pos()), "the key handed back is the one verifyAuthClaim returned", "the reader hands back a key other than the one whose signature it verified (e.g. the claimed key bytes)")
	}
	{
		// readHandshake: s.remoteKey = res.RemoteKey of the reader call in the same case
		n, ok := 0, true
		for _, st := range core.StoresToField(rh, remoteKeyF) {
			n++
			f, base := core.FieldRead(st.Val)
			c, idx, isR := core.CallResult(base)
			if f == nil || f.Name() != "RemoteKey" || !isR || idx != 0 || !(core.IsCallToFn(c.Common(), rih) || core.IsCallToFn(c.Common(), rrh)) {
				ok = false
				continue
			}
			// stored only on the success edge of that call
			cut := cutErrNilOf(c)
			if !core.GuardedFromEntry(rh, st, cut) {
				ok = false
			}
		}
		r.Check(ok && n == 2, "C03-KEY-PROVENANCE", core.FnName(rh)+" store remoteKey", p.Pos(rh.Pos()), "the session's remote key is the result of the reader that just succeeded", "the session records a remote key that is not the result of the successful verification in that step")
		// readInitDone is given &s.remoteKey
		okRID := false
		for _, ci := range core.CallsToFn(rh, rid) {
			f, _ := core.FieldOfAddr(ci.Common().Args[1])
			okRID = core.SameField(f, remoteKeyF)
		}
		r.Check(okRID, "C03-KEY-PROVENANCE", core.FnName(rh)+" InitDone key", p.Pos(rh.Pos()), "InitDone is verified against the session's recorded remote key", "InitDone is verified against a key other than the session's recorded remote key")
		// inside readInitDone, verify uses that parameter
		okV := false
		for _, ci := range core.CallsToFn(rid, verify) {
			okV = core.DerivesFromDirect(ci.Common().Args[0], func(x ssa.Value) bool { return x == ssa.Value(rid.Params[1]) })
		}
		r.Check(okV, "C03-KEY-PROVENANCE", core.FnName(rid)+" verify key", p.Pos(rid.Pos()), "the InitDone signature is checked with the key passed in", "readInitDone verifies with a key other than the one passed in")
	}

	// ---- C03-TRANSCRIPT
	r.Rule("C03-TRANSCRIPT", "the signed value is this handshake's channel binding at the agreed position; purposes agree and differ", 5)
	isHS := func(name string) func(ssa.Instruction) bool {
		return func(in ssa.Instruction) bool {
			c, ok := in.(*ssa.Call)
			return ok && core.CalleeName(c.Common()) == "(*github.com/flynn/noise.HandshakeState)."+name
		}
	}
	callsOf := func(fn *ssa.Function, pred func(ssa.Instruction) bool) []*ssa.Call {
		var out []*ssa.Call
		for _, in := range core.AllInstrs(fn) {
			if pred(in) {
				out = append(out, in.(*ssa.Call))
			}
		}
		return out
	}
	// responder signs RespHello: ChannelBinding after ReadMessage, before WriteMessage, on the hs parameter
	{
		cbs := callsOf(rih, isHS("ChannelBinding"))
		rds := callsOf(rih, isHS("ReadMessage"))
		wrs := callsOf(rih, isHS("WriteMessage"))
		ok := len(cbs) == 1 && len(rds) == 1 && len(wrs) == 1
		if ok {
			ok = core.InstrDominates(rds[0], cbs[0]) && core.InstrDominates(cbs[0], wrs[0]) &&
				cbs[0].Call.Args[0] == ssa.Value(rih.Params[1]) && rds[0].Call.Args[0] == ssa.Value(rih.Params[1]) && wrs[0].Call.Args[0] == ssa.Value(rih.Params[1])
			// the signature goes over that binding
			okSig := false
			for _, ci := range core.CallsToFn(rih, mcac) {
				okSig = ci.Common().Args[1] == ssa.Value(cbs[0])
			}
			ok = ok && okSig
		}
		r.Check(ok, "C03-TRANSCRIPT", core.FnName(rih)+" signs binding", p.Pos(rih.Pos()), "the responder signs the channel binding taken after reading InitHello and before writing RespHello", "the responder's signature does not cover this handshake's binding at the agreed transcript position: RespHello signatures from other handshakes can be replayed")
	}
	// initiator verifies RespHello against the binding copied BEFORE ReadMessage, then signs the binding taken after
	{
		cbs := callsOf(rrh, isHS("ChannelBinding"))
		rds := callsOf(rrh, isHS("ReadMessage"))
		ok := len(cbs) == 2 && len(rds) == 1
		if ok {
			var before, after *ssa.Call
			for _, cb := range cbs {
				if core.InstrDominates(cb, rds[0]) {
					before = cb
				}
				if core.InstrDominates(rds[0], cb) {
					after = cb
				}
			}
			ok = before != nil && after != nil
			if ok {
				// verifyAuthClaim's data is a COPY of `before`
				okV := false
				for _, ci := range core.CallsToFn(rrh, vac) {
					data := ci.Common().Args[3]
					cp, isC := core.Peel(data).(*ssa.Call)
					okV = isC && core.IsBuiltin(cp.Common(), "append") && core.Peel(cp.Call.Args[1]) == ssa.Value(before) && core.InstrDominates(cp, rds[0])
				}
				okS := false
				for _, ci := range core.CallsToFn(rrh, sign) {
					okS = ci.Common().Args[3] == ssa.Value(after)
				}
				ok = okV && okS
			}
		}
		r.Check(ok, "C03-TRANSCRIPT", core.FnName(rrh)+" verifies/signs binding", p.Pos(rrh.Pos()), "RespHello is verified against the binding copied before reading it; InitDone signs the binding after", "the initiator verifies RespHello against (or signs InitDone over) the binding at the wrong transcript position: the two sides sign different values, or a signature from another handshake verifies")
	}
	// responder verifies InitDone against its own handshake's binding, no read/write in the function
	{
		cbs := callsOf(rid, isHS("ChannelBinding"))
		ok := len(cbs) == 1 && len(callsOf(rid, isHS("ReadMessage"))) == 0 && len(callsOf(rid, isHS("WriteMessage"))) == 0 && cbs[0].Call.Args[0] == ssa.Value(rid.Params[0])
		if ok {
			okV := false
			for _, ci := range core.CallsToFn(rid, verify) {
				okV = ci.Common().Args[2] == ssa.Value(cbs[0])
			}
			ok = okV
		}
		// and the call site passes the session's own hs
		hsF := p.Field("p/p2pke", "Session", "hs")
		for _, ci := range core.CallsToFn(rh, rid) {
			f, _ := core.FieldRead(ci.Common().Args[0])
			if !core.SameField(f, hsF) {
				ok = false
			}
		}
		r.Check(ok, "C03-TRANSCRIPT", core.FnName(rid)+" verifies binding", p.Pos(rid.Pos()), "InitDone is verified against the session's own final channel binding", "InitDone is not verified against this session's own final channel binding")
	}
	// purposes
	{
		constArg := func(v ssa.Value) string {
			if c, ok := v.(*ssa.Const); ok && c.Value != nil && c.Value.Kind() == constant.String {
				return constant.StringVal(c.Value)
			}
			return ""
		}
		purposeOf := func(fn *ssa.Function, callee *ssa.Function, argIdx int) []string {
			var out []string
			for _, ci := range core.CallsToFn(fn, callee) {
				out = append(out, constArg(ci.Common().Args[argIdx]))
			}
			return out
		}
		cb := purposeOf(mcac, sign, 2)
		cbV := purposeOf(rrh, vac, 1)
		idS := purposeOf(rrh, sign, 2)
		idV := purposeOf(rid, verify, 1)
		tsS := purposeOf(mtac, sign, 2)
		tsV := append(purposeOf(rih, vac, 1), purposeOf(newResp, vac, 1)...)
		one := func(xs []string) string {
			if len(xs) == 0 {
				return ""
			}
			for _, x := range xs {
				if x != xs[0] {
					return ""
				}
			}
			return xs[0]
		}
		okP := one(cb) != "" && one(cb) == one(cbV) && one(idS) != "" && one(idS) == one(idV) && one(tsS) != "" && one(tsS) == one(tsV) && one(tsS) != one(cb)
		r.Check(okP, "C03-TRANSCRIPT", "purpose constants", "-", "signer and verifier of each signed message use the same purpose, and timestamp and channel-binding purposes differ", "signers and verifiers disagree on the purpose tag, or the timestamp and channel-binding signatures share a purpose (a timestamp signature could be replayed as a handshake signature)")
		// createPreSig: length byte, purpose, message, in that order
		var writes []*ssa.Call
		for _, in := range core.AllInstrs(cps) {
			if c, ok := in.(*ssa.Call); ok && c.Common().IsInvoke() && c.Common().Method.Name() == "Write" {
				writes = append(writes, c)
			}
		}
		okW := len(writes) == 3
		if okW {
			okW = core.InstrDominates(writes[0], writes[1]) && core.InstrDominates(writes[1], writes[2])
			// first: len(purpose) byte; second: purpose; third: msg
			d0 := core.DerivesFrom(writes[0].Call.Args[0], func(x ssa.Value) bool {
				c, ok := x.(*ssa.Call)
				return ok && core.IsBuiltin(c.Common(), "len") && c.Call.Args[0] == ssa.Value(cps.Params[0])
			})
			d1 := core.DerivesFromDirect(writes[1].Call.Args[0], func(x ssa.Value) bool { return x == ssa.Value(cps.Params[0]) })
			d2 := writes[2].Call.Args[0] == ssa.Value(cps.Params[1])
			okW = okW && d0 && d1 && d2
		}
		r.Check(okW, "C03-TRANSCRIPT", core.FnName(cps), p.Pos(cps.Pos()), "the pre-hash absorbs len(purpose), purpose, message in that order (prefix-free tag)", "the pre-hash does not absorb the length-prefixed purpose before the message: (purpose, message) pairs can collide")
	}

	// ---- C03-EARLY
	r.Rule("C03-EARLY", "data is decrypted only under canReceive and sealed only under canSend", 2)
	for _, e := range []struct {
		fn     *ssa.Function
		method string
		guard  string
	}{{sessDeliver, "Decrypt", "canReceive"}, {sessSend, "Encrypt", "canSend"}} {
		cut := core.CutWhere(core.BoolCallGuard(func(c *ssa.CallCommon) bool {
			sc := core.StaticCallee(c)
			return sc != nil && sc.Name() == e.guard
		}, true))
		ok := core.GuardEdges(e.fn, cut) > 0
		n := 0
		for _, in := range core.AllInstrs(e.fn) {
			if c, isC := in.(*ssa.Call); isC && isCipherCall(c.Common(), e.method) {
				n++
				if !core.GuardedFromEntry(e.fn, in, cut) {
					ok = false
				}
			}
		}
		// the data branch split off into a helper only this entry point calls: the guard may sit in the helper
		// (before the cipher call) or in the entry point (before the call of the helper)
		if df := sessionDataFn(p, e.fn, e.method); n == 0 && df != e.fn {
			okIn := core.GuardEdges(df, cut) > 0
			for _, in := range core.AllInstrs(df) {
				if c, isC := in.(*ssa.Call); isC && isCipherCall(c.Common(), e.method) {
					n++
					if !core.GuardedFromEntry(df, in, cut) {
						okIn = false
					}
				}
			}
			okOut := core.GuardEdges(e.fn, cut) > 0
			for _, ci := range core.CallsToFn(e.fn, df) {
				if !core.GuardedFromEntry(e.fn, ci.(ssa.Instruction), cut) {
					okOut = false
				}
			}
			ok = okIn || okOut
		}
		r.Check(ok && n > 0, "C03-EARLY", core.FnName(e.fn)+" "+e.method, p.Pos(e.fn.Pos()), "the AEAD is used for application data only when "+e.guard+"() holds", "application data is "+strings.ToLower(e.method)+"ed although "+e.guard+"() does not hold: the session is used before the peer proved its key")
	}
	_ = types.Typ
}

// fieldValuesOfAllocated: v is a pointer to a freshly allocated struct
// (&T{...}); returns the values stored to its field.
func fieldValuesOfAllocated(v ssa.Value, field string) []ssa.Value {
	var out []ssa.Value
	a, ok := core.Peel(v).(*ssa.Alloc)
	if !ok {
		return nil
	}
	for _, ref := range *a.Referrers() {
		fa, ok := ref.(*ssa.FieldAddr)
		if !ok {
			continue
		}
		f, _ := core.FieldOfAddr(fa)
		if f == nil || f.Name() != field {
			continue
		}
		for _, r2 := range *fa.Referrers() {
			if st, ok := r2.(*ssa.Store); ok && st.Addr == ssa.Value(fa) {
				out = append(out, st.Val)
			}
		}
	}
	return out
}

// ruleVerifyInside (shared by C03, C02 "authentic" and C04): the handshake readers return a nil error
// only after signature verification returned nil, verify returns a provably non-nil error unless the
// scheme's Verify returned true, and it verifies the given signature over createPreSig(purpose, msg).
func ruleVerifyInside(r *core.Report, ruleID string) {
	p := r.P
	// the primitive underneath: x509's generic Verifier returns the scheme's verdict unchanged (no
	// deferred function rewrites the result, nothing turns a false or a panic into true)
	if xv := needFn(r, "f/x509", "verifier.Verify"); xv != nil {
		okPrim := len(core.Returns(xv)) > 0
		why := ""
		for _, ret := range core.Returns(xv) {
			for _, v := range core.ReturnValues(ret, 0) {
				if b, isK := core.ConstBool(v); isK && !b {
					continue
				}
				c, _, isCall := core.CallResult(core.Through(v))
				if cc, direct := core.Through(v).(*ssa.Call); direct {
					c, isCall = cc, true
				}
				if !isCall || !c.Call.IsInvoke() || c.Call.Method.Name() != "Verify" {
					okPrim = false
					why = "a return value that is not the scheme's Verify result (or the constant false)"
				}
			}
		}
		if core.Recovers(xv) {
			okPrim = false
			why = "it recovers from panics and returns whatever the named result holds then"
		}
		r.Check(okPrim, ruleID, core.FnName(xv), p.Pos(xv.Pos()), "returns exactly what the signature scheme's Verify returned", "x509's Verifier does not return the scheme's verdict unchanged ("+why+"): a signature the scheme rejects can be reported as valid, and every handshake check above it passes")
	}
	rih := needFn(r, "p/p2pke", "readInitHello")
	rrh := needFn(r, "p/p2pke", "readRespHello")
	rid := needFn(r, "p/p2pke", "readInitDone")
	vac := needFn(r, "p/p2pke", "verifyAuthClaim")
	verify := needFn(r, "p/p2pke", "verify")
	cps := needFn(r, "p/p2pke", "createPreSig")
	if rih == nil || rrh == nil || rid == nil || vac == nil || verify == nil || cps == nil {
		return
	}
	nn := core.NewNonNil(p)
	noErrReturnOnlyAfter := func(fn *ssa.Function, isVerifier func(*ssa.CallCommon) bool, what string) {
		cut := core.CutWhere(core.ErrNilGuard(isVerifier))
		ok := core.GuardEdges(fn, cut) > 0
		reached := core.Reach(fn, nil, cut, nil)
		for _, ret := range core.Returns(fn) {
			if !reached[ret] {
				continue
			}
			ei := len(ret.Results) - 1
			for _, v := range core.ReturnValues(ret, ei) {
				// not merely "not the nil constant": the error must be provably non-nil (errors.Wrapf
				// of a nil error is nil)
				if !nn.At(v, ret) {
					ok = false
				}
			}
		}
		r.Check(ok, ruleID, core.FnName(fn), p.Pos(fn.Pos()), "returns a provably non-nil error on every path on which "+what+" did not return nil", core.FnName(fn)+" can succeed without "+what+" having succeeded: a handshake message with an invalid or missing signature is accepted")
	}
	isVAC := func(c *ssa.CallCommon) bool { return core.IsCallToFn(c, vac) }
	isVerify := func(c *ssa.CallCommon) bool { return core.IsCallToFn(c, verify) }
	noErrReturnOnlyAfter(rih, isVAC, "verifyAuthClaim")
	noErrReturnOnlyAfter(rrh, isVAC, "verifyAuthClaim")
	noErrReturnOnlyAfter(rid, isVerify, "verify")
	noErrReturnOnlyAfter(vac, isVerify, "verify")
	{
		// verify: nil only on the true edge of Verifier.Verify
		cut := core.CutWhere(core.BoolCallGuard(func(c *ssa.CallCommon) bool { return c.IsInvoke() && c.Method.Name() == "Verify" }, true))
		ok := core.GuardEdges(verify, cut) > 0
		reached := core.Reach(verify, nil, cut, nil)
		for _, ret := range core.Returns(verify) {
			if reached[ret] {
				for _, v := range core.ReturnValues(ret, 0) {
					if !nn.At(v, ret) {
						ok = false
					}
				}
			}
		}
		r.Check(ok, ruleID, core.FnName(verify), p.Pos(verify.Pos()), "returns a provably non-nil error unless Verifier.Verify returned true", "verify can return nil although the signature did not verify (an error value that is not provably non-nil is returned on the failing edge, e.g. errors.Wrapf of a nil error)")
		// verified bytes = createPreSig(purpose, msg) of verify's own arguments
		okArgs := false
		for _, ci := range core.Calls(verify, func(ci ssa.CallInstruction) bool {
			return ci.Common().IsInvoke() && ci.Common().Method.Name() == "Verify"
		}) {
			okArgs = core.DerivesFrom(ci.Common().Args[0], func(x ssa.Value) bool {
				c, idx, ok := core.CallResult(x)
				return ok && idx == 0 && core.IsCallToFn(c.Common(), cps) && c.Call.Args[0] == ssa.Value(verify.Params[1]) && c.Call.Args[1] == ssa.Value(verify.Params[2])
			}) && ci.Common().Args[1] == ssa.Value(verify.Params[3])
		}
		r.Check(okArgs, ruleID, core.FnName(verify)+" inputs", p.Pos(verify.Pos()), "the verifier checks sig over createPreSig(purpose, msg)", "verify does not check the given signature over the purpose-tagged pre-hash of the given message")
	}

}
