#!/bin/bash
# usage: runall_on.sh <patch.diff>   — maintenance helper, not a registered check.
# Applies a patch in a scratch worktree of /repo, builds it, and runs every claimed property's quick
# rules against it (checker -repo, scratch verif dir). Prints the properties that alarm.
set -u
export GOFLAGS=-mod=mod GOPROXY=off GOSUMDB=off GOTOOLCHAIN=local
WT=/tmp/wt-runall-$$; V=/tmp/verif-runall-$$
git -C /repo worktree add --detach $WT HEAD -q || exit 2
mkdir -p $V && cp /verif/known_findings.json $V/
( cd $WT && git apply "$1" && go build ./... ) || { echo "patch does not apply/build"; git -C /repo worktree remove --force $WT; rm -rf $V; exit 3; }
PROPS=$(python3 -c "import json;print(' '.join(json.load(open('/verif/claims.json')).keys()))")
echo $PROPS | tr ' ' '\n' | xargs -P 6 -I{} sh -c "/tmp/p2pverif -property {} -repo $WT -verif $V > $V/{}.log 2>&1; echo {} \$?" | sort | awk '$2!=0{print "ALARM", $1}' > $V/alarms.txt
cat $V/alarms.txt
for p in $(awk '{print $2}' $V/alarms.txt); do grep -v "^VIOLATION\|KNOWN-FINDING" $V/$p.log | head -3 | cut -c1-300; done
echo "done: $(wc -l < $V/alarms.txt) alarms"
git -C /repo worktree remove --force $WT; rm -rf $V
