#!/usr/bin/env python3
"""usage: addfinding.py PROPERTY RULE CONSTRUCT STATUS WHAT [COMMIT] [REPRO]  (maintenance helper, never run by a check)"""
import json,sys
f=json.load(open('/verif/known_findings.json'))
a=sys.argv[1:]
e=dict(property=a[0],rule=a[1],construct=a[2],status=a[3],what=a[4])
if len(a)>5 and a[5]: e['commit']=a[5]
if len(a)>6 and a[6]: e['repro']=a[6]
f['findings']=[x for x in f['findings'] if not (x['property']==e['property'] and x['rule']==e['rule'] and x['construct']==e['construct'])]
f['findings'].append(e)
json.dump(f,open('/verif/known_findings.json','w'),indent=1)
