#!/usr/bin/env python3
"""Regenerates MANIFEST.json from the table below (single source of truth)."""
import json
CLAIMED = json.load(open("/verif/claims.json"))
NA = {}
ALL = [json.loads(l)["id"] for l in open("/verif/properties.jsonl")]
checks = []
import os
def rule_list(pid):
    """rule ids and their one-line docs, from the last evidence written by the check itself"""
    f=f"/verif/evidence/{pid}.json"
    if not os.path.exists(f): return ""
    try:
        rules=json.load(open(f))["coverage"]["rules"]
    except Exception:
        return ""
    return " Rules decided by this check (id: statement; every rule has mutants that must fire in the thorough tier): " + "; ".join(f"{r['id']}: {r['doc']}" for r in rules) + "."
for pid in ALL:
    if pid in CLAIMED:
        c = dict(CLAIMED[pid])
        c["text"] = c["text"] + rule_list(pid)
        checks.append({
            "property_id": pid,
            "quick_cmd": f"./check {pid} quick",
            "thorough_cmd": f"./check {pid} thorough",
            "evidence_file": f"evidence/{pid}.json",
            "replay_cmd_template": "cat {path}",
            "engine": "p2pverif",
            "level_claimed": {"category": "other", "text": c["text"], "design_ref": c["ref"]},
            "level_note": c["note"],
            "technique": c["technique"],
        })
na = []
for pid in ALL:
    if pid in CLAIMED:
        continue
    na.append({"property_id": pid, "reason": NA.get(pid, "check under construction in this build phase (DESIGN.md §7 build order); not claimed until its rules run clean on the pinned tree")})
m = {
 "version": 1,
 "setup_cmd": "cd /verif/checker && GOFLAGS=-mod=mod GOPROXY=off GOSUMDB=off GOTOOLCHAIN=local GOWORK=off go build -o /verif/bin/p2pverif ./cmd/p2pverif",
 "hooks": {
  "guard": "verif",
  "enable": "no source hooks are used; the analysis reads /repo's working tree as it is (build tag 'verif' reserved, unused)",
  "baseline_off_cmd": "cd /repo && GOFLAGS=-mod=mod go test -vet=off -count=1 -timeout 25m ./...",
  "source_commits": [],
  "add_only": True,
 },
 "engines": [{
  "name": "p2pverif", "path": "checker/", "serves_properties": sorted(CLAIMED),
  "kind_free_text": "repository-specific static analyser over go/packages + go/ssa (x/tools v0.29.0): CFG edge-cut guard engine, value provenance, select/channel shape, non-nil must-analysis, lockset, panic-site obligations, typestate extraction, grammar inclusion, call-graph reachability",
 }],
 "checks": checks,
 "not_applicable": na,
 "notes": "All checks are static: they load and type-check /repo's current working tree (go/packages, ./...), build SSA and decide rule obligations; nothing under /repo is executed. known_findings.json lists genuine defects recorded rather than repaired and the fixed ones.",
}
json.dump(m, open("/verif/MANIFEST.json", "w"), indent=1)
print("claimed", len(checks), "na", len(na))
