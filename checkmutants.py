#!/usr/bin/env python3
"""Maintenance helper: every mutant/negative must still apply to /repo (old text occurs exactly once)."""
import json,glob,sys
bad=0
for f in sorted(glob.glob('/verif/mutants/*.json')+glob.glob('/verif/negatives/*.json')):
    m=json.load(open(f))
    src=open('/repo/'+m['file']).read()
    n=src.count(m['old'])
    if n!=1:
        bad+=1; print("STALE",f,n)
print("checked, stale:",bad)
sys.exit(1 if bad else 0)
