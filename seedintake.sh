#!/bin/bash
# usage: seedintake.sh <NN> <round-letter> <seed-number>   e.g. seedintake.sh 12 g 7
# Copies a sub-agent's SEED/ from its scratch worktree into /verif/seeded/C<NN>-s<k>, confirms it
# (seedconfirm.sh), runs the property's own check against it (seedtest2.sh), removes the worktree.
set -u
N=$1; L=$2; K=$3
WT=/tmp/wt-c${N}${L}; D=/verif/seeded/C${N}-s${K}
[ -f $WT/SEED/patch.diff ] || { echo "no SEED in $WT"; exit 2; }
mkdir -p $D && cp $WT/SEED/* $D/
git -C /repo worktree remove --force $WT
/verif/seedconfirm.sh C${N}-s${K} 2>&1 | grep -E "CONFIRM|exit=|^ok|FAIL|panic" | head -20
/verif/seedtest2.sh C${N}-s${K} C${N}
