#!/bin/bash
# usage: seedtest.sh <seed-dir-name> <property> [confirm]
# Applies seeded/<name>/patch.diff to /repo, runs the property's quick check, undoes the patch.
# With "confirm": first validates the seed in a scratch worktree (demo fails with, passes without; build ok).
set -u
export GOFLAGS=-mod=mod GOPROXY=off GOSUMDB=off GOTOOLCHAIN=local
S=/verif/seeded/$1; P=$2
if [ "${3:-}" = confirm ]; then
  WT=/tmp/wt-confirm-$$
  git -C /repo worktree add --detach $WT HEAD -q || exit 2
  ( cd $WT
    git apply $S/patch.diff || { echo "CONFIRM: patch does not apply"; exit 3; }
    go build ./... || { echo "CONFIRM: does not build"; exit 3; }
    CP=$(python3 -c "import json;print(json.load(open('$S/meta.json'))['demo']['copy_to'])")
    RUN=$(python3 -c "import json;print(json.load(open('$S/meta.json'))['demo']['run'])")
    F=$(python3 -c "import json;print(json.load(open('$S/meta.json'))['demo']['file'])")
    cp $S/$F $CP
    echo "CONFIRM: demo WITH change: $RUN"; timeout 120 bash -c "$RUN" >/tmp/seed-with.log 2>&1; echo "  exit=$? (expect non-zero)"; tail -3 /tmp/seed-with.log
    rm $CP
    PK=$(dirname $CP)
    echo "CONFIRM: package tests WITH change (no demo): go test ./$PK/..."; go test -count=1 ./$PK/... 2>&1 | tail -3
    git checkout -- . ; cp $S/$F $CP
    echo "CONFIRM: demo WITHOUT change"; timeout 120 bash -c "$RUN" >/tmp/seed-without.log 2>&1; echo "  exit=$? (expect 0)"; tail -2 /tmp/seed-without.log
  )
  git -C /repo worktree remove --force $WT
fi
git -C /repo apply $S/patch.diff || { echo "patch does not apply to /repo"; exit 3; }
echo "CHECK $P on seeded tree:"
( cd /verif && ./check $P quick | grep -v KNOWN-FINDING | cut -c1-400 | tail -6 )
git -C /repo checkout -- .
git -C /repo status --short | head -3
