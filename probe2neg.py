#!/usr/bin/env python3
# usage: probe2neg.py <diff> <id-suffix> <note> <PROP:RULE>...   — maintenance helper.
# Turns a behaviour-preserving diff into negatives/<PROP>-N-<id>.json (whole-file replacement per touched file).
import json, subprocess, sys, tempfile, os, shutil
diff, ident, note = sys.argv[1], sys.argv[2], sys.argv[3]
wt = tempfile.mkdtemp(prefix='wt-p2n-'); os.rmdir(wt)
subprocess.check_call(['git','-C','/repo','worktree','add','--detach',wt,'HEAD','-q'])
try:
    subprocess.check_call(['git','apply',os.path.abspath(diff)],cwd=wt)
    files = subprocess.check_output(['git','diff','--name-only'],cwd=wt,text=True).split()
    hunks=[{"file":f,"old":open('/repo/'+f).read(),"new":open(wt+'/'+f).read()} for f in files]
finally:
    subprocess.call(['git','-C','/repo','worktree','remove','--force',wt])
for pr in sys.argv[4:]:
    prop, rule = pr.split(':')
    d={"id":f"{prop}-N-{ident}","property":prop,"rule":rule,"file":hunks[0]["file"],"old":hunks[0]["old"],"new":hunks[0]["new"],"note":note}
    if len(hunks)>1: d["more"]=hunks[1:]
    json.dump(d,open(f'/verif/negatives/{prop}-N-{ident}.json','w'),indent=1)
    print('wrote',d['id'])
