#!/usr/bin/env python3
"""Rewrites the seed table in DESIGN.md §8.4 from seeded/*/meta.json."""
import json,glob,re
rows=[]
for d in sorted(glob.glob('/verif/seeded/*/meta.json')):
    m=json.load(open(d)); sid=d.split('/')[3]
    rows.append((sid,m.get('summary','').replace('|','/').replace('\n',' ')[:260],m.get('first_run','?'),m.get('detected_by','?').replace('|','/')))
caught=sum(1 for r in rows if r[2].startswith('caught'))
tab=f"{caught} of {len(rows)} were caught on the first run of the property's own check.\n\n| seed | change | first run | caught by |\n|------|--------|-----------|-----------|\n"+"\n".join(f"| {a} | {b} | {c} | {d} |" for a,b,c,d in rows)
s=open('/verif/DESIGN.md').read()
s=re.sub(r'<!-- SEEDTAB-BEGIN -->.*<!-- SEEDTAB-END -->','<!-- SEEDTAB-BEGIN -->\n'+tab.replace('\\','\\\\')+'\n<!-- SEEDTAB-END -->',s,flags=re.S)
open('/verif/DESIGN.md','w').write(s)
print(caught,len(rows))
