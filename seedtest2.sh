#!/bin/bash
# usage: seedtest2.sh <seed-dir-name> <property>...
# Like seedtest.sh but never touches /repo: applies the seed in a scratch worktree and points the
# checker at it (-repo), with a scratch verif dir (known findings copied) so evidence/ is not clobbered.
set -u
export GOFLAGS=-mod=mod GOPROXY=off GOSUMDB=off GOTOOLCHAIN=local
S=/verif/seeded/$1; shift
WT=/tmp/wt-seed2-$$; V=/tmp/verif-seed2-$$
git -C /repo worktree add --detach $WT HEAD -q || exit 2
mkdir -p $V && cp /verif/known_findings.json $V/
( cd $WT && { git apply $S/patch.diff 2>/dev/null || git apply $S/patch_rebased.diff; } ) || { echo "patch does not apply"; git -C /repo worktree remove --force $WT; exit 3; }
for P in "$@"; do
  echo "CHECK $P on seeded tree:"
  /tmp/p2pverif -property $P -repo $WT -verif $V 2>&1 | grep -v KNOWN-FINDING | grep -v "^VIOLATION" | cut -c1-420 | tail -5
done
git -C /repo worktree remove --force $WT; rm -rf $V
