#!/bin/bash
# usage: seedconfirm.sh <seed-dir-name>
# Validates a seeded change in a scratch worktree of /repo (never /repo itself): the patch applies and
# builds, the demo FAILS with the change, the touched package's own tests pass with it, and the demo
# PASSES without it.
set -u
export GOFLAGS=-mod=mod GOPROXY=off GOSUMDB=off GOTOOLCHAIN=local
S=/verif/seeded/$1
WT=/tmp/wt-confirm-$$
git -C /repo worktree add --detach $WT HEAD -q || exit 2
( cd $WT
  git apply $S/patch.diff 2>/dev/null || git apply $S/patch_rebased.diff || { echo "CONFIRM: patch does not apply"; exit 3; }
  go build ./... || { echo "CONFIRM: does not build"; exit 3; }
  CP=$(python3 -c "import json;print(json.load(open('$S/meta.json'))['demo']['copy_to'])")
  RUN=$(python3 -c "import json;print(json.load(open('$S/meta.json'))['demo']['run'])")
  F=$(python3 -c "import json;print(json.load(open('$S/meta.json'))['demo']['file'])")
  cp $S/$F $CP
  echo "CONFIRM: demo WITH change: $RUN"; timeout 180 bash -c "$RUN" >/tmp/seed-with-$$.log 2>&1; echo "  exit=$? (expect non-zero)"; grep -E "^(--- FAIL|FAIL|ok|panic)" /tmp/seed-with-$$.log | head -4
  rm $CP
  PK=$(dirname $CP)
  echo "CONFIRM: package tests WITH change (no demo): go test ./$PK/..."; go test -count=1 ./$PK/... 2>&1 | tail -3
  git checkout -- . ; cp $S/$F $CP
  echo "CONFIRM: demo WITHOUT change"; timeout 180 bash -c "$RUN" >/tmp/seed-without-$$.log 2>&1; echo "  exit=$? (expect 0)"; tail -2 /tmp/seed-without-$$.log
  rm -f /tmp/seed-with-$$.log /tmp/seed-without-$$.log
)
git -C /repo worktree remove --force $WT
